------------------------------- MODULE ZGraph -------------------------------
(***************************************************************************)
(* Persistence by reachability, reference kinds and reference extraction,  *)
(* transcribed from                                                        *)
(*   serialize.ObjectWriter.persistent_id   (reference formats, queueing   *)
(*                                           of new objects, weak refs)    *)
(*   Connection.add/_commit/_store_objects  (what a commit stores)         *)
(*   serialize.referencesf / get_refs       (case analysis on formats)     *)
(*   ExportImport.exportFile, storage pack with gc (consumers of           *)
(*                                           reference extraction)         *)
(*                                                                         *)
(* Connection A of database "1" holds NNode application objects (node 0 is *)
(* the graph root: it is stored, empty, before the behaviour starts and is *)
(* referenced from the database root mapping).  A node has a class kind    *)
(* (kinds) and out-edges.  An edge has a target (a node of this database,  *)
(* or a node of FNodes living in database "2" of the same multi-database), *)
(* a reference kind (strong: the object itself; weak: persistent.wref.     *)
(* WeakRef) and a holder (the shape of the plain, non-persistent container *)
(* path between the owner's state and the reference).                      *)
(*                                                                         *)
(* One action per real operation.  `obs` is a function of (kinds, stored): *)
(* what another connection must see, what referencesf/get_refs must answer *)
(* for every record, what a pack with gc keeps, what an export contains.   *)
(* The byte level (pickle opcodes, oid bytes) is not modelled: oid byte    *)
(* patterns are a concretisation parameter of the replay.                  *)
(***************************************************************************)
EXTENDS Integers, FiniteSets, Sequences, TLC, Randomization

CONSTANTS NNode,      \* nodes of database "1" are 0..NNode-1
          FNodes,     \* nodes of database "2" (integers >= 100; even: plain class, odd: class with __getnewargs__)
          Holders,    \* e.g. {"direct", "list", "dict", "deep"}
          KindSets,   \* sequence: KindSets[n+1] = class kinds node n may have
          MaxEdges,   \* bound on in-memory edges
          MaxOps,     \* bound on operations of a behaviour
          WeakAdds,   \* TRUE = the code as it is: pickling a weak reference to an object without oid
                      \*        gives it an oid and queues it for storing (comment in persistent_id)
          NCand, CandSize,  \* simulation only: number / expected size of candidate edge sets
          Lifecycle,  \* TRUE: the life-cycle actions of the loading connection B are part of Next
          Savepoints, MaxSp,  \* TRUE: Savepoint / Rollback(k) are part of Next; bound on live savepoints
          ImportSlots,  \* nodes that come into being only through ImportCopy (importFile); {} = no imports, no Abort
          Touches,    \* TRUE: TouchElsewhere (the loading connection changes and commits an object) is part of Next
          \* deviations: TRUE = the code as it is (TLC then exhibits the violated property), FALSE = the repaired design
          SavepointOrphans,           \* a commit copies EVERY record of the savepoint store, reachable or not
          Py2Remap,                   \* broken.find_global renames py2 stdlib module names in every record it reads
          BrokenContainerUnloadable,  \* a missing list / dict subclass in a state makes the owner unloadable
          BrokenReduceLosesArgs,      \* a placeholder built by Class(*args) is written back as Class.__new__(*args)
          ImportNotCreating           \* importFile writes its objects to the savepoint store without entering them in
                                      \* `creating`: abort / rollback leave the returned object owned, without a record

VARIABLES kinds,      \* class kind of every node: "plain" | "newargs" | "gone" | "gonenew" | "py2mod"
          cand,       \* <<src, edge>> pairs AddEdge may choose from (all of them when model checking)
          mem,        \* connection A, in memory: node -> set of out-edges
          hasOid,     \* nodes with _p_oid/_p_jar set in connection A
          added,      \* connection.add()ed and not yet committed (Connection._added)
          dirty,      \* stored nodes changed since their last commit (registered with the transaction)
          stored,     \* database "1": node -> [p |-> record present, e |-> edges in the record]
          packed,     \* a pack with gc ran: connection A is not used any more
          touched,    \* the loading connection committed a change: connection A edits no more
          txn,        \* connection A's transaction: savepoint store (TmpStore) and savepoints, see Txn0
          stale,      \* objects of connection A that own an oid for which no record exists anywhere (ghosts that cannot load)
          ops, commits,
          bconn,      \* the loading connection B of database "1" (pooled): [st, gen, hgen, pend]
          res,        \* the last operation (and what the replay must observe about B)
          obs         \* derived: ObsOf(kinds, stored)

vars == <<kinds, cand, mem, hasOid, added, dirty, stored, packed, touched, txn, stale, ops, commits, bconn, res, obs>>

Nodes == 0..(NNode - 1)
Root == 0
Targets == Nodes \cup FNodes
EdgeT == [dst : Targets, kind : {"strong", "weak"}, holder : Holders]
\* holders of the driver: direct list dict deep (plain containers); glist gdict (instance of a MISSING list / dict
\* subclass holding the reference); rvalue (instance of a MISSING value class built by Class(reference), i.e.
\* pickled with REDUCE); rlost = an rvalue after a placeholder wrote it back as Class.__new__(reference)
RecEdgeT == [dst : Targets, kind : {"strong", "weak"}, holder : Holders \cup {"rlost"}]
SrcEdge == Nodes \X EdgeT
Absent == [p |-> FALSE, e |-> {}]
Rec(es) == [p |-> TRUE, e |-> es]
KindAssignments == {f \in [Nodes -> UNION {KindSets[i] : i \in 1..NNode}] : \A n \in Nodes : f[n] \in KindSets[n + 1]}

FKindOf(f) == IF f % 2 = 0 THEN "plain" ELSE "newargs"
KindOf(k, t) == IF t \in FNodes THEN FKindOf(t) ELSE k[t]
HasNewArgs(c) == c \in {"newargs", "gonenew"}        \* hasattr(klass, '__getnewargs__')
Gone(c) == c \in {"gone", "gonenew"}                 \* class not importable where the record is read
\* "py2mod": an ordinary, importable class whose module is called like a Python 2 stdlib module ('Queue')
\* a record is read as a placeholder (ZODB.broken) if its class is missing - or, deviation, renamed away
Placeholder(c) == Gone(c) \/ (Py2Remap /\ c = "py2mod")
\* can the record of n be loaded where the "gone" classes are missing?  "container": a missing list / dict subclass
\* in the state (deviation); "dangling": a class-less reference ("o": the target's class has __getnewargs__) to an
\* oid without a record - ObjectReader.load_oid needs the target's record to make the ghost; else "ok"

(* ------------- ObjectWriter.persistent_id: the reference written -------- *)
\* "w"  ['w', (oid,)]            weak, same database
\* "wd" ['w', (oid, dbname)]     weak, other database
\* "n"  ['n', (dbname, oid)]     other database, class has __getnewargs__
\* "m"  ['m', (dbname, oid, cls)] other database
\* "o"  oid                      class has __getnewargs__ (class not cached in the reference)
\* "oc" (oid, cls)               the ordinary reference
Format(k, e) ==
  IF e.kind = "weak" THEN (IF e.dst \in FNodes THEN "wd" ELSE "w")
  ELSE IF e.dst \in FNodes THEN (IF HasNewArgs(KindOf(k, e.dst)) THEN "n" ELSE "m")
  ELSE IF HasNewArgs(KindOf(k, e.dst)) THEN "o" ELSE "oc"

\* persistent_id gives an object without oid an oid and pushes it on the writer's stack
Queued(hasO, e) == /\ e.dst \in Nodes /\ e.dst \notin hasO
                   /\ (e.kind = "strong" \/ WeakAdds)

\* Connection._commit: one ObjectWriter per registered object, _store_objects drains its stack
RECURSIVE Closure(_, _, _)
Closure(m, hasO, S) ==
  LET T == S \cup {e.dst : e \in {x \in UNION {m[n] : n \in S} : Queued(hasO, x)}}
  IN IF T = S THEN S ELSE Closure(m, hasO, T)

Loadable(k, st, n) ==
  IF BrokenContainerUnloadable /\ \E e \in st[n].e : e.holder \in {"glist", "gdict"} THEN "container"
  ELSE IF \E e \in st[n].e : Format(k, e) = "o" /\ ~st[e.dst].p THEN "dangling"
  ELSE "ok"

(* ------------- referencesf / get_refs: case analysis on the format ------ *)
\* tuple -> reference[0]; bytes/str -> the reference; list -> skipped
Extracted(k, es) == {e.dst : e \in {x \in es : Format(k, x) \in {"oc", "o"}}}
\* the meaning it must have: the ordinary (strong, same-database) references
OrdinaryRefs(es) == {e.dst : e \in {x \in es : x.kind = "strong" /\ x.dst \in Nodes}}

RECURSIVE ReachFrom(_, _, _)
ReachFrom(k, st, S) ==
  LET T == S \cup UNION {Extracted(k, st[n].e) : n \in {x \in S : st[x].p}}
  IN IF T = S THEN S ELSE ReachFrom(k, st, T)
Live(k, st) == {n \in ReachFrom(k, st, {Root}) : st[n].p}
PackedStore(k, st) == [n \in Nodes |-> IF n \in Live(k, st) THEN st[n] ELSE Absent]

\* ExportImport._importDuringCommit handles oid and (oid, class) references only ("It is currently out
\* of date and doesn't handle weak references"; cross-database export is listed as missing in
\* cross-database-references.rst): import is judged on exports made of ordinary references only
ExportSet(k, st, n) == IF st[n].p THEN {x \in ReachFrom(k, st, {n}) : st[x].p} ELSE {}
Importable(k, st, n) == /\ st[n].p
                        /\ \A m \in ExportSet(k, st, n) : \A e \in st[m].e :
                              /\ Format(k, e) \in {"oc", "o"} /\ e.holder # "rlost" /\ st[e.dst].p

ObsOf(k, st) ==
  [view |-> [n \in Nodes |->
               [p |-> st[n].p, broken |-> Placeholder(k[n]), loadable |-> Loadable(k, st, n),
                e |-> {[dst |-> e.dst, kind |-> e.kind, holder |-> e.holder, fmt |-> Format(k, e),
                        alive |-> IF e.dst \in FNodes THEN TRUE ELSE st[e.dst].p] : e \in st[n].e}]],
   refs |-> [n \in Nodes |-> Extracted(k, st[n].e)],
   live |-> Live(k, st),
   exp  |-> [n \in Nodes |-> ExportSet(k, st, n)],
   imp  |-> {n \in Nodes : Importable(k, st, n)}]

(* ------------------------------ initial states -------------------------- *)
Empty == [n \in Nodes |-> {}]
Store0 == [n \in Nodes |-> IF n = Root THEN Rec({}) ELSE Absent]
\* orphans / dangling / lost: what the property monitor of the replay reports for this step (sets of nodes)
BRes(name, reused, same, fresh) == [op |-> name, out |-> "ok", reused |-> reused, same |-> same, fresh |-> fresh,
                                    orphans |-> {}, dangling |-> {}, lost |-> {}]
Op(name) == BRes(name, FALSE, FALSE, FALSE)

(* ------------- the loading connection B through its life-cycle ---------- *)
\* st   "none" (never opened) | "open" | "closed" (in the pool of the database)
\* gen  generation of its object cache: Connection.open() of a pooled connection calls _resetCache() when
\*      ZODB.Connection.resetCaches() ran since the connection last looked (pend)
\* hgen generation in which the objects the application still holds (from the last traversal) were obtained
\* One in-memory object per oid per connection, over the life-cycle: as long as the cache generation is the
\* same, every path to an oid (reference from any referrer, get(oid), root()) gives the object handed out
\* before - across close / re-open from the pool, deactivation, abort, invalidation.
B0 == [st |-> "none", gen |-> 0, hgen |-> -1, pend |-> FALSE]
OpenedB(b) == IF b.st = "open" THEN b
              ELSE [b EXCEPT !.st = "open", !.pend = FALSE,
                             !.gen = IF b.st = "closed" /\ b.pend THEN @ + 1 ELSE @]
\* reused: db.open() must hand back the pooled connection; same: the held objects are still THE objects;
\* fresh: the traversal starts on a cache that was reset
BStep(op, b) ==
  CASE op = "LoadElsewhere" ->
         LET o == OpenedB(b) IN [b |-> [o EXCEPT !.hgen = o.gen],
                                 res |-> BRes(op, b.st # "none", o.hgen = o.gen, o.gen # b.gen)]
    [] op = "CloseB" -> [b |-> [b EXCEPT !.st = "closed"], res |-> Op(op)]
    [] op = "ResetCaches" -> [b |-> [b EXCEPT !.pend = TRUE], res |-> Op(op)]
    [] OTHER -> [b |-> b, res |-> Op(op)]        \* MinimizeAllB, MinimizeSomeB, AbortB: nothing may change

(* ------------- connection A's transaction: savepoints -------------------- *)
\* on   a savepoint store (Connection._savepoint_storage, a TmpStore over the storage) is in use
\* tmp  its records; cre its `creating` (objects that have no committed record); sps the live savepoints, each
\*      the (index, creating) the store had; xadd objects add()ed in this transaction (for the property only)
NoRecs == [n \in Nodes |-> Absent]
\*      imp  objects importFile returned in this transaction
Txn0 == [on |-> FALSE, tmp |-> NoRecs, cre |-> {}, sps |-> <<>>, xadd |-> {}, imp |-> {}]
Overlay(base, t) == [n \in Nodes |-> IF t[n].p THEN t[n] ELSE base[n]]

InitWith(k, c, m, ad) ==
  /\ kinds = k /\ cand = c /\ mem = m
  /\ added = ad /\ hasOid = {Root} \cup ad
  /\ dirty = IF m[Root] = {} THEN {} ELSE {Root}
  /\ stored = Store0 /\ packed = FALSE /\ touched = FALSE /\ txn = Txn0 /\ stale = {} /\ ops = 0 /\ commits = 0
  /\ bconn = B0
  /\ res = Op("init")
  /\ obs = ObsOf(k, Store0)

\* model checking: every program over the whole edge universe
Init == \E k \in KindAssignments : InitWith(k, SrcEdge, Empty, {})

\* simulation: NCand random candidate sets keep the branching of AddEdge comparable to the other actions
InitSim == \E k \in KindAssignments : \E c \in RandomSetOfSubsets(NCand, CandSize, SrcEdge) :
             InitWith(k, c, Empty, {})

\* all small graphs: connection A starts with an arbitrary graph of at most MaxEdges edges in memory
\* and an arbitrary set of explicitly added nodes
RECURSIVE GraphsUpTo(_)
GraphsUpTo(n) == IF n = 0 THEN {{}}
                 ELSE LET G == GraphsUpTo(n - 1) IN G \cup {g \cup {x} : g \in G, x \in SrcEdge}
MemOf(g) == [n \in Nodes |-> {p[2] : p \in {q \in g : q[1] = n}}]
InitGraphs == \E k \in KindAssignments : \E g \in GraphsUpTo(MaxEdges) : \E ad \in SUBSET (Nodes \ {Root}) :
                InitWith(k, SrcEdge, MemOf(g), ad)

(* --------------------------------- actions ------------------------------ *)
NEdges == Cardinality(UNION {{<<n, e>> : e \in mem[n]} : n \in Nodes})
Editing == ~packed /\ ~touched /\ ops < MaxOps
Touch(s) == IF s \in hasOid /\ s \notin added THEN dirty \cup {s} ELSE dirty
Step(name) == /\ ops' = ops + 1 /\ res' = Op(name)

\* obj.slot = target | [target] | {'k': target} | ... (WeakRef(target) for a weak edge); _p_changed is set
AddEdge(s, d, k, h) ==
  LET e == [dst |-> d, kind |-> k, holder |-> h] IN
  /\ Editing /\ <<s, e>> \in cand /\ e \notin mem[s] /\ NEdges < MaxEdges
  /\ s \notin stale /\ {s, d} \cap (ImportSlots \ hasOid) = {}
  /\ mem' = [mem EXCEPT ![s] = @ \cup {e}]
  /\ dirty' = Touch(s)
  /\ Step("AddEdge")
  /\ UNCHANGED <<kinds, cand, hasOid, added, stored, packed, touched, txn, stale, commits, bconn, obs>>

RemoveEdge(s, d, k, h) ==
  LET e == [dst |-> d, kind |-> k, holder |-> h] IN
  /\ Editing /\ e \in mem[s]
  /\ mem' = [mem EXCEPT ![s] = @ \ {e}]
  /\ dirty' = Touch(s)
  /\ Step("RemoveEdge")
  /\ UNCHANGED <<kinds, cand, hasOid, added, stored, packed, touched, txn, stale, commits, bconn, obs>>

\* connection.add(obj): oid and jar at once, stored by the next commit whether reachable or not
ExplicitAdd(n) ==
  /\ Editing /\ n \notin hasOid /\ n \notin ImportSlots
  /\ hasOid' = hasOid \cup {n} /\ added' = added \cup {n}
  /\ txn' = [txn EXCEPT !.xadd = @ \cup {n}]
  /\ Step("ExplicitAdd")
  /\ UNCHANGED <<kinds, cand, mem, dirty, stored, packed, touched, stale, commits, bconn, obs>>

CommitSet == Closure(mem, hasOid, dirty \cup added)
Carries(e) == e.kind = "strong" \/ WeakAdds
\* what a set of seed objects reaches through the records of a store
RECURSIVE CarryReach(_, _)
CarryReach(st, S) ==
  LET T == S \cup {e.dst : e \in {x \in UNION {st[n].e : n \in {y \in S : st[y].p}} : x.dst \in Nodes /\ Carries(x)}}
  IN IF T = S THEN S ELSE CarryReach(st, T)
Dangling(st) == {d \in Nodes : ~st[d].p /\ \E n \in Nodes : st[n].p /\ d \in OrdinaryRefs(st[n].e)}

\* Connection.savepoint(): _commit() into the TmpStore - the same closure as a commit; new objects go to `creating`
Flushed == [n \in Nodes |-> IF n \in CommitSet THEN Rec(mem[n]) ELSE txn.tmp[n]]
FlushedCre == txn.cre \cup {n \in CommitSet : ~stored[n].p}
Savepoint ==
  /\ Savepoints /\ Editing /\ Len(txn.sps) < MaxSp
  /\ (txn.on \/ dirty \cup added # {})          \* connection A has joined the transaction
  /\ txn' = [txn EXCEPT !.on = TRUE, !.tmp = Flushed, !.cre = FlushedCre,
                         !.sps = Append(@, [tmp |-> Flushed, cre |-> FlushedCre, imp |-> txn.imp])]
  /\ hasOid' = hasOid \cup CommitSet /\ dirty' = {} /\ added' = {}
  /\ Step("Savepoint")
  /\ UNCHANGED <<kinds, cand, mem, stored, packed, touched, stale, commits, bconn, obs>>

\* who is disowned when the transaction goes back to a savepoint (cre0, imp0: its creating / imports) or aborts:
\* objects created since, objects add()ed and pending - and, in the repaired design, objects imported since
Disowned(cre0, imp0) == (txn.cre \ cre0) \cup added \cup (IF ImportNotCreating THEN {} ELSE txn.imp \ imp0)
\* Not taken (property C11, not this one) while an object about to be disowned is registered as changed - abort
\* invalidates it first and its only state is lost - or while an object that will have no oid afterwards holds a weak
\* reference to one that is disowned: the WeakRef keeps the oid it was given
\* (repaired design only) an imported object that no savepoint has flushed since is registered as changed - the
\* harness renamed it - so abort invalidates it before it is disowned: it is gone, the slot is free again
GhostDisowned(D) == (D \cap txn.imp) \ txn.cre
CanDisown(created, D) ==
  /\ created \cap dirty = {}
  /\ \A s \in (Nodes \ hasOid) \cup D : \A e \in mem[s] : e.kind = "weak" => e.dst \notin D

\* savepoint.rollback(): Connection._rollback_savepoint - registered objects are invalidated (add()ed ones
\* disowned), objects created after the savepoint are disowned (they keep what they hold in memory), the store is
\* reset and everything it held is invalidated: owned objects show the savepoint's state; later savepoints die.
Rollback(k) ==
  /\ Savepoints /\ Editing /\ k \in 1..Len(txn.sps)
  /\ LET sp == txn.sps[k]
         D == Disowned(sp.cre, sp.imp)
         keep == hasOid \ D IN
     /\ CanDisown(txn.cre \ sp.cre, D)
     /\ hasOid' = keep
     /\ mem' = [n \in Nodes |-> IF n \in keep THEN Overlay(stored, sp.tmp)[n].e
                                  ELSE IF n \in GhostDisowned(D) THEN {} ELSE mem[n]]
     /\ stale' = stale \cup ((txn.imp \ sp.imp) \cap keep)
     /\ txn' = [txn EXCEPT !.tmp = sp.tmp, !.cre = sp.cre, !.sps = SubSeq(@, 1, k), !.xadd = @ \ D, !.imp = sp.imp]
  /\ dirty' = {} /\ added' = {}
  /\ Step("Rollback")
  /\ UNCHANGED <<kinds, cand, stored, packed, touched, commits, bconn, obs>>

\* transaction abort in connection A: Connection.abort -> _abort, _abort_savepoint
Abort ==
  /\ ImportSlots # {} /\ Editing /\ (txn.on \/ dirty \cup added # {})
  /\ LET D == Disowned({}, {})
         keep == hasOid \ D IN
     /\ CanDisown(txn.cre, D)
     /\ hasOid' = keep
     /\ mem' = [n \in Nodes |-> IF n \in keep THEN stored[n].e
                                  ELSE IF n \in GhostDisowned(D) THEN {} ELSE mem[n]]
     /\ stale' = stale \cup (txn.imp \cap keep)
  /\ txn' = Txn0 /\ dirty' = {} /\ added' = {}
  /\ Step("Abort")
  /\ UNCHANGED <<kinds, cand, stored, packed, touched, commits, bconn, obs>>

\* copy = connection.importFile(connection.exportFile(oid of src)); copy.name = ...: importFile makes a savepoint
\* (pending changes are flushed with it), writes the copies there under new oids and returns the first as a ghost;
\* the harness then renames it (a change like any other).  Here the export holds one object: src refers to nothing
\* but itself.
CopyEdges(es, src, c) == {[e EXCEPT !.dst = c] : e \in es}
ImportCopy(c, src) ==
  /\ Editing /\ c \in ImportSlots \ hasOid /\ src \in hasOid \ (dirty \cup added \cup stale) /\ kinds[c] = kinds[src]
  /\ kinds[src] # "py2mod"
  \* the slot is free: no object in memory still refers to an earlier, disowned copy that lived in it
  /\ \A n \in Nodes : \A e \in mem[n] : e.dst # c
  /\ LET rec == Overlay(stored, txn.tmp)[src] IN
     /\ rec.p /\ \A e \in rec.e : e.dst = src /\ Format(kinds, e) \in {"oc", "o"} /\ e.holder \in {"direct", "list", "dict", "deep"}
     /\ txn' = [txn EXCEPT !.on = TRUE, !.tmp = [Flushed EXCEPT ![c] = Rec(CopyEdges(rec.e, src, c))],
                            !.cre = FlushedCre \cup (IF ImportNotCreating THEN {} ELSE {c}),
                            !.xadd = @ \cup {c}, !.imp = @ \cup {c}]
     /\ mem' = [mem EXCEPT ![c] = CopyEdges(rec.e, src, c)]
  /\ hasOid' = hasOid \cup CommitSet \cup {c} /\ dirty' = {c} /\ added' = {}
  /\ Step("ImportCopy")
  /\ UNCHANGED <<kinds, cand, stored, packed, touched, stale, commits, bconn, obs>>

\* commit: without savepoints the closure is stored; with savepoints the pending changes are flushed like a
\* savepoint and _commit_savepoint copies the records of the savepoint store - all of them (SavepointOrphans)
Commit ==
  /\ Editing
  /\ LET C == CommitSet
         full == Overlay(stored, Flushed)
         just == CarryReach(full, {n \in Nodes : stored[n].p} \cup txn.xadd)
         orph == {n \in Nodes : Flushed[n].p /\ ~stored[n].p /\ n \notin just}
         st == IF SavepointOrphans THEN full ELSE [n \in Nodes |-> IF n \in orph THEN stored[n] ELSE full[n]] IN
     /\ stored' = st
     /\ hasOid' = IF SavepointOrphans THEN hasOid \cup C ELSE (hasOid \cup C) \ orph
     /\ obs' = ObsOf(kinds, st)
     /\ res' = [Op("Commit") EXCEPT !.orphans = IF SavepointOrphans THEN orph ELSE {}, !.dangling = Dangling(st)]
  /\ dirty' = {} /\ added' = {} /\ txn' = Txn0
  /\ commits' = commits + 1 /\ ops' = ops + 1
  /\ UNCHANGED <<kinds, cand, mem, packed, touched, stale, bconn>>

\* a second connection (and its sibling in database "2") loads everything: judged against obs
\* B is opened if it is not open (from the pool once it exists), else brought to a new transaction; it stays open
GraphVars == <<kinds, cand, mem, hasOid, added, dirty, stored, packed, touched, txn, stale, commits, obs>>
BAction(op) == /\ ops' = ops + 1
               /\ bconn' = BStep(op, bconn).b /\ res' = BStep(op, bconn).res
               /\ UNCHANGED GraphVars
LoadElsewhere ==
  /\ ops < MaxOps + 2 /\ res.op # "LoadElsewhere"
  /\ BAction("LoadElsewhere")

\* life-cycle of B between two traversals
BIdle == Lifecycle /\ ops < MaxOps + 2 /\ res.op \notin {"MinimizeAllB", "MinimizeSomeB", "AbortB"}
MinimizeAllB == BIdle /\ bconn.st = "open" /\ BAction("MinimizeAllB")      \* connection.cacheMinimize()
MinimizeSomeB == BIdle /\ bconn.st = "open" /\ BAction("MinimizeSomeB")    \* _p_deactivate() of some held objects
AbortB == BIdle /\ bconn.st = "open" /\ BAction("AbortB")                  \* transaction abort in B
CloseB == Lifecycle /\ ops < MaxOps + 2 /\ bconn.st = "open" /\ BAction("CloseB")
\* global ZODB.Connection.resetCaches(): takes effect when a pooled connection is opened again
ResetCaches == Lifecycle /\ ops < MaxOps + 2 /\ ~bconn.pend /\ bconn.st # "none" /\ BAction("ResetCaches")

\* the loading connection (where the "gone" classes are missing) sets an attribute of node n and commits: the record
\* is written again from what that connection holds - placeholders of missing value classes included
Rewritten(es) == {IF BrokenReduceLosesArgs /\ e.holder = "rvalue" THEN [e EXCEPT !.holder = "rlost"] ELSE e : e \in es}
TouchElsewhere(n) ==
  /\ Touches /\ ops < MaxOps + 2 /\ ~packed /\ commits > 0
  /\ dirty = {} /\ added = {} /\ ~txn.on /\ bconn.st = "open"
  /\ stored[n].p /\ ~Placeholder(kinds[n]) /\ Loadable(kinds, stored, n) = "ok"
  /\ LET st == [stored EXCEPT ![n] = Rec(Rewritten(@.e))] IN
     /\ stored' = st /\ obs' = ObsOf(kinds, st)
     \* connection A (classes importable) re-reads the object at its next transaction
     /\ mem' = [mem EXCEPT ![n] = {e \in st[n].e : e.holder # "rlost"}]
     /\ res' = [Op("TouchElsewhere") EXCEPT !.lost = IF st[n] # stored[n] THEN {n} ELSE {}]
  /\ touched' = TRUE /\ ops' = ops + 1
  /\ UNCHANGED <<kinds, cand, hasOid, added, dirty, packed, txn, stale, commits, bconn>>

\* storage.pack(now, referencesf) with garbage collection, then nothing but loading
Pack ==
  /\ ~packed /\ commits > 0 /\ dirty = {} /\ added = {} /\ ~txn.on /\ Dangling(stored) = {}
  /\ packed' = TRUE
  /\ stored' = PackedStore(kinds, stored)
  /\ obs' = ObsOf(kinds, stored')
  /\ Step("Pack")
  /\ UNCHANGED <<kinds, cand, mem, hasOid, added, dirty, touched, txn, stale, commits, bconn>>

Next == \/ \E s \in Nodes, d \in Targets, k \in {"strong", "weak"}, h \in Holders : AddEdge(s, d, k, h)
        \/ \E s \in Nodes, d \in Targets, k \in {"strong", "weak"}, h \in Holders : RemoveEdge(s, d, k, h)
        \/ \E n \in Nodes : ExplicitAdd(n)
        \/ Commit
        \/ Savepoint
        \/ \E k \in 1..MaxSp : Rollback(k)
        \/ Abort
        \/ \E c \in ImportSlots, src \in Nodes : ImportCopy(c, src)
        \/ \E n \in Nodes : TouchElsewhere(n)
        \/ LoadElsewhere
        \/ MinimizeAllB \/ MinimizeSomeB \/ AbortB \/ CloseB \/ ResetCaches
        \/ Pack

\* all small graphs: commit, then B through its life-cycle with a traversal at every stage, pack, traversal
\* (the whole case is printed by the Commit step; the B part by folding BStep over the script)
GraphScript == <<"LoadElsewhere", "MinimizeAllB", "CloseB", "LoadElsewhere", "ResetCaches", "CloseB", "LoadElsewhere",
                 "Pack", "LoadElsewhere">>
RECURSIVE RunScript(_, _, _)
RunScript(sc, i, b) == IF i > Len(sc) THEN <<>>
                       ELSE LET r == BStep(sc[i], b) IN <<[op |-> sc[i], b |-> r.b, res |-> r.res]>> \o RunScript(sc, i + 1, r.b)
CommitPrinted ==
  /\ commits = 0
  /\ Commit
  /\ PrintT(<<"GRAPH", [kinds |-> kinds, mem |-> mem, added |-> added, dirty |-> dirty, hasOid |-> hasOid],
              [stored |-> stored', hasOid |-> hasOid', obs |-> obs'],
              [stored |-> PackedStore(kinds, stored'), obs |-> ObsOf(kinds, PackedStore(kinds, stored'))],
              RunScript(GraphScript, 1, bconn)>>)
NextGraphs == CommitPrinted \/ (commits > 0 /\ Pack)

(* -------------------------------- properties ---------------------------- *)
TypeOK ==
  /\ kinds \in KindAssignments /\ cand \subseteq SrcEdge
  /\ mem \in [Nodes -> SUBSET EdgeT]
  /\ hasOid \subseteq Nodes /\ added \subseteq hasOid /\ dirty \subseteq hasOid
  /\ stored \in [Nodes -> [p : BOOLEAN, e : SUBSET RecEdgeT]]
  /\ packed \in BOOLEAN /\ touched \in BOOLEAN
  /\ txn.on \in BOOLEAN /\ txn.cre \subseteq hasOid /\ txn.xadd \subseteq hasOid /\ Len(txn.sps) <= MaxSp
  /\ txn.imp \subseteq hasOid /\ stale \subseteq hasOid /\ stale \cap dirty = {}
  /\ (~txn.on => txn = [Txn0 EXCEPT !.xadd = txn.xadd])
  /\ obs = ObsOf(kinds, stored)

\* reference extraction is exact: the format case analysis yields the ordinary references, nothing else
ExtractExact == \A n \in Nodes : Extracted(kinds, stored[n].e) = OrdinaryRefs(stored[n].e)

\* every ordinary reference leads to a stored object - before and after a pack
NoDanglingStrong == \A n \in Nodes : stored[n].p => \A d \in OrdinaryRefs(stored[n].e) : stored[d].p
\* with the code as it is, a weak reference written by a commit leads to a stored object, too
NoDanglingWeak == (WeakAdds /\ ~packed) =>
                    \A n \in Nodes : \A e \in stored[n].e : e.dst \in Nodes => stored[e.dst].p

\* what the repaired design (WeakAdds = FALSE) would have to give up: checked only to exhibit the deviation
WeakTargetsStored == ~packed => \A n \in Nodes : \A e \in stored[n].e : e.dst \in Nodes => stored[e.dst].p

\* round trip: what another connection loads (= the record) is what connection A holds, for every
\* object A has not changed since its commit; an object with an oid is stored unless add()ed and pending
\* or created under a savepoint of the running transaction (then the savepoint store has it)
Pending == added \cup txn.cre \cup txn.imp \cup stale
RoundTrip == (~packed /\ ~touched) =>
  /\ \A n \in hasOid \ Pending : stored[n].p
  /\ \A n \in hasOid \ (added \cup dirty \cup stale) : Overlay(stored, txn.tmp)[n].e = mem[n]
  /\ \A n \in txn.cre : txn.tmp[n].p
  /\ \A n \in Nodes \ hasOid : ~stored[n].p
  /\ \A n \in Pending : ~stored[n].p
  /\ stored[Root].p

\* a pack with gc loses nothing reachable and keeps no garbage
PackKeepsReachable == packed => {n \in Nodes : stored[n].p} = Live(kinds, stored)

\* new objects are stored ONLY IF reachable from stored ones or added explicitly: every record a commit creates
\* is reached, through the records now in the database, from an object that had a record before or was add()ed
\* (paths written out, independent of the fixpoints in Closure / CarryReach; a weak edge counts iff WeakAdds).
\* The IF direction is NoDanglingStrong / NoDanglingWeak.
PathIn(st, S, n) ==
  \E len \in 1..NNode : \E p \in [1..len -> Nodes] :
    /\ p[1] \in S /\ p[len] = n
    /\ \A i \in 1..len : st[p[i]].p
    /\ \A i \in 1..(len - 1) : \E e \in st[p[i]].e : e.dst = p[i + 1] /\ Carries(e)
IsCommit == commits' = commits + 1
StoredIffReachableOrAdded ==
  [][IsCommit => \A n \in Nodes : (stored'[n].p /\ ~stored[n].p) =>
                    PathIn(stored', {m \in Nodes : stored[m].p} \cup txn.xadd, n)]_vars
\* objects that are neither changed nor new keep their record
CommitTouchesOnlyClosure ==
  [][IsCommit => \A n \in Nodes : (n \in hasOid /\ n \notin dirty /\ n \notin added /\ ~txn.tmp[n].p)
                                     => stored'[n] = stored[n]]_vars
\* nothing but a commit or a pack changes the database
OnlyCommitAndPackStore == [][stored' # stored => (IsCommit \/ packed' # packed \/ res'.op = "TouchElsewhere")]_vars
\* nothing of a running transaction (savepoints included) is visible in the database
SavepointsInvisible == [][res'.op \in {"Savepoint", "Rollback", "Abort", "ImportCopy"} => stored' = stored /\ obs' = obs]_vars
\* an object that owns an oid has a record, or its transaction is still running
NoStaleObjects == stale = {}

\* a class that is importable loads as itself; every stored object can be loaded; a change made by a connection that
\* lacks a class leaves what it did not touch as it was (placeholders keep their state)
PresentClassesLoad == \A n \in Nodes : (stored[n].p /\ obs.view[n].broken) => Gone(kinds[n])
AllStoredLoad == \A n \in Nodes : stored[n].p => obs.view[n].loadable = "ok"
\* the same two, judged where the replay observes them
LoadedClassesArePresent == res.op = "LoadElsewhere" => PresentClassesLoad
LoadedAllLoad == res.op = "LoadElsewhere" => AllStoredLoad
TouchKeepsRecords == [][res'.op = "TouchElsewhere" => stored' = stored]_vars

BOK == /\ bconn.hgen <= bconn.gen /\ bconn.st \in {"none", "open", "closed"}
       /\ (bconn.st = "none" => bconn = B0)
       /\ (res.op = "LoadElsewhere" => bconn.st = "open" /\ bconn.hgen = bconn.gen /\ (res.fresh => ~res.same))
\* held objects stay valid unless a reset cache generation intervened
SameUnlessReset == [][(res'.op = "LoadElsewhere" /\ bconn.hgen >= 0) => (res'.same <=> bconn'.gen = bconn.hgen)]_vars

View == <<kinds, cand, mem, hasOid, added, dirty, stored, packed, touched, txn, stale, ops, commits, bconn, res>>
=============================================================================
