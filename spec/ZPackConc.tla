---------------------------- MODULE ZPackConc ----------------------------
(* FileStorage pack protocol (fspack.FileStoragePacker.pack / copyRest / copyOne lock hand-over, FileStorage.pack
   swap under the write lock) with a concurrent committer, a failing pack, and crashes.
   Transactions at or before the pack time are abstracted to one token "old"; the packed file starts with "oldp". *)
EXTENDS Naturals, Sequences, FiniteSets, TLC
CONSTANTS MaxCommits, RenameGap      \* RenameGap = TRUE: data->.old then .pack->data as two steps (the code as it is)
VARIABLES data,      \* content of Data.fs: sequence of tokens, or "missing"
          packf,     \* content of Data.fs.pack or "missing"
          oldf,      \* content of Data.fs.old or "missing"
          pos,       \* number of committed tokens the storage has published (in-memory)
          lock,      \* commit lock holder: "none" | "C" | "P"
          cpc,       \* committer: "idle" | "begun" | "voted"
          ppc,       \* packer: "idle" | "copy1" | "wantlock" | "locked" | "copying" | "swap1" | "swap2" | "done" | "failed"
          ipos,      \* packer's read position in the original file (number of tokens consumed)
          acked,     \* sequence of tokens whose commit has returned
          n, crashed
vars == <<data, packf, oldf, pos, lock, cpc, ppc, ipos, acked, n, crashed>>
Missing == <<98>>
OLD == 0
OLDP == 50
CTOK == 99
Init == /\ data = <<OLD>> /\ packf = Missing /\ oldf = Missing /\ pos = 1 /\ lock = "none"
        /\ cpc = "idle" /\ ppc = "idle" /\ ipos = 0 /\ acked = <<>> /\ n = 0 /\ crashed = FALSE
Alive == ~crashed
\* ---- committer ----
CBegin == /\ Alive /\ cpc = "idle" /\ lock = "none" /\ n < MaxCommits /\ lock' = "C" /\ cpc' = "begun"
          /\ UNCHANGED <<data, packf, oldf, pos, ppc, ipos, acked, n, crashed>>
CVote == /\ Alive /\ cpc = "begun" /\ data' = Append(SubSeq(data, 1, pos), CTOK) /\ cpc' = "voted"   \* written beyond pos with status 'c'
         /\ UNCHANGED <<packf, oldf, pos, lock, ppc, ipos, acked, n, crashed>>
\* finish: needs the write lock/storage lock, which the swap also holds => not during swap1/swap2
CFinish == /\ Alive /\ cpc = "voted" /\ ppc \notin {"swap1", "swap2"}
           /\ data' = [data EXCEPT ![pos + 1] = n + 1] /\ pos' = pos + 1 /\ n' = n + 1
           /\ acked' = Append(acked, n + 1) /\ lock' = "none" /\ cpc' = "idle"
           /\ UNCHANGED <<packf, oldf, ppc, ipos, crashed>>
CAbort == /\ Alive /\ cpc \in {"begun", "voted"} /\ data' = SubSeq(data, 1, pos) /\ lock' = "none" /\ cpc' = "idle"
          /\ UNCHANGED <<packf, oldf, pos, ppc, ipos, acked, n, crashed>>
\* ---- packer ----
PStart == /\ Alive /\ ppc = "idle" /\ ppc' = "copy1" /\ oldf' = Missing       \* removes a previous .old, opens own handle
          /\ UNCHANGED <<data, packf, pos, lock, cpc, ipos, acked, n, crashed>>
PCopy1 == /\ Alive /\ ppc = "copy1" /\ packf' = <<OLDP>> /\ ipos' = 1 /\ ppc' = "wantlock"   \* copyToPacktime, no locks
          /\ UNCHANGED <<data, oldf, pos, lock, cpc, acked, n, crashed>>
PLock == /\ Alive /\ ppc = "wantlock" /\ lock = "none" /\ lock' = "P" /\ ppc' = "locked"
         /\ UNCHANGED <<data, packf, oldf, pos, cpc, ipos, acked, n, crashed>>
\* copyOne: with the lock, look for a transaction at ipos; none => go and swap; else release the lock and copy it
PLook == /\ Alive /\ ppc = "locked"
         /\ IF ipos < pos THEN lock' = "none" /\ ppc' = "copying" ELSE ppc' = "swap1" /\ UNCHANGED lock
         /\ UNCHANGED <<data, packf, oldf, pos, cpc, ipos, acked, n, crashed>>
PCopyOne == /\ Alive /\ ppc = "copying" /\ packf' = Append(packf, data[ipos + 1]) /\ ipos' = ipos + 1 /\ ppc' = "wantlock"
            /\ UNCHANGED <<data, oldf, pos, lock, cpc, acked, n, crashed>>
PSwap1 == /\ Alive /\ ppc = "swap1"
          /\ IF RenameGap THEN oldf' = data /\ data' = Missing /\ ppc' = "swap2" /\ UNCHANGED packf
             ELSE oldf' = data /\ data' = packf /\ packf' = Missing /\ ppc' = "done"      \* link + atomic replace
          /\ (IF RenameGap THEN UNCHANGED <<pos, lock>> ELSE pos' = Len(packf) /\ lock' = "none")
          /\ UNCHANGED <<cpc, ipos, acked, n, crashed>>
PSwap2 == /\ Alive /\ ppc = "swap2" /\ data' = packf /\ packf' = Missing /\ pos' = Len(packf) /\ lock' = "none" /\ ppc' = "done"
          /\ UNCHANGED <<oldf, cpc, ipos, acked, n, crashed>>
\* ---- crash and reopen ----
Crash == /\ Alive /\ crashed' = TRUE /\ UNCHANGED <<data, packf, oldf, pos, lock, cpc, ppc, ipos, acked, n>>
\* a pack that cannot complete (I/O error, PackError, failed assertion): .pack is removed, the commit lock is
\* released if the packer holds it, the database is untouched
PFail == /\ Alive /\ ppc \in {"copy1", "wantlock", "locked", "copying"}
         /\ packf' = Missing /\ ppc' = "failed" /\ lock' = (IF lock = "P" THEN "none" ELSE lock)
         /\ UNCHANGED <<data, oldf, pos, cpc, ipos, acked, n, crashed>>
Next == CBegin \/ CVote \/ CFinish \/ CAbort \/ PStart \/ PCopy1 \/ PLock \/ PLook \/ PCopyOne \/ PSwap1 \/ PSwap2 \/ PFail \/ Crash
\* what a reopen finds: FileStorage(name) creates an empty file when the name is missing; read_index cuts a 'c' tail
Committed(f) == SelectSeq(f, LAMBDA x : x # CTOK)
Reopened == IF data = Missing THEN <<>> ELSE Committed(data)
IsNum(x) == x \notin {OLD, OLDP, CTOK, 98}
\* C08: after a stop at any instant the database reopens to the unpacked or the packed state incl. every acked commit
CrashSafe == crashed => /\ Len(Reopened) >= 1 /\ Reopened[1] \in {OLD, OLDP}
                        /\ SelectSeq(Reopened, IsNum) = acked \/ (\E k \in 1..1 : SelectSeq(Reopened, IsNum) = Append(acked, n + 1))
\* a failed or finished pack never keeps the commit lock; a failed pack leaves the file as it was (plus commits)
PackerReleases == ppc \in {"failed", "done", "idle", "copy1", "copying"} => lock # "P"
FailedPackUnchanged == (Alive /\ ppc = "failed") => (data[1] = OLD /\ SelectSeq(SubSeq(data, 1, pos), IsNum) = acked)
\* while running: the live file always holds every acked commit, in order
NoCommitLost == (Alive /\ data # Missing) => SelectSeq(SubSeq(data, 1, pos), IsNum) = acked
=============================================================================
