------------------------------ MODULE ZScript ------------------------------
(***************************************************************************)
(* Scripted behaviours of ZStorage: the harness enumerates families of     *)
(* macro-operation sequences (directed scenarios), TLC evaluates each of   *)
(* them with the actions of the specification and so supplies the expected *)
(* state after every call.  A script is a sequence of records              *)
(*   [a |-> action, ...]; serials and tids are given symbolically          *)
(*   (s = -1: the current serial of the oid, s = -2-k: the serial of the   *)
(*   k-th committed transaction; undo/k: the k-th committed transaction).  *)
(* Scripts is defined by the generated module MCScripts.                   *)
(***************************************************************************)
EXTENDS MCZStorage
CONSTANT Scripts
VARIABLES sid, pc, act      \* act: the concrete call just made (symbolic serials resolved)
svars == <<vars, sid, pc, act>>
C1 == CHOOSE c \in Client : TRUE
E == Scripts[sid][pc]
More == pc <= Len(Scripts[sid])
Ser(o, s) == IF s = -1 THEN CurTid(hist, o)
             ELSE IF s <= -2 THEN (IF -s - 1 <= Len(hist) THEN hist[-s - 1].tid ELSE 0) ELSE s
KTid(k) == IF k >= 1 /\ k <= Len(hist) THEN hist[k].tid
           ELSE IF k <= -1 /\ Len(hist) + k + 1 >= 1 THEN hist[Len(hist) + k + 1].tid ELSE 0
Adv == pc' = pc + 1 /\ sid' = sid

SInit == Init /\ sid \in 1..Len(Scripts) /\ pc = 1 /\ act = [a |-> "init"]
SBegin == More /\ E.a = "begin" /\ Begin(C1, E.m, E.clk) /\ Adv /\ act' = E
SStore == More /\ E.a = "store" /\ Store(C1, E.o, Ser(E.o, E.s), E.d) /\ Adv /\ act' = [E EXCEPT !.s = Ser(E.o, E.s)]
SCheck == More /\ E.a = "check" /\ CheckCurrent(C1, E.o, Ser(E.o, E.s)) /\ Adv /\ act' = [E EXCEPT !.s = Ser(E.o, E.s)]
SDelete == More /\ E.a = "delete" /\ Delete(C1, E.o, Ser(E.o, E.s)) /\ Adv /\ act' = [E EXCEPT !.s = Ser(E.o, E.s)]
SUndo == More /\ E.a = "undo" /\ (Undo(C1, KTid(E.k)) \/ UndoUnknown(C1, KTid(E.k))) /\ Adv /\ act' = [E EXCEPT !.k = KTid(E.k)]
SVote == More /\ E.a = "vote" /\ Vote(C1) /\ Adv /\ act' = E
SFinish == More /\ E.a = "finish" /\ Finish(C1) /\ Adv /\ act' = E
SAbort == More /\ E.a = "abort" /\ Abort(C1) /\ Adv /\ act' = E
\* (the verdict of the C07 relation on this pack step is recorded with the call: a script is a single behaviour, and
\* a property violation would end the evaluation of all the other scripts of the run)
SPack == More /\ E.a = "pack" /\ Pack(E.sec, E.gc) /\ Adv
         /\ act' = [a |-> "pack", sec |-> E.sec, gc |-> E.gc,
                    packok |-> (res'.out = "ok" => PackOK(hist, hist', res'.T)),
                    clauses |-> IF res'.out # "ok" THEN <<TRUE, TRUE, TRUE, TRUE>>
                                ELSE <<PackSnapshotsSame(hist, hist', res'.T), PackTailSame(hist, hist', res'.T),
                                       PackInventsNothing(hist, hist', res'.T), PackRemovesOnlyAllowed(hist, hist', res'.T)>>]
SReopen == More /\ E.a = "reopen" /\ CloseReopen /\ Adv /\ act' = E
SNewOid == More /\ E.a = "newoid" /\ NewOid /\ Adv /\ act' = E
\* after a call of the transaction failed (an undo that raises, a conflict) the caller aborts: the rest of that
\* transaction's entries, up to and including its finish, is skipped (the generator of a script cannot know which
\* calls will fail)
AfterFinish == LET J == {j \in pc..Len(Scripts[sid]) : Scripts[sid][j].a = "finish"}
               IN IF J = {} THEN Len(Scripts[sid]) + 1 ELSE (CHOOSE j \in J : \A k \in J : j <= k) + 1
SRecover == More /\ txn # NoTxn /\ txn.phase = "failed" /\ E.a # "abort" /\ Abort(C1)
            /\ pc' = AfterFinish /\ sid' = sid /\ act' = [a |-> "abort"]
SNext == SRecover \/ SBegin \/ SStore \/ SCheck \/ SDelete \/ SUndo \/ SVote \/ SFinish \/ SAbort \/ SPack \/ SReopen \/ SNewOid
=============================================================================
