------------------------------ MODULE MCZBlob ------------------------------
(* Model-checking companion of ZBlob: state constraints used by the exhaustive configurations. *)
EXTENDS ZBlob
\* bound the length of the chains that do not change the blob directory
FewLeaks == Len(leak) <= 1
=============================================================================
