------------------------------ MODULE MCZBlob ------------------------------
(***************************************************************************)
(* Model-checking companion of ZBlob: the relations of the exhaustive      *)
(* configurations.  The full relation Next over-approximates both; they    *)
(* split it so that each finishes within the quick tier:                   *)
(*   NextTxn   everything one transaction of c1 can do - every Blob call,  *)
(*             savepoints and rollbacks, every abort point, a racing       *)
(*             second writer                                               *)
(*   NextHist  histories - commit, second writer, undo / redo incl. of a   *)
(*             creation, abort at every phase, pack at every committed tid *)
(*             - with the smallest edits (create, rewrite, change P)       *)
(***************************************************************************)
EXTENDS ZBlob
A1 == CHOOSE x \in Atoms : TRUE
CreateBlobM(b) == FewEdits /\ CreateBlob(b, <<A1>>)
RewriteM(b) == FewEdits /\ Rewrite(b, A1)
EditMin == \/ \E b \in Blobs : CreateBlobM(b)
           \/ \E b \in Blobs : RewriteM(b)
           \/ \E b \in Blobs : ConsumeFailQ(b)
           \/ \E v \in PVals : ModifyPQ(v)
PackAtTid(T) == T \in TidsOf(hist) /\ Pack(T)
NextTxn == EditQ \/ Sp \/ AbortTxn \/ Tpc \/ AbortPath \/ OtherQ \/ WrongSome \/ Handles \/ Other
NextHist == EditMin \/ Links \/ Tpc \/ AbortPath \/ Other \/ UndoAll \/ (\E T \in 1..MaxTid : PackAtTid(T))
NextHistNoPack == EditMin \/ Tpc \/ AbortPath \/ Other \/ UndoAll
\* unlinking / relinking blobs, commits, packs at every committed tid
NextLink == EditMin \/ Links \/ TpcBegin \/ StoreOK \/ Vote \/ Finish \/ (\E T \in 1..MaxTid : PackAtTid(T))
\* foreign calls at every phase, the second writer's late bookkeeping at every point of a commit of c1, a failing
\* blob copy in undo - with the smallest edits
NextRace == EditMin \/ Tpc \/ AbortPath \/ UndoAll \/ WrongSome \/ Race \/ StoreFault \/ PackDuringSome \/ Other
=============================================================================
