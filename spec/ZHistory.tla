------------------------------ MODULE ZHistory ------------------------------
(***************************************************************************)
(* What a ZODB storage *means*: pure operators over a committed history.   *)
(*                                                                         *)
(* A history is a sequence of transactions in commit order                 *)
(*   [tid, status, meta, recs]                                             *)
(* and a transaction's records are a sequence (a FileStorage transaction   *)
(* can hold several records for one oid: the last one wins, exactly as the *)
(* index built by the code makes it).  A record is                         *)
(*   [oid, op \in {"data","back","zero"}, d, back, base, res]              *)
(*   data: carries a datum d = [v, refs]                                   *)
(*   back: a back-pointer to the (last) record for oid in transaction      *)
(*         `back` (undo by copying a pointer, restore with prev_txn)       *)
(*   zero: the object's creation was undone / the object was deleted       *)
(* base and res are ghost fields: the serial the writer supplied and       *)
(* whether the stored datum came out of conflict resolution.               *)
(*                                                                         *)
(* Oids and tids are naturals (Root = 0).  Values are tuples so that all   *)
(* values are comparable in TLC: <<"v1">> is atomic, <<"M", o, c, n>> is   *)
(* the uninterpreted three-way merge of o (old), c (committed), n (new).   *)
(***************************************************************************)
EXTENDS Naturals, Integers, Sequences, FiniteSets, TLC

NoD  == [v |-> <<"-">>, refs |-> {}]       \* datum slot of a back/zero record
Gone == [v |-> <<"gone">>, refs |-> {}]    \* what a chain ending in "zero" (or dangling) resolves to

MaxS(S) == CHOOSE x \in S : \A y \in S : y <= x
MinS(S) == CHOOSE x \in S : \A y \in S : x <= y

MergeD(old, cur, new) == [v |-> <<"M", old.v, cur.v, new.v>>,
                          refs |-> old.refs \cup cur.refs \cup new.refs]

\* index of the last record for oid o in transaction T (0: T does not write o)
LastRec(T, o) == LET J == {j \in 1..Len(T.recs) : T.recs[j].oid = o}
                 IN IF J = {} THEN 0 ELSE MaxS(J)
Writes(H, i, o) == LastRec(H[i], o) # 0
Idx(H, o) == {i \in 1..Len(H) : Writes(H, i, o)}
RecOf(H, i, o) == H[i].recs[LastRec(H[i], o)]
TidPos(H, t) == IF \E i \in 1..Len(H) : H[i].tid = t
                THEN CHOOSE i \in 1..Len(H) : H[i].tid = t ELSE 0
TidsOf(H) == {H[i].tid : i \in 1..Len(H)}
LastTid(H) == IF H = <<>> THEN 0 ELSE H[Len(H)].tid
OidsOf(H) == UNION {{H[i].recs[j].oid : j \in 1..Len(H[i].recs)} : i \in 1..Len(H)}

\* resolve a record to the datum a load returns (following back-pointers)
RECURSIVE DataOfRec(_, _)
DataOfRec(H, r) ==
  IF r.op = "data" THEN r.d
  ELSE IF r.op = "zero" THEN Gone
  ELSE LET p == TidPos(H, r.back)
       IN IF p = 0 \/ ~Writes(H, p, r.oid) THEN Gone ELSE DataOfRec(H, RecOf(H, p, r.oid))
DataAt(H, i, o) == DataOfRec(H, RecOf(H, i, o))

CurPos(H, o) == IF Idx(H, o) = {} THEN 0 ELSE MaxS(Idx(H, o))
CurTid(H, o) == IF CurPos(H, o) = 0 THEN 0 ELSE H[CurPos(H, o)].tid
PrevPos(H, i, o) == LET B == {k \in Idx(H, o) : k < i} IN IF B = {} THEN 0 ELSE MaxS(B)

(* ---- queries; every answer is a record with a kind field k ---- *)
KeyErr == [k |-> "keyerr"]
NoneR  == [k |-> "none"]
Rev(d, s, e) == [k |-> "rev", d |-> d, serial |-> s, end |-> e]

\* loadBefore(oid, t): newest revision strictly before t
LoadBefore(H, o, t) ==
  IF Idx(H, o) = {} THEN KeyErr
  ELSE LET B == {i \in Idx(H, o) : H[i].tid < t} IN
       IF B = {} THEN NoneR
       ELSE LET i == MaxS(B)
                A == {j \in Idx(H, o) : j > i}
                d == DataAt(H, i, o)
            IN IF d = Gone THEN KeyErr
               ELSE Rev(d, H[i].tid, IF A = {} THEN 0 ELSE H[MinS(A)].tid)
\* load(oid): current revision
Load(H, o) == IF Idx(H, o) = {} THEN KeyErr
              ELSE LET d == DataAt(H, CurPos(H, o), o)
                   IN IF d = Gone THEN KeyErr ELSE Rev(d, CurTid(H, o), 0)
\* loadSerial(oid, s)
LoadSerial(H, o, s) ==
  LET p == TidPos(H, s) IN
  IF p = 0 \/ ~Writes(H, p, o) THEN KeyErr
  ELSE LET d == DataAt(H, p, o) IN IF d = Gone THEN KeyErr ELSE Rev(d, s, 0)
\* history(oid, n): tids of the revisions, newest first
RECURSIVE RevTids(_, _, _)
RevTids(H, o, i) == IF i = 0 THEN <<>> ELSE <<H[i].tid>> \o RevTids(H, o, PrevPos(H, i, o))
HistoryOf(H, o) == RevTids(H, o, CurPos(H, o))

\* tid boundaries worth asking about
Bounds(H) == {0, 1} \cup UNION {{t - 1, t, t + 1} : t \in TidsOf(H)}

\* what the transaction iterator reports
IterRec(H, r) == [oid |-> r.oid,
                  d |-> DataOfRec(H, r),
                  dtxn |-> IF r.op = "back" THEN r.back ELSE 0]
IterView(H) == [i \in 1..Len(H) |->
                  [tid |-> H[i].tid, status |-> H[i].status, meta |-> H[i].meta,
                   recs |-> [j \in 1..Len(H[i].recs) |-> IterRec(H, H[i].recs[j])]]]

\* undoLog(0, big): newest first, stops at the first packed transaction
RECURSIVE UndoLogFrom(_, _)
UndoLogFrom(H, i) == IF i = 0 \/ H[i].status = "p" THEN <<>>
                     ELSE <<H[i].tid>> \o UndoLogFrom(H, i - 1)
UndoLog(H) == UndoLogFrom(H, Len(H))

\* lastInvalidations(n): the last n transactions, oldest first, each with the oids of its records
LastInv(H, n) == LET k == IF n < Len(H) THEN n ELSE Len(H)
                 IN [i \in 1..k |-> [tid |-> H[Len(H) - k + i].tid,
                                      oids |-> [j \in 1..Len(H[Len(H) - k + i].recs) |-> H[Len(H) - k + i].recs[j].oid]]]
\* record_iternext(oid): current record of the oid and the next oid of the index (-1: none)
RecordIter(H) == [o \in OidsOf(H) |->
                    LET l == Load(H, o)
                        N == {x \in OidsOf(H) : x > o}
                    IN IF l.k # "rev" THEN KeyErr
                       ELSE [k |-> "rev", d |-> l.d, serial |-> l.serial, next |-> IF N = {} THEN -1 ELSE MinS(N)]]

\* iterator(start) / iterator(None, stop): the tids listed (both bounds inclusive)
TidSeq(H) == [i \in 1..Len(H) |-> H[i].tid]
IterFrom(H, s) == SelectSeq(TidSeq(H), LAMBDA t : t >= s)
IterTo(H, e)   == SelectSeq(TidSeq(H), LAMBDA t : t <= e)
\* undoLog(first, last, filter): entries first .. last-1 (0-based, newest first) of the undoable transactions that pass
\* the filter; a negative last means "at most -last entries".  The scan stops at the first packed transaction whether
\* or not it passes the filter.  m = "" : no filter; otherwise only transactions whose meta is m.
RECURSIVE UndoLogFiltered(_, _, _)
UndoLogFiltered(H, i, m) == IF i = 0 \/ H[i].status = "p" THEN <<>>
                            ELSE (IF m = "" \/ H[i].meta = m THEN <<H[i].tid>> ELSE <<>>) \o UndoLogFiltered(H, i - 1, m)
UndoWindows == {<<0, 1>>, <<1, 2>>, <<1, 3>>, <<0, -2>>, <<1, -1>>, <<2, -20>>}
UndoLogWin(H, f, l, m) == LET U == UndoLogFiltered(H, Len(H), m)
                              last == IF l < 0 THEN f - l ELSE l
                              hi == IF last < Len(U) THEN last ELSE Len(U)
                          IN IF f + 1 > hi THEN <<>> ELSE SubSeq(U, f + 1, hi)

ObsTable(H, Oids) ==
  [lb   |-> [o \in Oids |-> [t \in Bounds(H) |-> LoadBefore(H, o, t)]],
   cur  |-> [o \in Oids |-> Load(H, o)],
   ser  |-> [o \in Oids |-> [t \in TidsOf(H) |-> LoadSerial(H, o, t)]],
   revs |-> [o \in Oids |-> HistoryOf(H, o)],
   iter |-> IterView(H),
   ulog |-> UndoLog(H),
   ulw  |-> [w \in UndoWindows |-> [m \in {"", "m0"} |-> UndoLogWin(H, w[1], w[2], m)]],
   itf  |-> [t \in Bounds(H) |-> IterFrom(H, t)],
   itt  |-> [t \in Bounds(H) |-> IterTo(H, t)],
   linv |-> [n \in {1, 2, 99} |-> LastInv(H, n)],
   riter |-> RecordIter(H),
   last |-> LastTid(H),
   len  |-> Cardinality(OidsOf(H))]

(* ---- reachability (for pack) ---- *)
RefsAt(H, o, t) == LET r == LoadBefore(H, o, t) IN IF r.k = "rev" THEN r.d.refs ELSE {}
RECURSIVE Closure(_, _, _)
Closure(H, t, S) == LET N == S \cup UNION {RefsAt(H, o, t) : o \in S}
                    IN IF N = S THEN S ELSE Closure(H, t, N)
ReachableAt(H, t, root) == Closure(H, t, {root})
=============================================================================
