------------------------------ MODULE ZPackOps ------------------------------
(***************************************************************************)
(* Packing at the level of histories.                                      *)
(*  - PackOK(H, H2, T): the C07 relation (what a pack may and may not do)  *)
(*  - FilePack(H, T, gc): transcription of FileStorage's packer            *)
(*      (fspack.GC.buildPackIndex / findReachableAtPacktime /              *)
(*       findReachableFromFuture, FileStoragePacker.copyToPacktime /       *)
(*       copyDataRecords / copyRest / copyOne, PackCopier.copy)            *)
(*  - MappingPack(H, T, gc): transcription of MappingStorage.pack          *)
(* Record positions are integers i * 100 + j (transaction i, record j).    *)
(***************************************************************************)
EXTENDS ZHistory

Root == 0
PosOf(i, j) == i * 100 + j
PI(p) == p \div 100
PJ(p) == p % 100
RecP(H, p) == H[PI(p)].recs[PJ(p)]

Before(H, T) == {i \in 1..Len(H) : H[i].tid <= T}
After(H, T) == {i \in 1..Len(H) : H[i].tid > T}
PosIn(H, I) == UNION {{PosOf(i, j) : j \in 1..Len(H[i].recs)} : i \in I}

(* ------------------------- the C07 relation ---------------------------- *)
\* snapshots at or after the pack time T: loadBefore bounds t > T
SnapBounds(H, T) == {t \in Bounds(H) \cup {T + 1} : t > T}
ReachableFrom(H, T) == UNION {ReachableAt(H, t, Root) : t \in SnapBounds(H, T)}
\* revisions that carry a state (a "zero" record is a deletion marker, not a revision)
\* (nor is a back pointer that resolves to one: the undo of a deletion of an already deleted object)
RevsOf(H) == UNION {{<<o, H[i].tid>> : o \in {o \in OidsOf(H) : Writes(H, i, o) /\ RecOf(H, i, o).op # "zero"
                                                                   /\ DataAt(H, i, o) # Gone}} : i \in 1..Len(H)}
SupersededAt(H, T, o, t) == \E i \in Idx(H, o) : H[i].tid > t /\ H[i].tid <= T
StripDtxn(v) == [i \in 1..Len(v) |-> [tid |-> v[i].tid, status |-> v[i].status, meta |-> v[i].meta,
                                      recs |-> [j \in 1..Len(v[i].recs) |-> [oid |-> v[i].recs[j].oid, d |-> v[i].recs[j].d]]]]
TailFrom(H, T) == SelectSeq(StripDtxn(IterView(H)), LAMBDA x : x.tid > T)

\* written = given a state (a deletion marker does not count as a write of the object)
WrittenAfter(H, T, o) == \E i \in Idx(H, o) : H[i].tid > T /\ RecOf(H, i, o).op # "zero"
\* Interpretation (DESIGN.md, notes on C07): what is observable in a snapshot t >= T is what is reachable
\* from the root at t.  The first sentence of the property lets a pack remove an object that was
\* unreachable at T and is not written afterwards - even if a later transaction links it again - so such
\* objects are not required to load.
\* an object that loads in a snapshot >= T must load identically afterwards (where the unpacked database had
\* no such object - a deleted or un-created object, only "observable" through a dangling reference - the
\* property does not constrain the answer; DESIGN.md notes on C07)
SameAnswer(new, orig) == orig.k = "rev" => new = orig
\* every object that loads in a snapshot >= T, and is reachable there, loads identically (if protected)
PackSnapshotsSame(H, H2, T) ==
  \A t \in SnapBounds(H, T) : \A o \in ReachableAt(H, t, Root) :
        (o \in ReachableAt(H, T + 1, Root) \/ WrittenAfter(H, T, o)) => SameAnswer(LoadBefore(H2, o, t), LoadBefore(H, o, t))
\* every transaction after T is still listed with the same records and data
PackTailSame(H, H2, T) == TailFrom(H2, T) = TailFrom(H, T)
\* nothing is invented
PackInventsNothing(H, H2, T) == RevsOf(H2) \subseteq RevsOf(H)
\* only revisions superseded at T, or of objects unreachable at T, are removed
PackRemovesOnlyAllowed(H, H2, T) ==
  \A r \in RevsOf(H) \ RevsOf(H2) :
        r[2] <= T /\ (SupersededAt(H, T, r[1], r[2]) \/ r[1] \notin ReachableAt(H, T + 1, Root))
PackOK(H, H2, T) == PackSnapshotsSame(H, H2, T) /\ PackTailSame(H, H2, T) /\ PackInventsNothing(H, H2, T)
                    /\ PackRemovesOnlyAllowed(H, H2, T)

(* ---------------------- FileStorage packer ------------------------------ *)
\* buildPackIndex: oid -> position of its record current at the pack time (a zero record removes the oid)
CurAtPack(H, T, o) ==
  LET P == {p \in PosIn(H, Before(H, T)) : RecP(H, p).oid = o}
  IN IF P = {} THEN 0 ELSE IF RecP(H, MaxS(P)).op = "zero" THEN 0 ELSE MaxS(P)
Oid2Cur(H, T) == {o \in OidsOf(H) : CurAtPack(H, T, o) # 0}
FindRefs(H, p) == DataOfRec(H, RecP(H, p)).refs

\* findReachableAtPacktime(roots): closure; an oid without a current record raises KeyError
RECURSIVE ClosureP(_, _, _)
ClosureP(H, T, S) ==
  LET N == S \cup UNION {IF CurAtPack(H, T, o) = 0 THEN {} ELSE FindRefs(H, CurAtPack(H, T, o)) : o \in S}
  IN IF N = S THEN S ELSE ClosureP(H, T, N)
Missing(H, T, S) == {o \in S : CurAtPack(H, T, o) = 0}
\* the second traversal (from the extra roots) does not expand oids that are already marked
RECURSIVE ClosureStop(_, _, _, _)
ClosureStop(H, T, S, Stop) ==
  LET N == S \cup UNION {IF CurAtPack(H, T, o) = 0 THEN {} ELSE FindRefs(H, CurAtPack(H, T, o)) : o \in S \ Stop}
  IN IF N = S THEN S ELSE ClosureStop(H, T, N, Stop)

\* findReachableFromFuture: records after the pack position whose back-pointer crosses it
BackPosOf(H, r) == LET i == TidPos(H, r.back)
                   IN IF r.op # "back" \/ i = 0 \/ ~Writes(H, i, r.oid) THEN 0 ELSE PosOf(i, LastRec(H[i], r.oid))
RECURSIVE FutureFold(_, _, _, _, _)
\* ps: sequence of future positions still to scan; reach: set of oids reachable; ex: set of extra positions kept
FutureFold(H, T, ps, reach, st) ==
  IF ps = <<>> THEN st
  ELSE LET r == RecP(H, Head(ps))
           b == BackPosOf(H, r)
           crosses == b # 0 /\ PI(b) \in Before(H, T)
       IN IF ~crosses THEN FutureFold(H, T, Tail(ps), reach, st)
          ELSE IF r.oid \in reach \/ r.oid \in DOMAIN st.only
               THEN FutureFold(H, T, Tail(ps), reach, [st EXCEPT !.ex = @ \cup {b}])
               ELSE FutureFold(H, T, Tail(ps), reach,
                               [st EXCEPT !.only = [x \in DOMAIN @ \cup {r.oid} |-> IF x = r.oid THEN b ELSE @[x]]])

RECURSIVE SeqOfSet(_)
SeqOfSet(S) == IF S = {} THEN <<>> ELSE <<MinS(S)>> \o SeqOfSet(S \ {MinS(S)})

FilePack(H, T, gc) ==
  LET B == Before(H, T)
      A == After(H, T)
      unpacked == \E i \in B : H[i].status # "p"
      probe == IF A # {} THEN H[MinS(A)].status ELSE IF B # {} THEN H[MaxS(B)].status ELSE " "
      redundant == ~unpacked /\ probe = "p"
      cur == Oid2Cur(H, T)
      \* --- reachability ---
      R0 == IF gc THEN ClosureP(H, T, {Root}) ELSE cur
      miss0 == IF gc THEN Missing(H, T, R0) ELSE {}
      rootSpecial == miss0 = {Root} /\ cur = {}
      reach == R0 \ miss0
      fut == IF gc /\ (miss0 = {} \/ rootSpecial)
             THEN FutureFold(H, T, SeqOfSet(PosIn(H, A)), reach, [ex |-> {}, only |-> <<>>])
             ELSE [ex |-> {}, only |-> <<>>]
      marked == reach \cup DOMAIN fut.only
      newly == IF gc THEN ClosureStop(H, T, UNION {FindRefs(H, p) : p \in fut.ex}, marked) \ marked ELSE {}
      miss1 == Missing(H, T, newly)
      keyerr == gc /\ ((miss0 # {} /\ ~rootSpecial) \/ miss1 # {})
      reachFinal == reach \cup (newly \ miss1)
      Kept(p) == LET o == RecP(H, p).oid IN
                   \/ (o \in reachFinal /\ CurAtPack(H, T, o) = p)
                   \/ p \in fut.ex
                   \/ (o \in DOMAIN fut.only /\ o \notin reachFinal /\ fut.only[o] = p)
      keptRecs(i) == SelectSeq([j \in 1..Len(H[i].recs) |-> [p |-> PosOf(i, j), r |-> H[i].recs[j]]],
                               LAMBDA x : Kept(x.p))
      Conv(r) == LET d == DataOfRec(H, r)
                 IN IF d = Gone THEN [oid |-> r.oid, op |-> "zero", d |-> NoD, back |-> 0, base |-> -1, res |-> FALSE]
                    ELSE [oid |-> r.oid, op |-> "data", d |-> d, back |-> 0, base |-> -1, res |-> FALSE]
      packedTxn(i) == [tid |-> H[i].tid, status |-> "p", meta |-> H[i].meta,
                       recs |-> [k \in 1..Len(keptRecs(i)) |-> Conv(keptRecs(i)[k].r)]]
      part1 == [k \in 1..Len(SeqOfSet({i \in B : keptRecs(i) # <<>>})) |->
                  packedTxn(SeqOfSet({i \in B : keptRecs(i) # <<>>})[k])]
      \* nothing freed: every transaction before the pack time is copied whole and unchanged in size
      freed == \E i \in B : \/ Len(keptRecs(i)) # Len(H[i].recs)
                              \/ H[i].recs = <<>>
                              \/ \E j \in 1..Len(H[i].recs) : H[i].recs[j].op = "back"
      \* copyRest: a back-pointer must find its target transaction and record in the new file
      keptTids == {H[i].tid : i \in {i \in B : keptRecs(i) # <<>>}} \cup {H[i].tid : i \in A}
      backBroken(r) == r.op = "back" /\ TidPos(H, r.back) \in B /\
                       (\/ r.back \notin keptTids
                        \/ ~Kept(BackPosOf(H, r)))
      packerr == \E p \in PosIn(H, A) : RecP(H, p).op = "back" /\ TidPos(H, RecP(H, p).back) \in B
                                          /\ RecP(H, p).back \notin keptTids
      asserr == \E p \in PosIn(H, A) : backBroken(RecP(H, p))
      part2 == [k \in 1..Cardinality(A) |-> H[SeqOfSet(A)[k]]]
  IN IF redundant THEN [out |-> "redundant", h |-> H]
     ELSE IF keyerr THEN [out |-> "KeyError", h |-> H]
     ELSE IF ~freed THEN [out |-> "nothing-freed", h |-> H]
     ELSE IF packerr THEN [out |-> "PackError", h |-> H]
     ELSE IF asserr THEN [out |-> "AssertionError", h |-> H]
     ELSE [out |-> "ok", h |-> part1 \o part2]

(* ---------------------- MappingStorage.pack ----------------------------- *)
\* step 1: per oid, drop all revisions <= T except the last of them; step 2 (gc): keep only objects reachable
\* from the root - or from an object written after T - through ANY remaining revision; transactions left without records disappear, touched ones
\* get status 'p'.  (A mapping transaction holds at most one record per oid, all of kind "data".)
MKeep1(H, T, o, t) == t > T \/ ~(\E i \in Idx(H, o) : H[i].tid > t /\ H[i].tid <= T)
RECURSIVE MClosure(_, _, _)
MClosure(H, K1, S) ==
  LET N == S \cup UNION {UNION {DataAt(H, i, o).refs : i \in {i \in Idx(H, o) : <<o, H[i].tid>> \in K1}} : o \in S}
  IN IF N = S THEN S ELSE MClosure(H, K1, N)
MappingPack(H, T, gc, lastPack) ==
  LET K1 == {r \in RevsOf(H) : MKeep1(H, T, r[1], r[2])}
      \* roots: the root object and every object written after the pack time
      live == IF gc THEN MClosure(H, K1, {Root} \cup {o \in OidsOf(H) : \E i \in Idx(H, o) : H[i].tid > T}) ELSE OidsOf(H)
      rootMissing == gc /\ Root \notin OidsOf(H)
      danglers == gc /\ \E o \in live : o \notin OidsOf(H)
      K2 == {r \in K1 : r[1] \in live}
      newRecs(i) == SelectSeq(H[i].recs, LAMBDA r : <<r.oid, H[i].tid>> \in K2)
      touched(i) == Len(newRecs(i)) # Len(H[i].recs)
      keepTxn == {i \in 1..Len(H) : newRecs(i) # <<>> \/ H[i].recs = <<>>}
      newTxn(i) == [tid |-> H[i].tid, status |-> IF touched(i) THEN "p" ELSE H[i].status, meta |-> H[i].meta,
                    recs |-> newRecs(i)]
  IN IF H = <<>> \/ OidsOf(H) = {} THEN [out |-> "empty", h |-> H]
     ELSE IF lastPack = T THEN [out |-> "same-time", h |-> H]
     ELSE IF lastPack > T THEN [out |-> "ValueError", h |-> H]
     ELSE IF rootMissing \/ danglers THEN [out |-> "KeyError", h |-> H]
     ELSE [out |-> "ok", h |-> [k \in 1..Cardinality(keepTxn) |-> newTxn(SeqOfSet(keepTxn)[k])]]
=============================================================================
