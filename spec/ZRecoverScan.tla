---------------------------- MODULE ZRecoverScan ----------------------------
(***************************************************************************)
(* Transcription of fsrecover.scan(f, pos) (C17 c).                        *)
(*                                                                         *)
(*     while 1:                                                            *)
(*         f.seek(pos); data = f.read(8096)                                *)
(*         if not data: return 0                                  ReadChunk*)
(*         s = 0                                                           *)
(*         while 1:                                                  Find  *)
(*             l = data.find(b".", s)                                      *)
(*             if l < 0: pos += len(data); break                           *)
(*             s = l + 1                                                   *)
(*             if s > len(data) - 8: pos += l; break                       *)
(*             tl = u64(data[s:s + 8])                                     *)
(*             if tl < pos: return pos + s + 8                             *)
(*                                                                         *)
(* The file is given by its length n, a fill byte (0x00 or 0xff) and the   *)
(* positions that hold '.', which is all scan() looks at: the 8 bytes      *)
(* after a '.' decode to 0 in a zero-filled file unless they contain       *)
(* further dots (46 * 256^k for a dot k bytes from the end of the window), *)
(* and to something larger than any position in an 0xff-filled file.       *)
(* State = (pos, s) + control; CHUNK is the read size (8096 in the code,   *)
(* scaled down in some configurations: the binding then hands scan() a     *)
(* file object whose read returns at most CHUNK bytes), LOOK = 8.          *)
(* AsCode = TRUE is the code as it stands; FALSE adds the repair (a '.' at *)
(* the start of a chunk with fewer than 8 bytes behind it ends the scan).  *)
(***************************************************************************)
EXTENDS Naturals, Integers, FiniteSets, TLC
CONSTANTS Lens,      \* file lengths
          CHUNK, LOOK,
          Near,      \* dots are placed within Near of 0, of a multiple of CHUNK, of the end, and at Extra
          Extra,
          MaxDots,
          Fills,     \* subset of {"zero", "ff"}
          Starts,    \* start positions
          AsCode
VARIABLES n, fill, dots, start,      \* the input (constant along a behaviour)
          pos, s, phase, result
vars == <<n, fill, dots, start, pos, s, phase, result>>

BIG == 1073741824
Cand(len) == {p \in 0..(len - 1) : \/ p <= Near \/ p >= len - 1 - Near \/ p \in Extra
                                    \/ \E k \in 1..3 : (p >= k * CHUNK - Near /\ p <= k * CHUNK + Near)}
RECURSIVE UpTo(_, _)          \* the subsets of C with at most k elements
UpTo(C, k) == IF k = 0 THEN {{}} ELSE LET P == UpTo(C, k - 1) IN P \cup {D \cup {c} : D \in P, c \in C}
Init == /\ n \in Lens /\ fill \in Fills
        /\ dots \in UpTo(Cand(n), MaxDots)
        /\ start \in Starts /\ start <= n
        /\ pos = start /\ s = 0 /\ phase = "read" /\ result = -1

\* len(data) of f.seek(pos); f.read(CHUNK)
DataLen == IF n > pos THEN (IF n - pos < CHUNK THEN n - pos ELSE CHUNK) ELSE 0
\* u64 of the LOOK bytes at p (p + LOOK <= n), capped at BIG
Pow(k) == IF k = 0 THEN 1 ELSE IF k = 1 THEN 256 ELSE BIG
Val(p) == IF fill = "ff" THEN BIG
          ELSE LET W == {d \in dots : d >= p /\ d < p + LOOK}
               IN IF \E d \in W : p + LOOK - 1 - d >= 2 THEN BIG
                  ELSE (IF p + LOOK - 1 \in W THEN 46 ELSE 0) + (IF p + LOOK - 2 \in W THEN 46 * 256 ELSE 0)

ReadChunk ==
  /\ phase = "read"
  /\ IF DataLen = 0 THEN phase' = "done" /\ result' = 0 /\ UNCHANGED <<pos, s>>
     ELSE phase' = "find" /\ s' = 0 /\ UNCHANGED <<pos, result>>
  /\ UNCHANGED <<n, fill, dots, start>>

Find ==
  /\ phase = "find"
  /\ LET D == {d \in dots : d >= pos + s /\ d < pos + DataLen} IN
     IF D = {} THEN pos' = pos + DataLen /\ phase' = "read" /\ UNCHANGED <<s, result>>            \* l < 0
     ELSE LET l == (CHOOSE d \in D : \A e \in D : d <= e) - pos
              s2 == l + 1 IN
          IF s2 > DataLen - LOOK                                                                   \* need more data
          THEN IF ~AsCode /\ l = 0
               THEN phase' = "done" /\ result' = 0 /\ UNCHANGED <<pos, s>>                        \* (repair)
               ELSE pos' = pos + l /\ phase' = "read" /\ UNCHANGED <<s, result>>
          ELSE IF Val(pos + s2) < pos
               THEN phase' = "done" /\ result' = pos + s2 + LOOK /\ UNCHANGED <<pos, s>>
               ELSE s' = s2 /\ UNCHANGED <<pos, phase, result>>
  /\ UNCHANGED <<n, fill, dots, start>>

Next == ReadChunk \/ Find
Spec == Init /\ [][Next]_vars /\ WF_vars(Next)

\* C17: the recovery tool terminates
Terminates == <>(phase = "done")
\* what the tool's loop relies on (ZRecoverTool!Scan): the answer is "end of file" or a position further on
ScanForward == phase = "done" => (result = 0 \/ (result > start /\ result <= n))
\* the position returned follows a '.' and LOOK bytes that decode to less than the chunk position
ScanAfterDot == (phase = "done" /\ result > 0) => (result - LOOK - 1) \in dots
TypeOK == /\ phase \in {"read", "find", "done"} /\ pos >= start /\ pos <= n /\ s >= 0
=============================================================================
