---------------------------- MODULE ZRecoverTrace ----------------------------
(***************************************************************************)
(* Validation of recorded runs of the real fsrecover.recover against       *)
(* ZRecoverTool (code -> spec), a batch per TLC run.                       *)
(*                                                                         *)
(* The file named by the environment variable TRACE_FILE holds             *)
(*   files: the transaction extents of the undamaged data files            *)
(*   runs:  [f, size, lo, hi, ev]: file index, length and damaged byte     *)
(*          range of the input of that run, and the recorded events        *)
(*            open | die                                                   *)
(*            hdr p r q t   read_txn_header at p: r = ok | undone (next    *)
(*                          position q, id t) | eof | err                  *)
(*            scan p q      scan from p returned q (-1: did not return)    *)
(*            copy same whole  tpc_finish; same: the output transaction is *)
(*                          identical to the input transaction read;       *)
(*                          whole: it has as many records                  *)
(*            abort         tpc_abort                                      *)
(*            end | hang | crash   how recover() ended                     *)
(* Every event must be a step of ZRecoverTool (the action named by the     *)
(* event, with the recorded values, must be enabled); after the last event *)
(* the three clauses of the property are evaluated on the state reached.   *)
(* The verdict for run number tr is printed as <<"V", tr, v, at, why>>.    *)
(***************************************************************************)
EXTENDS ZRecoverTool, Json, IOUtils
VARIABLES tr, k, verdict
trvars == <<tvars, tr, k, verdict>>

Data == JsonDeserialize(IOEnv.TRACE_FILE)
Run(t) == Data.runs[t]
SeqToSet(sq) == {sq[i] : i \in 1..Len(sq)}
FileOf(t) == LET E == Data.files[Run(t).f] IN
  [ext |-> [i \in 1..Len(E) |-> [s |-> E[i].s, h |-> E[i].h, e |-> E[i].e,
                                 deps |-> {<<d[1], d[2]>> : d \in SeqToSet(E[i].deps)}, dtx |-> SeqToSet(E[i].dtx)]],
   size |-> Run(t).size, lo |-> Run(t).lo, hi |-> Run(t).hi]
Running == [v |-> "run", at |-> 0, why |-> "-"]

TrInit == /\ tr \in 1..Len(Data.runs)
          /\ F = FileOf(tr) /\ pos = MAGIC /\ ltid = 0 /\ out = <<>> /\ phase = "start" /\ cur = 0
          /\ k = 1 /\ verdict = Running

Ev == Run(tr).ev[k]
\* the step of ZRecoverTool that the event names, with the recorded values
Act(e) ==
  CASE e.k = "open"  -> Open
    [] e.k = "die"   -> NotAFileStorage
    [] e.k = "hdr" /\ e.r = "ok" ->
         /\ pos = e.p
         /\ \E i \in 1..NT(F) : /\ Ext(i).e = e.q
                                /\ (HeaderOk(i) \/ HeaderGarbled(i, e.t))
         /\ ltid' = e.t
    [] e.k = "hdr" /\ e.r = "undone" ->
         /\ pos = e.p
         /\ \E i \in 1..NT(F) : Ext(i).e = e.q /\ HeaderUndone(i, e.t)
    [] e.k = "hdr" /\ e.r = "eof" -> pos = e.p /\ HeaderEOF
    [] e.k = "hdr" /\ e.r = "err" -> pos = e.p /\ HeaderError
    [] e.k = "scan"  -> pos = e.p /\ e.q >= 0 /\ Scan(e.q)
    [] e.k = "copy"  -> CopyOk(e.same, e.whole)
    [] e.k = "abort" -> CopyFail
    [] e.k = "crash" -> Crash
    [] e.k \in {"end", "hang"} -> FALSE
    [] OTHER -> FALSE
Why(e) == IF e.k = "hdr" THEN "hdr-" \o e.r
          ELSE IF e.k = "scan" /\ e.q < 0 THEN "scan-hang"
          ELSE IF e.k = "scan" /\ e.q > 0 /\ e.q <= pos THEN "scan-backwards"
          ELSE IF e.k = "copy" THEN (IF e.same THEN "copy-same" ELSE IF e.whole THEN "copy-altered" ELSE "copy-cut")
          ELSE e.k

Step ==
  /\ verdict.v = "run" /\ k <= Len(Run(tr).ev) /\ Ev.k \notin {"end", "hang", "die"}
  /\ \/ Act(Ev) /\ k' = k + 1 /\ UNCHANGED <<tr, verdict>>
     \/ /\ ~ENABLED Act(Ev)
        /\ verdict' = [v |-> "reject", at |-> k, why |-> Why(Ev)]
        /\ UNCHANGED <<tvars, tr, k>>
\* recover() returned (or ended through die()): the loop must be over, and the property is judged
Final ==
  /\ verdict.v = "run" /\ k <= Len(Run(tr).ev) /\ Ev.k \in {"end", "die"}
  /\ LET ph == IF Ev.k = "die" THEN (IF ENABLED NotAFileStorage THEN "done" ELSE "not-die") ELSE phase
         why == IF ph # "done" THEN "ended-in-" \o ph
                ELSE IF ~(OnlyInput(out) /\ Ordered(out)) THEN "not-an-ordered-subsequence-of-the-input"
                ELSE IF ~WholeTransactions(out) THEN "transaction-emitted-without-all-its-records"
                ELSE IF ~UntouchedUnchanged(F, out) THEN "undamaged-transaction-altered"
                ELSE IF ~PrefixBeforeDamageRecovered(F, out) THEN "transaction-before-the-damage-lost"
                ELSE IF ~UndamagedIdentical(F, out) THEN "undamaged-file-not-identical"
                ELSE "-"
     IN verdict' = [v |-> IF why = "-" THEN "accept" ELSE "reject", at |-> k, why |-> why]
  /\ UNCHANGED <<tvars, tr, k>>
\* the run did not return
Hung ==
  /\ verdict.v = "run" /\ k <= Len(Run(tr).ev) /\ Ev.k = "hang"
  /\ verdict' = [v |-> "reject", at |-> k, why |-> "hang"]
  /\ UNCHANGED <<tvars, tr, k>>
Report ==
  /\ verdict.v \in {"accept", "reject"}
  /\ PrintT(<<"V", tr, verdict.v, verdict.at, verdict.why>>)
  /\ verdict' = [verdict EXCEPT !.v = "reported"]
  /\ UNCHANGED <<tvars, tr, k>>
TrNext == Step \/ Final \/ Hung \/ Report
=============================================================================
