------------------------------ MODULE ZFsIndex ------------------------------
(***************************************************************************)
(* The oid index of file storages (ZODB/fsIndex.py, class fsIndex).        *)
(*                                                                         *)
(* Two descriptions of the same object are kept side by side:              *)
(*                                                                         *)
(*   idx   the MEANING: a flat ordered map from 8-byte keys to positions.  *)
(*         A key <<p, s>> (6-byte prefix p, 2-byte suffix s) is ordered by *)
(*         the number p * NS + s, i.e. as the 8-byte string is.            *)
(*   data  a TRANSCRIPTION of the code's state: prefix -> bucket, bucket = *)
(*         suffix -> position, updated by transcriptions of __setitem__,   *)
(*         __delitem__, clear, update, save and load; every query of the   *)
(*         class (get, in, len, iteration, minKey/maxKey) is transcribed   *)
(*         over `data` with the case analysis of the code (prefix tree,    *)
(*         suffix bucket, prefix +/- 1).                                   *)
(*                                                                         *)
(* TLC compares them (Refines, QueriesAgree, BoundsAgree).  The constant   *)
(* AsCode selects the minKey/maxKey case analysis "as the code is"         *)
(* (TRUE) or repaired (FALSE); with TRUE, BoundsAgree has a counterexample *)
(* (finding F1).  Every action is one call on the real class; `res` is the *)
(* outcome of that call; Obs(idx, data) is the answer of every query in a  *)
(* state and is printed once per index content (ObsPrinted), so that a     *)
(* replay on the real fsIndex needs no second model.                       *)
(*                                                                         *)
(* Concretisation (zv/drivers/fsindex.py): model prefixes 0..NP-1 and      *)
(* suffixes 0..NS-1 are mapped order-preservingly to 6- and 2-byte         *)
(* strings, values 1..NV and positions 1..NPos to integers below 2^48.     *)
(* FirstIsZero / LastIsMax say that prefix 0 stands for 00 00 00 00 00 00  *)
(* and prefix NP-1 for ff ff ff ff ff ff, where prefix_minus_one and       *)
(* prefix_plus_one leave the 48-bit range.  BTrees (OOBTree, fsBucket,     *)
(* toString/fromString) and pickle are trusted.                            *)
(***************************************************************************)
EXTENDS Integers, Sequences, FiniteSets, TLC

CONSTANTS NP, NS,        \* prefixes 0..NP-1, suffixes 0..NS-1
          NV,            \* values 1..NV; 0 = absent
          NPos,          \* positions passed to save: 1..NPos
          Upd,           \* tuple of key sets: the mappings offered to update()
          FirstIsZero, LastIsMax,
          AsCode

VARIABLES idx,     \* the meaning: Key -> 0..NV
          data,    \* the transcription: prefix -> bucket
          file,    \* what save() wrote (NoFile: nothing saved)
          res      \* outcome of the last call
vars == <<idx, data, file, res>>

Pfx == 0..(NP - 1)
Sfx == 0..(NS - 1)
Key == Pfx \X Sfx
Val == 1..NV
NK  == NP * NS
Num(k)   == k[1] * NS + k[2] + 1                  \* rank of the 8-byte string, 1..NK
KeyOf(n) == <<(n - 1) \div NS, (n - 1) % NS>>

MinN(T) == CHOOSE a \in T : \A b \in T : a <= b
MaxN(T) == CHOOSE a \in T : \A b \in T : a >= b
RECURSIVE Asc(_)
Asc(T) == IF T = {} THEN <<>> ELSE LET m == MinN(T) IN <<m>> \o Asc(T \ {m})

\* results of minKey/maxKey: uniform triples
Hit(p, s)  == <<"key", p, s>>
None       == <<"none", -1, -1>>                   \* the meaning: no such key
Raise(e)   == <<e, -1, -1>>                        \* the transcription: exception class raised
\* "agree with a sorted dictionary" for a query without answer: an exception of the lookup family
Family(r)  == IF r[1] \in {"ValueError", "KeyError"} THEN None ELSE r

-----------------------------------------------------------------------------
(* The meaning: a sorted dictionary                                          *)
MNums(ix)     == {Num(k) : k \in {k \in Key : ix[k] # 0}}
MLen(ix)      == Cardinality(MNums(ix))
MKeys(ix)     == LET q == Asc(MNums(ix)) IN [i \in 1..Len(q) |-> KeyOf(q[i])]
MItems(ix)    == LET q == MKeys(ix) IN [i \in 1..Len(q) |-> <<q[i][1], q[i][2], ix[q[i]]>>]
MValues(ix)   == LET q == MKeys(ix) IN [i \in 1..Len(q) |-> ix[q[i]]]
MGet(ix, k)   == ix[k]                                                  \* 0: the default
MIn(ix, k)    == ix[k] # 0
MMin(ix)      == IF MNums(ix) = {} THEN None ELSE LET k == KeyOf(MinN(MNums(ix))) IN Hit(k[1], k[2])
MMax(ix)      == IF MNums(ix) = {} THEN None ELSE LET k == KeyOf(MaxN(MNums(ix))) IN Hit(k[1], k[2])
\* smallest key not below k / largest key not above k
MMinGE(ix, k) == LET T == {n \in MNums(ix) : n >= Num(k)} IN
                 IF T = {} THEN None ELSE LET a == KeyOf(MinN(T)) IN Hit(a[1], a[2])
MMaxLE(ix, k) == LET T == {n \in MNums(ix) : n <= Num(k)} IN
                 IF T = {} THEN None ELSE LET a == KeyOf(MaxN(T)) IN Hit(a[1], a[2])

-----------------------------------------------------------------------------
(* The transcription: self._data = OOBTree prefix -> fsBucket suffix -> value *)
EmptyBucket == [s \in Sfx |-> 0]
EmptyData   == [p \in {} |-> EmptyBucket]
BSfx(b)     == {s \in Sfx : b[s] # 0}                                   \* keys of a bucket

\* __setitem__: tree = _data.get(prefix); if None: new bucket stored under prefix; tree[suffix] = value
TSet(d, k, v) == IF k[1] \in DOMAIN d THEN [d EXCEPT ![k[1]][k[2]] = v]
                 ELSE [p \in DOMAIN d \cup {k[1]} |-> IF p = k[1] THEN [EmptyBucket EXCEPT ![k[2]] = v] ELSE d[p]]
\* __delitem__: no bucket -> KeyError; del tree[suffix] (KeyError from the bucket); empty bucket removed
TDelFails(d, k) == k[1] \notin DOMAIN d \/ d[k[1]][k[2]] = 0
TDel(d, k) == LET b == [d[k[1]] EXCEPT ![k[2]] = 0] IN
              IF BSfx(b) = {} THEN [p \in DOMAIN d \ {k[1]} |-> d[p]] ELSE [d EXCEPT ![k[1]] = b]
\* update(mapping): for k, v in mapping.items(): self[k] = v
RECURSIVE TUpdate(_, _, _)
TUpdate(d, ks, v) == IF ks = {} THEN d
                     ELSE LET k == KeyOf(MinN({Num(a) : a \in ks})) IN TUpdate(TSet(d, k, v), ks \ {k}, v)
\* save(pos, fname): pos, then one (prefix, bucket.toString()) per item of _data in order, then None
TSave(d) == LET q == Asc(DOMAIN d) IN [i \in 1..Len(q) |-> <<q[i], d[q[i]]>>]
\* load(fname): data[prefix] = fsBucket().fromString(v) for every record
TLoad(f) == [p \in {f.recs[i][1] : i \in 1..Len(f.recs)} |->
               (CHOOSE r \in {f.recs[i] : i \in 1..Len(f.recs)} : r[1] = p)[2]]

\* get / __contains__ / __len__ / __iter__ / items / values as written
TGet(d, k)  == IF k[1] \notin DOMAIN d THEN 0 ELSE d[k[1]][k[2]]
TIn(d, k)   == IF k[1] \notin DOMAIN d THEN FALSE ELSE d[k[1]][k[2]] # 0
RECURSIVE SumLen(_, _)
SumLen(d, ps) == IF ps = {} THEN 0 ELSE LET p == MinN(ps) IN Cardinality(BSfx(d[p])) + SumLen(d, ps \ {p})
TLen(d)     == SumLen(d, DOMAIN d)
RECURSIVE TKeysFrom(_, _)
TKeysFrom(d, ps) == IF ps = {} THEN <<>>
                    ELSE LET p == MinN(ps)
                             q == Asc(BSfx(d[p]))
                         IN [i \in 1..Len(q) |-> <<p, q[i]>>] \o TKeysFrom(d, ps \ {p})
TKeys(d)    == TKeysFrom(d, DOMAIN d)
TItems(d)   == LET q == TKeys(d) IN [i \in 1..Len(q) |-> <<q[i][1], q[i][2], d[q[i][1]][q[i][2]]>>]

\* prefix_plus_one / prefix_minus_one on 6-byte strings: num2str(2^48) silently wraps to 00..00,
\* num2str(-1) raises struct.error.  Model prefixes keep their order, so "the next prefix" is p + 1
\* except at the two ends of the 48-bit range.
PlusOne(p)       == IF p = NP - 1 /\ LastIsMax THEN 0 ELSE p + 1
MinusOneFails(p) == p = 0 /\ FirstIsZero
MinusOne(p)      == p - 1

\* OOBTree.minKey(x) / maxKey(x) on the prefix tree; fsBucket.minKey(x) / maxKey(x) on a bucket
PGE(d, p) == {q \in DOMAIN d : q >= p}
PLE(d, p) == {q \in DOMAIN d : q <= p}

\* minKey(key=None)
TMin(d) == IF DOMAIN d = {} THEN Raise("ValueError")               \* self._data.minKey(): empty tree
           ELSE LET sp == MinN(DOMAIN d) IN
                IF BSfx(d[sp]) = {} THEN Raise("AssertionError")   \* assert tree
                ELSE Hit(sp, MinN(BSfx(d[sp])))
\* minKey(key): asCode selects the case analysis as written / repaired
TMinGE(asCode, d, k) ==
  IF PGE(d, k[1]) = {} THEN Raise("ValueError")                    \* self._data.minKey(key[:6])
  ELSE LET sp == MinN(PGE(d, k[1]))                                \* smallest_prefix
           b  == d[sp]                                             \* tree
       IN IF BSfx(b) = {} THEN Raise("AssertionError")
          ELSE IF ~asCode /\ sp # k[1] THEN Hit(sp, MinN(BSfx(b))) \* repaired: a later prefix: its first key
          ELSE LET ss == {s \in BSfx(b) : s >= k[2]} IN            \* tree.minKey(key[6:])
               IF ss # {} THEN Hit(sp, MinN(ss))
               ELSE                                                \* except ValueError:
                 IF ~asCode /\ sp = NP - 1 /\ LastIsMax THEN Raise("ValueError")  \* repaired: no prefix beyond ff..ff
                 ELSE LET np == PlusOne(sp) IN                     \* next_prefix = prefix_plus_one(smallest_prefix)
                      IF PGE(d, np) = {} THEN Raise("ValueError")  \* self._data.minKey(next_prefix)
                      ELSE LET sp2 == MinN(PGE(d, np)) IN
                           IF BSfx(d[sp2]) = {} THEN Raise("AssertionError")
                           ELSE Hit(sp2, MinN(BSfx(d[sp2])))       \* tree.minKey()
\* maxKey(key=None)
TMax(d) == IF DOMAIN d = {} THEN Raise("ValueError")
           ELSE LET bp == MaxN(DOMAIN d) IN
                IF BSfx(d[bp]) = {} THEN Raise("AssertionError")
                ELSE Hit(bp, MaxN(BSfx(d[bp])))
\* maxKey(key)
TMaxLE(asCode, d, k) ==
  IF PLE(d, k[1]) = {} THEN Raise("ValueError")                    \* self._data.maxKey(key[:6])
  ELSE LET bp == MaxN(PLE(d, k[1]))                                \* biggest_prefix
           b  == d[bp]
       IN IF BSfx(b) = {} THEN Raise("AssertionError")
          ELSE IF ~asCode /\ bp # k[1] THEN Hit(bp, MaxN(BSfx(b))) \* repaired: an earlier prefix: its last key
          ELSE LET ss == {s \in BSfx(b) : s <= k[2]} IN            \* tree.maxKey(key[6:])
               IF ss # {} THEN Hit(bp, MaxN(ss))
               ELSE                                                \* except ValueError:
                 IF ~asCode /\ bp = 0 /\ FirstIsZero THEN Raise("ValueError")     \* repaired: no prefix before 00..00
                 ELSE IF MinusOneFails(bp) THEN Raise("struct.error")  \* next_prefix = prefix_minus_one(biggest_prefix)
                 ELSE LET np == MinusOne(bp) IN
                      IF PLE(d, np) = {} THEN Raise("ValueError")  \* self._data.maxKey(next_prefix)
                      ELSE LET bp2 == MaxN(PLE(d, np)) IN
                           IF BSfx(d[bp2]) = {} THEN Raise("AssertionError")
                           ELSE Hit(bp2, MaxN(BSfx(d[bp2])))       \* tree.maxKey()

-----------------------------------------------------------------------------
(* Observation table: the answer of every query in the current state.  Functions over keys are  *)
(* printed as sequences indexed by Num(k).  min/max..: the meaning; ..C: transcription as the    *)
(* code is; ..R: transcription repaired.                                                         *)
PerKey(F(_)) == [n \in 1..NK |-> F(KeyOf(n))]
Obs(ix, d) ==
  LET g(k) == MGet(ix, k)     h(k) == MIn(ix, k)
      a(k) == MMinGE(ix, k)   b(k) == MMaxLE(ix, k)
      ac(k) == TMinGE(TRUE, d, k)   bc(k) == TMaxLE(TRUE, d, k)
      ar(k) == TMinGE(FALSE, d, k)  br(k) == TMaxLE(FALSE, d, k)
  IN [len |-> MLen(ix), keys |-> MKeys(ix), items |-> MItems(ix), values |-> MValues(ix),
      get |-> PerKey(g), has |-> PerKey(h),
      min |-> MMin(ix), max |-> MMax(ix), minGE |-> PerKey(a), maxLE |-> PerKey(b),
      minT |-> TMin(d), maxT |-> TMax(d),
      minGEC |-> PerKey(ac), maxLEC |-> PerKey(bc), minGER |-> PerKey(ar), maxLER |-> PerKey(br)]

NoFile  == [pos |-> 0, recs |-> <<>>, idx |-> <<>>]
HasFile == file.pos # 0
OK      == [out |-> "ok", pos |-> 0]
\* Bound of an exploration (overridden in a configuration: MayMutate <- SaveThenLoad explores a save only
\* when it is immediately followed by the load; the unbounded reading is checked on a smaller universe).
MayMutate    == TRUE
SaveThenLoad == ~HasFile

Init == /\ idx = [k \in Key |-> 0]
        /\ data = EmptyData
        /\ file = NoFile
        /\ res = OK

\* index[key] = v   (insert, or overwrite = "update" of one key)
Set(p, s, v) ==
  /\ MayMutate
  /\ idx' = [idx EXCEPT ![<<p, s>>] = v]
  /\ data' = TSet(data, <<p, s>>, v)
  /\ res' = OK
  /\ UNCHANGED file

\* del index[key]   (KeyError when absent, nothing changes)
Del(p, s) ==
  /\ MayMutate
  /\ IF idx[<<p, s>>] = 0
     THEN idx' = idx /\ res' = [out |-> "KeyError", pos |-> 0]
     ELSE idx' = [idx EXCEPT ![<<p, s>>] = 0] /\ res' = OK
  /\ data' = IF TDelFails(data, <<p, s>>) THEN data ELSE TDel(data, <<p, s>>)
  /\ UNCHANGED file

\* index.clear()
Clear ==
  /\ MayMutate
  /\ idx' = [k \in Key |-> 0]
  /\ data' = EmptyData
  /\ res' = OK
  /\ UNCHANGED file

\* index.update(mapping): mapping = {k: v for k in Upd[u]}
Update(u, v) ==
  /\ MayMutate
  /\ idx' = [k \in Key |-> IF k \in Upd[u] THEN v ELSE idx[k]]
  /\ data' = TUpdate(data, Upd[u], v)
  /\ res' = OK
  /\ UNCHANGED file

\* index.save(pos, fname)
Save(pos) ==
  /\ MayMutate
  /\ file' = [pos |-> pos, recs |-> TSave(data), idx |-> idx]
  /\ res' = OK
  /\ UNCHANGED <<idx, data>>

\* info = fsIndex.load(fname); index = info['index']; the file is consumed
Load ==
  /\ HasFile
  /\ idx' = file.idx
  /\ data' = TLoad(file)
  /\ res' = [out |-> "ok", pos |-> file.pos]
  /\ file' = NoFile

Next == \/ \E p \in Pfx, s \in Sfx, v \in Val : Set(p, s, v)
        \/ \E p \in Pfx, s \in Sfx : Del(p, s)
        \/ Clear
        \/ \E u \in 1..Len(Upd), v \in Val : Update(u, v)
        \/ \E pos \in 1..NPos : Save(pos)
        \/ Load

\* bound on the size of the index (a CONSTRAINT of configurations over larger universes)
AtMost(n) == Cardinality({k \in Key : idx[k] # 0}) <= n

-----------------------------------------------------------------------------
TypeOK == /\ idx \in [Key -> 0..NV]
          /\ DOMAIN data \subseteq Pfx
          /\ \A p \in DOMAIN data : data[p] \in [Sfx -> 0..NV]
          /\ res.out \in {"ok", "KeyError"}
\* the code's state is a representation of the flat map, and no bucket is empty (minKey relies on it)
Refines       == \A k \in Key : TGet(data, k) = idx[k]
NoEmptyBucket == \A p \in DOMAIN data : BSfx(data[p]) # {}
\* point queries, length and iteration as written agree with the sorted dictionary
QueriesAgree == /\ \A k \in Key : TGet(data, k) = MGet(idx, k) /\ TIn(data, k) = MIn(idx, k)
                /\ TLen(data) = MLen(idx)
                /\ TKeys(data) = MKeys(idx)
                /\ TItems(data) = MItems(idx)
\* smallest / largest key, smallest-key-not-below / largest-key-not-above
BoundsAgree == /\ Family(TMin(data)) = MMin(idx)
               /\ Family(TMax(data)) = MMax(idx)
               /\ \A k \in Key : /\ Family(TMinGE(AsCode, data, k)) = MMinGE(idx, k)
                                 /\ Family(TMaxLE(AsCode, data, k)) = MMaxLE(idx, k)
\* the same, split by query kind (to let TLC exhibit each way the case analysis can go wrong):
\* bound whose prefix has no bucket / bound whose prefix has a bucket (only the ends of the range matter)
MinAgreeAbsent  == \A k \in Key : k[1] \notin DOMAIN data => Family(TMinGE(AsCode, data, k)) = MMinGE(idx, k)
MinAgreePresent == \A k \in Key : k[1] \in DOMAIN data => Family(TMinGE(AsCode, data, k)) = MMinGE(idx, k)
MaxAgreeAbsent  == \A k \in Key : k[1] \notin DOMAIN data => Family(TMaxLE(AsCode, data, k)) = MMaxLE(idx, k)
MaxAgreePresent == \A k \in Key : k[1] \in DOMAIN data => Family(TMaxLE(AsCode, data, k)) = MMaxLE(idx, k)
\* The expected answer of every query, printed once per index content (an "invariant" that is always
\* TRUE): <<"OBS", idx as a sequence over Num(k), data, Obs>> on one line.  data is a function of idx (Refines,
\* NoEmptyBucket), so the table of a state is the one printed for its idx.
IdxSeq == [n \in 1..NK |-> idx[KeyOf(n)]]
\* the mappings offered to update(), printed once for the replay: <<"UPD", <<sequence of keys>>, ...>>
ASSUME PrintT(ToString(<<"UPD", [u \in 1..Len(Upd) |-> MKeys([k \in Key |-> IF k \in Upd[u] THEN 1 ELSE 0])]>>))
ObsPrinted == (res = OK /\ ~HasFile) => PrintT(ToString(<<"OBS", IdxSeq, data, Obs(idx, data)>>))
\* saving and loading back yields an equal index and the saved position
RoundTrip == [][HasFile /\ file'.pos = 0 => idx' = file.idx /\ res'.pos = file.pos
                                                   /\ \A k \in Key : TGet(data', k) = file.idx[k]]_vars
=============================================================================
