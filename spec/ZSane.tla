---------------------------- MODULE ZSane ----------------------------
(* C09: can a stale index snapshot pass _check_sanity against a later (possibly packed) file
   although it is wrong?  File layout with real sizes: magic 4, txn header 23, record 42+L, trailer 8. *)
EXTENDS Naturals, Sequences, FiniteSets, TLC
CONSTANTS Oid, MaxTxn, L
VARIABLES file,     \* sequence of transactions, each a sequence of oids (one record per element)
          snaps,    \* set of saved index snapshots [pos, idx]
          packed    \* number of packs so far
vars == <<file, snaps, packed>>
RecSz == 42 + L
TxnSz(tx) == 23 + Len(tx) * RecSz + 8
RECURSIVE StartOf(_, _)
StartOf(F, i) == IF i = 1 THEN 4 ELSE StartOf(F, i - 1) + TxnSz(F[i - 1])
EndPos(F) == IF F = <<>> THEN 4 ELSE StartOf(F, Len(F)) + TxnSz(F[Len(F)])
RecPos(F, i, k) == StartOf(F, i) + 23 + (k - 1) * RecSz
\* true index of a file: oid -> position of its last record (0 = absent)
LastOcc(F, o) == LET S == {<<i, k>> \in (1..Len(F)) \X (1..2) : k <= Len(F[i]) /\ F[i][k] = o} IN
                 IF S = {} THEN 0
                 ELSE LET m == CHOOSE p \in S : \A q \in S : q[1] < p[1] \/ (q[1] = p[1] /\ q[2] <= p[2])
                      IN RecPos(F, m[1], m[2])
Index(F) == [o \in Oid |-> LastOcc(F, o)]
\* index restricted to the prefix of F that ends at byte position pos (pos must be a txn boundary of F)
PrefixLen(F, pos) == CHOOSE n \in 0..Len(F) : EndPos(SubSeq(F, 1, n)) = pos
IsBoundary(F, pos) == \E n \in 0..Len(F) : EndPos(SubSeq(F, 1, n)) = pos
\* transcription of FileStorage._check_sanity (record granularity; reading inside a record = garbage = insane)
Sane(F, s) ==
  /\ s.pos >= 100 /\ s.pos <= EndPos(F)
  /\ IsBoundary(F, s.pos)                                   \* otherwise the trailing length read is garbage
  /\ LET n == PrefixLen(F, s.pos) IN
     /\ n >= 1
     /\ LET tx == F[n]  m == IF Len(tx) > 5 THEN 5 ELSE Len(tx) IN      \* first <=5 records of the last txn
        \A k \in 1..m : s.idx[tx[k]] = RecPos(F, n, k)
\* what the storage does with an accepted snapshot: keep its entries, scan the file from s.pos on
RECURSIVE Overlay(_, _, _, _)
Overlay(F, idx, i, n) == IF i > Len(F) THEN idx
                         ELSE Overlay(F, [o \in Oid |-> IF LastOcc(<<F[i]>>, o) # 0
                                                        THEN LastOcc(<<F[i]>>, o) - 4 + StartOf(F, i) ELSE idx[o]], i + 1, n)
OpenWith(F, s) == IF Sane(F, s) THEN Overlay(F, s.idx, PrefixLen(F, s.pos) + 1, 0) ELSE Index(F)
Init == file = <<>> /\ snaps = {} /\ packed = 0
Commit(tx) == /\ Len(file) < MaxTxn /\ file' = Append(file, tx) /\ UNCHANGED <<snaps, packed>>
SaveIndex == /\ file # <<>> /\ snaps' = snaps \cup {[pos |-> EndPos(file), idx |-> Index(file)]} /\ UNCHANGED <<file, packed>>
\* pack to a point between transactions p and p+1 (gc off): drop records superseded at or before p, drop empty txns
Superseded(F, p, i, k) == \E j \in (i..p) : \E k2 \in 1..Len(F[j]) : F[j][k2] = F[i][k] /\ (j > i \/ k2 > k)
KeepRecs(F, p, i) == LET ks == {k \in 1..Len(F[i]) : i > p \/ ~Superseded(F, p, i, k)} IN
                     IF ks = {} THEN <<>>
                     ELSE IF ks = {1} THEN <<F[i][1]>> ELSE IF ks = {2} THEN <<F[i][2]>> ELSE F[i]
RECURSIVE PackSeq(_, _, _)
PackSeq(F, p, i) == IF i > Len(F) THEN <<>>
                    ELSE LET r == KeepRecs(F, p, i) IN (IF r = <<>> THEN <<>> ELSE <<r>>) \o PackSeq(F, p, i + 1)
Pack(p) == /\ packed < 1 /\ p \in 1..Len(file) /\ PackSeq(file, p, 1) # file
           /\ file' = PackSeq(file, p, 1) /\ packed' = packed + 1 /\ UNCHANGED snaps
Txs == {<<o>> : o \in Oid} \cup {<<a, b>> : <<a, b>> \in {p \in Oid \X Oid : p[1] # p[2]}}
Next == (\E tx \in Txs : Commit(tx)) \/ SaveIndex \/ (\E p \in 1..MaxTxn : Pack(p))
\* C09: every snapshot ever saved opens to the same index as a full scan
IndexIsCache == \A s \in snaps : OpenWith(file, s) = Index(file)
=============================================================================
