----------------------------- MODULE ZHistorical -----------------------------
(***************************************************************************)
(* Historical connections (DB.open(at=...) / DB.open(before=...)):         *)
(* HistoricalStorageAdapter has a fixed bound, is not registered with the  *)
(* MVCC adapter (receives no invalidations), refuses every write, and a    *)
(* bound later than the newest transaction is refused.  Live connections   *)
(* keep committing meanwhile.  Bounds are in "before" form.                *)
(***************************************************************************)
EXTENDS Naturals, Sequences, FiniteSets, TLC
CONSTANTS HConn, Oid, MaxTid
VARIABLES hist,     \* committed transactions: sequence of [tid, oids, gone] (gone: objects deleted / un-created by it)
          before,   \* [HConn -> Nat] bound of an open historical connection, 0 = closed
          hcache,   \* [HConn -> [Oid -> Nat]] 0 = not loaded, else serial of the loaded state
          hpool,    \* closed historical connections kept for reuse: set of [c, before]
          res       \* outcome of the last call
hvars == <<hist, before, hcache, hpool, res>>
Last == IF hist = <<>> THEN 0 ELSE hist[Len(hist)].tid
\* serial of the revision of o visible strictly before b (0: none, or deleted then)
VisibleBefore(o, b) ==
  LET S == {i \in 1..Len(hist) : (o \in hist[i].oids \/ o \in hist[i].gone) /\ hist[i].tid < b}
  IN IF S = {} THEN 0
     ELSE LET i == CHOOSE i \in S : \A j \in S : j <= i IN IF o \in hist[i].gone THEN 0 ELSE hist[i].tid
HInit == hist = <<>> /\ before = [c \in HConn |-> 0] /\ hcache = [c \in HConn |-> [o \in Oid |-> 0]] /\ hpool = {}
         /\ res = "init"
Commit(oids, gone) == /\ Last < MaxTid /\ oids \cap gone = {} /\ oids \cup gone # {}
                      /\ hist' = Append(hist, [tid |-> Last + 1, oids |-> oids, gone |-> gone])
                      /\ res' = "commit" /\ UNCHANGED <<before, hcache, hpool>>
\* a bound later than the newest transaction (+1) is refused
HOpen(c, b) == /\ before[c] = 0 /\ b >= 1
               /\ IF b > Last + 1 THEN res' = "ValueError" /\ UNCHANGED <<before, hcache, hpool>>
                  ELSE /\ res' = "open"
                       /\ before' = [before EXCEPT ![c] = b]
                       \* the pool is keyed by the bound: a pooled connection is reused only for the same bound
                       /\ IF [c |-> c, before |-> b] \in hpool
                          THEN hpool' = hpool \ {[c |-> c, before |-> b]} /\ UNCHANGED hcache
                          ELSE hpool' = {p \in hpool : p.c # c} /\ hcache' = [hcache EXCEPT ![c] = [o \in Oid |-> 0]]
               /\ UNCHANGED hist
HRead(c, o) == /\ before[c] # 0
               /\ hcache' = [hcache EXCEPT ![c][o] = VisibleBefore(o, before[c])]
               /\ res' = (IF VisibleBefore(o, before[c]) = 0 THEN "POSKeyError" ELSE "read")
               /\ UNCHANGED <<hist, before, hpool>>
\* any attempt to commit through it fails and changes nothing (the storage's commit lock is not taken)
HWrite(c) == /\ before[c] # 0 /\ res' = "ReadOnlyHistoryError" /\ UNCHANGED <<hist, before, hcache, hpool>>
HClose(c) == /\ before[c] # 0 /\ hpool' = hpool \cup {[c |-> c, before |-> before[c]]}
             /\ before' = [before EXCEPT ![c] = 0] /\ res' = "close" /\ UNCHANGED <<hist, hcache>>
HNext == \/ \E oids \in SUBSET Oid, gone \in SUBSET Oid : Commit(oids, gone)
         \/ \E c \in HConn, b \in 1..(MaxTid + 2) : HOpen(c, b)
         \/ \E c \in HConn, o \in Oid : HRead(c, o)
         \/ \E c \in HConn : HWrite(c) \/ HClose(c)
\* C15: what a historical connection holds is exactly the state at its bound, whatever was committed since
HistoricalExact == \A c \in HConn : before[c] # 0 =>
                     \A o \in Oid : hcache[c][o] # 0 => hcache[c][o] = VisibleBefore(o, before[c])
NeverFromTheFuture == \A c \in HConn : before[c] # 0 => \A o \in Oid : hcache[c][o] < before[c]
BoundNotInFuture == [][\A c \in HConn : (before[c] = 0 /\ before'[c] # 0) => before'[c] <= Last + 1]_hvars
WritesRefused == [][res' = "ReadOnlyHistoryError" => hist' = hist]_hvars
=============================================================================
