------------------------------ MODULE MCZGraph ------------------------------
EXTENDS ZGraph
\* choices for KindSets (a cfg file cannot spell a sequence of sets)
AllKinds == {"plain", "newargs", "gone", "gonenew", "py2mod"}
KindSeq == <<"plain", "newargs", "gone", "gonenew">>
KS_Any == [i \in 1..NNode |-> AllKinds]
KS_RootPlain == [i \in 1..NNode |-> IF i = 1 THEN {"plain"} ELSE AllKinds]
KS_Py2 == [i \in 1..NNode |-> IF i = 1 THEN {"plain"} ELSE {"py2mod"}]
KS_Plain == [i \in 1..NNode |-> {"plain"}]
KS_Three == [i \in 1..NNode |-> {"plain", "newargs", "gone"}]
\* fixed assignments: node n has kind KindSeq[((n + r) % 4) + 1]
KS_Rot0 == [i \in 1..NNode |-> {KindSeq[((i - 1) % 4) + 1]}]
KS_Rot1 == [i \in 1..NNode |-> {KindSeq[(i % 4) + 1]}]
KS_Rot2 == [i \in 1..NNode |-> {KindSeq[((i + 1) % 4) + 1]}]
KS_Rot3 == [i \in 1..NNode |-> {KindSeq[((i + 2) % 4) + 1]}]
=============================================================================
