-------------------------------- MODULE ZFile --------------------------------
(***************************************************************************)
(* FileStorage's commit protocol at the level of the raw operations issued *)
(* to the data file (FileStorage.tpc_vote / _finish / _finish_finish /     *)
(* _abort and read_index), with crashes.                                   *)
(*                                                                         *)
(* The data file is: a committed part of `pos` bytes holding `ncommit`     *)
(* transactions whose status byte is not 'c', followed by `tail` bytes of  *)
(* the transaction in flight (header written with status 'c', records,     *)
(* redundant length).  Steps, one per raw operation / API return:          *)
(*   VoteWrite  raw write appending to the tail (the buffering layer may   *)
(*              split the vote into several)                               *)
(*   VoteEnd    tpc_vote returned: the tail is a complete transaction      *)
(*   Flip       1-byte write of the final status at pos+16: commit point   *)
(*   Fsync      fsync of the data file                                     *)
(*   Ack        tpc_finish returned                                        *)
(*   Truncate   truncate back to pos (abort after vote, failed vote)       *)
(* A crash keeps any prefix of the raw operations (the last write possibly *)
(* torn); Recover is what read_index makes of such a file.                 *)
(***************************************************************************)
EXTENDS Naturals, Sequences, TLC

CONSTANTS MaxTxn, MaxChunk

VARIABLES pos,        \* committed end (FileStorage._pos)
          tail,       \* bytes on disk beyond pos
          total,      \* length of the complete transaction in flight once the vote has returned (0 before)
          phase,      \* idle | voting | voted | flipped | synced | cut (truncated after a vote)
          ncommit,    \* versions of the committed history on disk: transactions whose final status byte is
                      \* written, plus packs swapped in
          nack        \* transactions whose tpc_finish has returned
fvars == <<pos, tail, total, phase, ncommit, nack>>

FInit == pos = 4 /\ tail = 0 /\ total = 0 /\ phase = "idle" /\ ncommit = 0 /\ nack = 0

\* status: the status byte the write puts at pos+16, or "-" if the write does not cover that offset
VoteWrite(off, n, status) ==
  /\ phase \in {"idle", "voting"} /\ n > 0
  /\ off = pos + tail                               \* appended strictly in sequence
  /\ (off <= pos + 16 /\ pos + 16 < off + n) => status = "c"    \* written with the checkpoint flag set
  /\ ~(off <= pos + 16 /\ pos + 16 < off + n) => status = "-"
  /\ tail' = tail + n /\ phase' = "voting"
  /\ UNCHANGED <<pos, total, ncommit, nack>>

\* tpc_vote returned: header length field htl and the redundant length ttl describe exactly the tail
VoteEnd(htl, ttl) ==
  /\ phase \in {"voting"}
  /\ htl + 8 = tail /\ ttl = htl /\ htl >= 23
  /\ total' = tail /\ phase' = "voted"
  /\ UNCHANGED <<pos, tail, ncommit, nack>>

Flip(off, status) ==
  /\ phase = "voted" /\ off = pos + 16 /\ status \in {" ", "p"}
  /\ phase' = "flipped" /\ ncommit' = ncommit + 1
  /\ UNCHANGED <<pos, tail, total, nack>>

Fsync ==
  /\ phase' = (IF phase = "flipped" THEN "synced" ELSE phase)
  /\ UNCHANGED <<pos, tail, total, ncommit, nack>>

\* C01: a commit does not return before its data has been forced to stable storage
Ack ==
  /\ phase = "synced"
  /\ pos' = pos + tail /\ tail' = 0 /\ total' = 0 /\ phase' = "idle" /\ nack' = nack + 1
  /\ UNCHANGED ncommit

\* abort after (part of) a vote, or the error handler of a failed vote: the tail is cut off
Truncate(size) ==
  /\ phase \in {"voting", "voted"} /\ size = pos
  /\ tail' = 0 /\ total' = 0 /\ phase' = "cut"
  /\ UNCHANGED <<pos, ncommit, nack>>

\* a pack that freed something swaps the rewritten file in: from now on the packed history is what the file
\* holds (its end position is re-derived); a pack is not a transaction, it only starts a new version
PackBegin == phase = "idle" /\ phase' = "packing" /\ UNCHANGED <<pos, tail, total, ncommit, nack>>
PackSwap(newpos) ==
  /\ phase = "packing"
  /\ pos' = newpos /\ ncommit' = ncommit + 1 /\ nack' = nack + 1
  /\ UNCHANGED <<tail, total, phase>>
PackEnd == phase = "packing" /\ phase' = "idle" /\ UNCHANGED <<pos, tail, total, ncommit, nack>>

AbortDone ==
  /\ phase \in {"idle", "cut"}       \* an abort returns only with the file back at the committed end
  /\ tail = 0
  /\ phase' = "idle"
  /\ UNCHANGED <<pos, tail, total, ncommit, nack>>

\* what read_index recovers from the file as it is now (a transaction counts iff its status byte was flipped;
\* anything after the last such transaction is truncated away): the number of committed transactions
Recover == ncommit
\* the same for a file whose next raw write is torn: a torn vote write leaves an incomplete tail or one still
\* flagged 'c'; the flip itself is a single byte and cannot be torn
RecoverTorn == ncommit

Next ==
  \/ \E n \in 1..MaxChunk, s \in {"c", "-"} : VoteWrite(pos + tail, n, s)
  \/ \E h \in 23..(MaxChunk * 3) : VoteEnd(h, h)
  \/ Flip(pos + 16, " ")
  \/ Fsync
  \/ (nack < MaxTxn /\ Ack)
  \/ Truncate(pos)
  \/ AbortDone

(* ------------------------------ properties ------------------------------ *)
\* bound for exhaustive checking only
Bound == tail <= 120 /\ pos <= 400
TypeOK == phase \in {"idle", "voting", "voted", "flipped", "synced", "cut", "packing"} /\ tail >= 0
\* every acknowledged transaction survives any crash; at most the one in flight may additionally be present
CrashConsistent == nack <= Recover /\ Recover <= nack + 1
\* the transaction in flight is recoverable only once its commit point is on disk
OnlyFlippedSurvives == (Recover = nack + 1) <=> phase \in {"flipped", "synced"}
\* outside a commit the file ends exactly at the committed end
IdleMeansClean == phase = "idle" => (tail = 0 /\ ncommit = nack)
FsyncBeforeAck == [][nack' = nack + 1 => phase = "synced"]_fvars
=============================================================================
