---------------------------- MODULE ZBlobScript ----------------------------
(***************************************************************************)
(* Scripted behaviours of ZBlob.  The harness writes sequences of calls     *)
(* (directed scenarios: every abort point of a commit and of an undo, with  *)
(* and without savepoints, races with a second writer, undo / redo chains,  *)
(* packs at every time ...; the action sequence of a recorded divergence;   *)
(* the action sequence of a TLC counterexample under other constants); TLC  *)
(* evaluates each script with the actions of the specification and thereby  *)
(* supplies the state after every call.  A call that the specification does *)
(* not enable in the state reached is skipped (Skip), so the harness needs  *)
(* no knowledge of the state.                                               *)
(*                                                                         *)
(* A script entry is a record [a |-> action, ...].  Symbolic arguments:     *)
(*   b = 0            the next unused blob oid                              *)
(*   t, T <= 0        the tid of the (Len(hist) + t)-th committed           *)
(*                    transaction (0: the last one)                         *)
(*   a = "Store"      StoreOK or StoreFail (UStoreOK / UStoreFail), which-  *)
(*                    ever the state yields                                 *)
(* The scripts come from the module ZBlobScriptData, which the harness      *)
(* generates next to a copy of this one (the file in spec/ is an empty       *)
(* placeholder).  A definition - unlike a substituted constant - is          *)
(* evaluated by TLC once.                                                    *)
(***************************************************************************)
EXTENDS MCZBlob, ZBlobScriptData
VARIABLES sid, pc, act
svars == <<vars, sid, pc, act>>

Scripts == TheScripts
E == Scripts[sid][pc]
More == pc <= Len(Scripts[sid])
B(b) == IF b = 0 THEN nextb ELSE b
KTid(t) == IF t >= 1 THEN t ELSE IF Len(hist) + t >= 1 THEN hist[Len(hist) + t].tid ELSE 0
Adv(a) == pc' = pc + 1 /\ sid' = sid /\ act' = a

SInit == Init /\ sid \in 1..Len(Scripts) /\ pc = 1 /\ act = [a |-> "Init"]

SCreateBlob  == More /\ E.a = "CreateBlob" /\ CreateBlob(B(E.b), E.c) /\ Adv([E EXCEPT !.b = B(E.b)])
SRewrite     == More /\ E.a = "Rewrite" /\ Rewrite(E.b, E.x) /\ Adv(E)
SAppend      == More /\ E.a = "Append" /\ Append_(E.b, E.x) /\ Adv(E)
SConsumeFile == More /\ E.a = "ConsumeFile" /\ ConsumeFile(E.b, E.x) /\ Adv(E)
SConsumeFail == More /\ E.a = "ConsumeFail" /\ ConsumeFail(E.b) /\ Adv(E)
SOpenWrite   == More /\ E.a = "OpenWrite" /\ OpenWrite(E.b, E.x) /\ Adv(E)
SOpenRead    == More /\ E.a = "OpenRead" /\ OpenRead(E.b) /\ Adv(E)
SCloseAll    == More /\ E.a = "CloseAll" /\ CloseAll /\ Adv(E)
SBoundary    == More /\ E.a = "Boundary" /\ Boundary /\ Adv(E)
SUnlink      == More /\ E.a = "Unlink" /\ Unlink(E.b) /\ Adv(E)
SRelink      == More /\ E.a = "Relink" /\ Relink(E.b) /\ Adv(E)
SModifyP     == More /\ E.a = "ModifyP" /\ ModifyP(E.v) /\ Adv(E)
SSavepoint   == More /\ E.a = "Savepoint" /\ Savepoint /\ Adv(E)
SRollback    == More /\ E.a = "Rollback" /\ Rollback(E.k) /\ Adv(E)
SAbortTxn    == More /\ E.a = "AbortTxn" /\ AbortTxn /\ Adv(E)
STpcBegin    == More /\ E.a = "TpcBegin" /\ TpcBegin /\ Adv(E)
SStoreOK     == More /\ E.a = "Store" /\ StoreOK /\ Adv([a |-> "StoreOK"])
SStoreFail   == More /\ E.a = "Store" /\ StoreFail /\ Adv([a |-> "StoreFail"])
SUStoreOK    == More /\ E.a = "Store" /\ UStoreOK /\ Adv([a |-> "UStoreOK"])
SUStoreFail  == More /\ E.a = "Store" /\ UStoreFail /\ Adv([a |-> "UStoreFail"])
SStoreFault  == More /\ E.a = "StoreFault" /\ StoreFault /\ Adv(E)
SPackDuring  == More /\ E.a = "PackDuring" /\ PackDuring(KTid(E.T)) /\ Adv([E EXCEPT !.T = KTid(E.T)])
SVote        == More /\ E.a = "Vote" /\ Vote /\ Adv(E)
SFinish      == More /\ E.a = "Finish" /\ Finish /\ Adv(E)
SConnAbort   == More /\ E.a = "ConnAbort" /\ ConnAbort /\ Adv(E)
STpcAbort    == More /\ E.a = "TpcAbort" /\ TpcAbort /\ Adv(E)
SOtherCommit == More /\ E.a = "OtherCommit" /\ OtherCommit(E.o, E.x) /\ Adv(E)
SUBegin      == More /\ E.a = "UBegin" /\ UBegin(KTid(E.t)) /\ Adv([E EXCEPT !.t = KTid(E.t)])
SUCopyFail   == More /\ E.a = "UStoreCopyFail" /\ UStoreCopyFail /\ Adv(E)
SWrong       == More /\ E.a = "Wrong" /\ Wrong(E.m) /\ Adv(E)
SOtherAbort  == More /\ E.a = "OtherAbort" /\ OtherAbort(E.b, E.x) /\ Adv(E)
SOtherFinish == More /\ E.a = "OtherFinish" /\ OtherFinish(E.b, E.x) /\ Adv(E)
SLate        == More /\ E.a = "Late" /\ LateQ /\ Adv(E)
SPack        == More /\ E.a = "Pack" /\ Pack(KTid(E.T)) /\ Adv([E EXCEPT !.T = KTid(E.T)])

SStep == \/ SPackDuring \/ SCreateBlob \/ SRewrite \/ SAppend \/ SConsumeFile \/ SConsumeFail \/ SModifyP \/ SSavepoint \/ SRollback \/ SAbortTxn
         \/ STpcBegin \/ SStoreOK \/ SStoreFail \/ SUStoreOK \/ SUStoreFail \/ SVote \/ SFinish \/ SConnAbort
         \/ STpcAbort \/ SOtherCommit \/ SUBegin \/ SPack \/ SUCopyFail \/ SUnlink \/ SRelink \/ SStoreFault \/ SOpenWrite \/ SOpenRead \/ SCloseAll \/ SBoundary \/ SWrong \/ SOtherAbort \/ SOtherFinish \/ SLate
\* (the enabling condition of Pack is written out: ENABLED would evaluate the packer a second time)
PackDuringEnabled(T) == PackIgnoresInFlight /\ Flavour = "wrapmap" /\ txn.who # "none" /\ txn.phase \in {"stored", "voted"} /\ aux.late = "none" /\ T \in 1..clk
PackEnabled(T) == HasPack /\ Idle /\ aux.late = "none" /\ IsClean(con) /\ T \in 1..clk
SSkip == /\ More
         /\ IF E.a = "Pack" THEN ~PackEnabled(KTid(E.T))
            ELSE IF E.a = "PackDuring" THEN ~PackDuringEnabled(KTid(E.T)) ELSE ~ENABLED SStep
         /\ Adv([a |-> "Skip"]) /\ UNCHANGED vars
SNext == SStep \/ SSkip
=============================================================================
