------------------------------- MODULE ZConn -------------------------------
(***************************************************************************)
(* Connection object bookkeeping: what ZODB.Connection does to the         *)
(* application's objects and to its registered / added / creating /        *)
(* modified sets through modification, implicit (reachability) and         *)
(* explicit additions, savepoints (TmpStore), rollbacks, commit in its      *)
(* phases with a failure alternative at each, abort, close and reopen.      *)
(* Transcribed from Connection.add/_add, register/_register, abort/_abort,  *)
(* tpc_begin, commit/_commit/_store_objects, tpc_vote, tpc_finish,          *)
(* tpc_abort, _invalidate_creating, _tpc_cleanup, savepoint,                *)
(* _rollback_savepoint, _commit_savepoint, _abort_savepoint, TmpStore.store *)
(* /load/storeBlob/loadBlob/reset/close, ObjectWriter.persistent_id (oid    *)
(* and jar are assigned while the referrer is being pickled, the new object *)
(* is queued on the writer's stack), transaction.Transaction.commit /       *)
(* _commitResources/_cleanup/abort/savepoint, Savepoint.rollback and        *)
(* AbortSavepoint (rolling back invalidates LATER savepoints only), and the *)
(* MVCC snapshot of mvccadapter (loads as of `start`, invalidations applied *)
(* at transaction boundaries).                                              *)
(*                                                                          *)
(* One action per operation of the application (Modify, Link, Unlink,       *)
(* AddExplicit, Load, Savepoint, Rollback(k), Abort, Close, Reopen), commit *)
(* split into Begin, Store(o) per object in the order of the real loop,     *)
(* Stored, Vote, Finish (CommitSp when savepoints were used), and one       *)
(* action per way a commit can fail.  A failing commit runs the whole       *)
(* clean-up of transaction._cleanup (abort() unless the connection voted,   *)
(* then tpc_abort()) inside the failing action: that is what the caller of  *)
(* transaction.commit() gets to see.                                        *)
(*                                                                          *)
(* The code is modelled AS IT IS; four deviations from the design are       *)
(* behind Boolean constants (TRUE = behaviour of the code):                 *)
(*   AliasCreating    TmpStore.reset binds self.creating to the savepoint's *)
(*                    dict instead of a copy (F2)                           *)
(*   SpBlobByName     savepoint blob files are named oid-serial.spb: one    *)
(*                    file per blob for all savepoints, looked up by name   *)
(*                    whatever the index says (F3)                          *)
(*   InvalidateDoomed _abort() / tpc_abort() invalidate an object that is   *)
(*                    about to be disowned (it sits in a creating map), and *)
(*                    _invalidate_creating disowns ghosts whose state is in *)
(*                    the savepoint store only: the object ends as an       *)
(*                    ownerless empty ghost (F16)                           *)
(*   LeakUnstored     an object that got oid and jar from the pickler (or   *)
(*                    from add()) but did not reach the cache when the      *)
(*                    store loop raised is in no set and keeps oid and jar  *)
(*   AddBeforeJoin    Connection._add gives the object oid and jar BEFORE   *)
(*                    _register joins the transaction: when the join raises *)
(*                    (transaction in the failed state) the object keeps    *)
(*                    them and is in no set                                 *)
(*   ImportNotCreating importFile() writes the imported records into the    *)
(*                    savepoint store without entering them in a creating   *)
(*                    map: the object it returns is never disowned          *)
(* `obs` is a function of the other variables (it adds no states): what the *)
(* application would see on access, what another connection sees, and the   *)
(* clauses of C11 / C12 that do not hold in the state (`mon`).              *)
(***************************************************************************)
EXTENDS Naturals, Sequences, FiniteSets, TLC

CONSTANTS Obj,              \* application objects (strings); Root is the database root
          Root,
          Blobs,            \* objects that are ZODB.blob.Blob (value = file bytes, no children)
          Val,              \* values the application writes
          Edges,            \* <<parent, child>> links the application may create
          MaxSp,            \* live savepoints
          MaxCommit,        \* successful commits of this connection
          MaxOther,         \* commits of the second connection
          Pre,              \* sequence of objects that are committed children of the root to begin with
          MaxAct,           \* application actions (modify, link, add, load, savepoint, rollback) per transaction
          MaxTail,          \* ... once MaxCommit is used up
          Ops,              \* enabled families: "add" "load" "sp" "close" "own" "rm" "other" "free" (modify unowned objects)
                            \* "bf" (storage refuses tpc_begin) "awf" (add while the transaction is failed) "imp" (importFile)
                            \* "mwf" (modify an object of the unjoined connection while the transaction is failed)
          AliasCreating, SpBlobByName, InvalidateDoomed, LeakUnstored, AddBeforeJoin, ImportNotCreating

VARIABLES ob,    \* [All -> [own, cached, flag, serial, st]]  the application's objects
          cn,    \* the connection's bookkeeping
          tmp,   \* the savepoint store (TmpStore)
          sps,   \* the transaction's live savepoints
          hist,  \* committed history: sequence of [by, w]
          cm,    \* the commit in progress
          obs    \* derived observations

vars == <<ob, cn, tmp, sps, hist, cm, obs>>

All == Obj \cup {Root}
V0 == CHOOSE v \in Val : TRUE
OtherVal == "vo"

St(v, kids) == [v |-> v, kids |-> kids]
Absent     == St("absent", <<>>)       \* no record
GhostSt    == St("-", <<>>)            \* no state in memory
Unloadable == St("unloadable", <<>>)   \* a load would raise
Lost       == St("lost", <<>>)         \* ownerless ghost: the only copy of the state is gone
BlobRec    == St("blobrec", <<>>)      \* the (empty) pickle of a blob in the savepoint store
Gone       == St("gone", <<>>)         \* a disowned blob: its data was handed to the store for good; not used again

Range(s) == {s[i] : i \in DOMAIN s}
Max(S) == CHOOSE x \in S : \A y \in S : y <= x
Without(s, o) == SelectSeq(s, LAMBDA x : x # o)
NoCre == [o \in All |-> "-"]           \* a creating map: "-" absent, "i" implicitly added (True), "e" by add() (False)
CreSet(c) == {o \in All : c[o] # "-"}
NoIndex == [o \in All |-> Absent]
IdxSet(ix) == {o \in All : ix[o] # Absent}
NoBlob == [o \in All |-> "-"]
NoTmp == [on |-> FALSE, pos |-> 0, index |-> NoIndex, cre |-> NoCre, alias |-> 0, blob |-> NoBlob]
EmptyTx == [o \in All |-> Absent]
Idle == [pc |-> "idle", todo |-> <<>>, stack |-> <<>>, tx |-> EmptyTx, n |-> 0]

(* ------------------------------ committed history ---------------------- *)
CurIdxH(h, o, n) == LET S == {i \in 1..n : h[i].w[o] # Absent} IN IF S = {} THEN 0 ELSE Max(S)
CurStH(h, o, n) == LET i == CurIdxH(h, o, n) IN IF i = 0 THEN Absent ELSE h[i].w[o]
CurIdx(o, n) == CurIdxH(hist, o, n)
NBy(who) == Cardinality({i \in 2..Len(hist) : hist[i].by = who})
MaxHist == 1 + MaxCommit + MaxOther
CurSt(o, n) == CurStH(hist, o, n)

(* ------------------- the bundle the connection's methods work on ------- *)
B == [ob |-> ob, cn |-> cn, tmp |-> tmp, sps |-> sps]
Set(b) == ob' = b.ob /\ cn' = b.cn /\ tmp' = b.tmp

\* what a load of o returns now (TmpStore.load falls back to the MVCC storage: as of cn.start)
LoadStH(h, b, o) ==
  LET inTmp == b.tmp.on /\ b.tmp.index[o] # Absent
      ci == CurIdxH(h, o, b.cn.start)
  IN IF ~inTmp /\ ci = 0 THEN Unloadable                               \* no record: the load raises
     ELSE IF o \notin Blobs THEN (IF inTmp THEN b.tmp.index[o] ELSE h[ci].w[o])
     \* a blob: the record, then loadBlob(oid, serial) - the savepoint file is found by its NAME if it is there
     ELSE IF b.tmp.on /\ b.tmp.blob[o] # "-" THEN St(b.tmp.blob[o], <<>>)
     ELSE IF ci = 0 THEN Unloadable ELSE h[ci].w[o]
LoadSerialH(h, b, o) == CurIdxH(h, o, b.cn.start)      \* z64 (0) for an object created in this transaction
SeenH(h, b, o) ==
  LET x == b.ob[o] IN
  IF x.flag # "ghost" THEN x.st
  ELSE IF x.own THEN LoadStH(h, b, o) ELSE Lost
SnapH(h, b) == [o \in All |-> IF b.ob[o].own THEN [own |-> TRUE, st |-> SeenH(h, b, o)]
                                           ELSE [own |-> FALSE, st |-> GhostSt]]

(* ----------------------------- cache operations ------------------------ *)
Ghostify(x) == [x EXCEPT !.flag = "ghost", !.st = GhostSt, !.serial = 0]
\* PickleCache.invalidate(oids): only objects in the cache are reached
InvalidateSet(b, X) ==
  [b EXCEPT !.ob = [o \in All |-> IF o \in X /\ b.ob[o].cached THEN Ghostify(b.ob[o]) ELSE b.ob[o]]]
\* del obj._p_jar; del obj._p_oid (after: if obj._p_changed: obj._p_changed = False)
Disown(x) == [x EXCEPT !.own = FALSE, !.cached = FALSE, !.flag = IF @ = "changed" THEN "clean" ELSE @]
\* Connection._invalidate_creating(creating): only objects found in the cache are disowned.  A ghost among them
\* has its only state in the savepoint store that is about to be dropped or truncated: as the code is it ends
\* as an ownerless empty ghost; the repaired design activates it first (blobs hand their data over for good).
Revive(b, o) == LET s == LoadStH(hist, b, o) IN
                IF b.ob[o].flag = "ghost" /\ o \notin Blobs /\ s # Unloadable
                THEN [b.ob[o] EXCEPT !.flag = "clean", !.st = s] ELSE b.ob[o]
InvalidateCreating(b, X) ==
  [b EXCEPT !.ob = [o \in All |-> IF o \in X /\ b.ob[o].cached
                                  THEN IF o \in Blobs THEN [Disown(b.ob[o]) EXCEPT !.st = IF @ = GhostSt THEN @ ELSE Gone]
                                       ELSE Disown(IF InvalidateDoomed THEN b.ob[o] ELSE Revive(b, o))
                                  ELSE b.ob[o]],
            \* a savepoint blob file is found by oid: the file of a disowned blob is out of reach (the oid is gone)
            !.tmp.blob = [o \in All |-> IF o \in X /\ b.ob[o].cached THEN "-" ELSE @[o]]]

\* Connection._abort(): registered objects; `doomed` = objects the caller is going to disown next
AbortRegistered(b, doomed) ==
  LET R == Range(b.cn.reg)
      f(o) == LET x == b.ob[o] IN
              IF o \notin R THEN x
              ELSE IF o \in b.cn.added THEN Disown(x)
              ELSE IF x.cached /\ (InvalidateDoomed \/ o \notin doomed) THEN Ghostify(x) ELSE x
  IN [b EXCEPT !.ob = [o \in All |-> f(o)], !.cn.added = @ \ R]

TpcCleanup(b) == [b EXCEPT !.cn.joined = FALSE, !.cn.reg = <<>>, !.cn.creating = NoCre]

\* TmpStore.close() removes the savepoint blob directory.  A blob that was activated from a savepoint file found
\* by name although the index does not list it (SpBlobByName) keeps pointing at the removed file.
Dangle(b) ==
  [b EXCEPT !.ob = [o \in All |-> IF o \in Blobs /\ b.ob[o].own /\ b.ob[o].flag = "clean" /\ b.tmp.blob[o] # "-"
                                  THEN [b.ob[o] EXCEPT !.st = St("nofile", <<>>)] ELSE b.ob[o]]]
\* Connection._abort_savepoint()
AbortSavepoint(b) ==
  LET b1 == InvalidateCreating(b, CreSet(b.tmp.cre))
      \* (objects flushed by a savepoint() that raised are in _creating only: they are invalidated here and disowned
      \* next - InvalidateDoomed; the repaired design leaves them alone)
      b2 == Dangle(InvalidateSet(b1, IdxSet(b.tmp.index) \ (IF InvalidateDoomed THEN {} ELSE CreSet(b.cn.creating))))
  IN [b2 EXCEPT !.tmp = NoTmp]

\* Connection.abort(transaction)
AbortOp(b) ==
  LET doomed == CreSet(b.cn.creating) \cup (IF b.tmp.on THEN CreSet(b.tmp.cre) ELSE {})
      b1 == AbortRegistered(b, doomed)
      b2 == IF b1.tmp.on THEN AbortSavepoint(b1) ELSE b1
      b3 == InvalidateCreating(b2, CreSet(b2.cn.creating))
  IN TpcCleanup(b3)

\* Connection.tpc_abort(transaction)   (PickleCache.invalidate empties the list it is given: _modified)
TpcAbortOp(b) ==
  LET b1 == IF b.tmp.on THEN AbortSavepoint(b) ELSE b
      inv == IF InvalidateDoomed THEN b1.cn.modified ELSE b1.cn.modified \ CreSet(b1.cn.creating)
      b2 == InvalidateSet(b1, inv)
      b3 == InvalidateCreating(b2, CreSet(b2.cn.creating))
      b4 == [b3 EXCEPT !.ob = [o \in All |-> IF o \in b3.cn.added THEN Disown(b3.ob[o]) ELSE b3.ob[o]],
                       !.cn.added = {}, !.cn.modified = {}]
  IN TpcCleanup(b4)

\* afterCompletion / open -> newTransaction: the snapshot moves to the end of the history and the objects
\* written by the other connection since the last poll are invalidated
Boundary(b, h) ==
  LET changed == {o \in All : \E i \in (b.cn.start + 1)..Len(h) : h[i].by = "o" /\ h[i].w[o] # Absent}
  IN [InvalidateSet(b, changed) EXCEPT !.cn.start = Len(h)]

(* ------------------------------ the store loop ------------------------- *)
\* _commit: which registered objects get an ObjectWriter
ShouldStore(b, o) == o \in b.cn.added \/ (b.cn.creating[o] = "-" /\ b.ob[o].flag = "changed")
RECURSIVE SkipTodo(_, _)
SkipTodo(b, todo) == IF todo = <<>> THEN <<>>
                     ELSE IF ShouldStore(b, Head(todo)) THEN todo ELSE SkipTodo(b, Tail(todo))

\* _store_objects, one object, first half: bookkeeping and pickling (persistent_id hands oid and jar to
\* every child that has none and queues it on the writer's stack)
IsNew(b, o) == b.ob[o].serial = 0 /\ (~b.tmp.on \/ b.tmp.cre[o] # "e")
NewKids(b, o) == SelectSeq(b.ob[o].st.kids, LAMBDA k : ~b.ob[k].own)
Pickle(b, o) ==
  LET nk == Range(NewKids(b, o))
      cn1 == IF IsNew(b, o)
             THEN [b.cn EXCEPT !.added = @ \ {o}, !.creating[o] = IF o \in b.cn.added THEN "e" ELSE "i"]
             ELSE [b.cn EXCEPT !.modified = @ \cup {o}]
  IN [b EXCEPT !.cn = cn1, !.ob = [p \in All |-> IF p \in nk THEN [b.ob[p] EXCEPT !.own = TRUE] ELSE b.ob[p]]]
\* second half: storage.store(...) returned, self._cache[oid] = obj, and for the savepoint store (which
\* returns a serial) obj._p_changed = 0.  A blob is invalidated right after storeBlob.
Put(b, o, toTmp) ==
  LET x == b.ob[o]
      x1 == IF o \in Blobs THEN [Ghostify(x) EXCEPT !.cached = TRUE]
            ELSE IF toTmp THEN [x EXCEPT !.cached = TRUE, !.flag = "clean"]
            ELSE [x EXCEPT !.cached = TRUE]
      t1 == IF ~toTmp THEN b.tmp
            ELSE [b.tmp EXCEPT !.pos = @ + 1, !.index[o] = IF o \in Blobs THEN BlobRec ELSE x.st,
                               !.blob[o] = IF o \in Blobs THEN x.st.v ELSE @]
  IN [b EXCEPT !.ob[o] = x1, !.tmp = t1]

\* the whole loop of _commit(None) into the savepoint store
RECURSIVE FlushLoop(_, _, _)
FlushLoop(b, todo, stack) ==
  IF stack # <<>> THEN
    LET o == stack[Len(stack)]
        push == NewKids(b, o)
    IN FlushLoop(Put(Pickle(b, o), o, TRUE), todo, SubSeq(stack, 1, Len(stack) - 1) \o push)
  ELSE IF todo = <<>> THEN b
  ELSE IF ShouldStore(b, Head(todo)) THEN FlushLoop(b, Tail(todo), <<Head(todo)>>)
  ELSE FlushLoop(b, Tail(todo), <<>>)

\* Connection.savepoint() up to the point where the state tuple is taken
SavepointOp(b) ==
  LET b0 == [b EXCEPT !.tmp = IF b.tmp.on THEN @ ELSE [NoTmp EXCEPT !.on = TRUE], !.cn.creating = NoCre]
      b1 == FlushLoop(b0, b0.cn.reg, <<>>)
      cre2 == [o \in All |-> IF b1.cn.creating[o] # "-" THEN b1.cn.creating[o] ELSE b1.tmp.cre[o]]
      al == b1.tmp.alias
  IN [b1 EXCEPT !.tmp.cre = cre2, !.cn.creating = NoCre, !.cn.reg = <<>>,
                \* the aliased dict IS the savepoint's: the update shows there too
                !.sps = IF al # 0 /\ al <= Len(@) THEN [@ EXCEPT ![al].cre = cre2] ELSE @]

\* The same loop when the pickling of object f raises (an unpicklable value at the end of its state): what was
\* flushed before f is in the savepoint store and in the cache, f itself got as far as Pickle; the writer's queue
\* is dropped.  Connection._creating has NOT been merged into TmpStore.creating, _registered_objects is as it was.
RECURSIVE FlushTo(_, _, _, _)
FlushTo(b, todo, stack, f) ==
  IF stack # <<>> THEN
    LET o == stack[Len(stack)]
        rest == SubSeq(stack, 1, Len(stack) - 1) \o NewKids(b, o)
    IN IF o = f THEN [ok |-> TRUE, b |-> Pickle(b, o), stack |-> rest]
       ELSE FlushTo(Put(Pickle(b, o), o, TRUE), todo, rest, f)
  ELSE IF todo = <<>> THEN [ok |-> FALSE, b |-> b, stack |-> <<>>]
  ELSE IF ShouldStore(b, Head(todo)) THEN FlushTo(b, Tail(todo), <<Head(todo)>>, f)
  ELSE FlushTo(b, Tail(todo), <<>>, f)
\* objects that hold oid and jar but did not reach the cache when a store loop raised: the one being stored if
\* new, and the writer's queue.  As the code is they are in no set; the repaired design disowns them.
Unstored(b, o, stack) == (IF b.ob[o].serial = 0 /\ ~b.ob[o].cached THEN {o} ELSE {}) \cup Range(stack)
DropUnstored(b, un) ==
  IF LeakUnstored THEN b
  ELSE [b EXCEPT !.ob = [p \in All |-> IF p \in un THEN Disown(b.ob[p]) ELSE b.ob[p]],
                 !.cn.creating = [p \in All |-> IF p \in un THEN "-" ELSE @[p]]]
\* Connection.savepoint() raising while it pickles f
FlushFails(b, f) ==
  LET b0 == [b EXCEPT !.tmp = IF b.tmp.on THEN @ ELSE [NoTmp EXCEPT !.on = TRUE], !.cn.creating = NoCre]
      r == FlushTo(b0, b0.cn.reg, <<>>, f)
  IN [ok |-> r.ok, b |-> DropUnstored(r.b, Unstored(r.b, f, r.stack))]

(* -------------------------------- derived ------------------------------ *)
IdleB(b, c) == c.pc = "idle" /\ ~b.cn.joined
Mon(h, b, c) ==
  LET M(cl, o) == [clause |-> cl, obj |-> o] IN
  {M("owned-uncommitted", o) : o \in {o \in All : IdleB(b, c) /\ b.ob[o].own /\ CurIdxH(h, o, b.cn.start) = 0}}
  \cup {M("state-lost", o) : o \in {o \in All \ Blobs : ~b.ob[o].own /\ b.ob[o].flag = "ghost"}}
  \cup {M("stale", o) : o \in {o \in All : IdleB(b, c) /\ b.ob[o].own /\ CurIdxH(h, o, b.cn.start) # 0
                                           /\ SeenH(h, b, o) # CurStH(h, o, b.cn.start)}}
  \cup {M("dirty-idle", o) : o \in {o \in All : IdleB(b, c) /\ b.ob[o].own /\ b.ob[o].flag = "changed"}}
  \cup {M("serial", o) : o \in {o \in All : IdleB(b, c) /\ b.ob[o].own /\ b.ob[o].flag = "clean"
                                            /\ b.ob[o].serial # CurIdxH(h, o, b.cn.start)}}
  \cup (IF IdleB(b, c) /\ (b.cn.reg # <<>> \/ b.cn.added # {} \/ b.cn.creating # NoCre \/ b.tmp.on)
        THEN {M("leftover", Root)} ELSE {})
  \cup (IF ~b.cn.opened /\ b.cn.joined THEN {M("closed-joined", Root)} ELSE {})
ObsOf(h, b, c, extra) ==
  [seen |-> [o \in All |-> SeenH(h, b, o)],
   pub |-> [o \in All |-> CurStH(h, o, Len(h))],
   mon |-> Mon(h, b, c) \cup extra]
SetObs(extra) == obs' = ObsOf(hist', [ob |-> ob', cn |-> cn', tmp |-> tmp', sps |-> sps'], cm', extra)

\* A clause of C11 / C12 does not hold in this state (a deviation of the code showed): the run ends here - the
\* violation is what there is to see, and what the code does with a dangling oid is not modelled.  An object that
\* lost its state is simply not used again (the run goes on) unless a state in memory still refers to it.
LostObj(o) == o \notin Blobs /\ ~ob[o].own /\ ob[o].flag = "ghost"
Live == /\ \A m \in obs.mon : m.clause = "state-lost"
        /\ \A o \in All : LostObj(o) => \A p \in All : o \notin Range(ob[p].st.kids)
App == cm.pc = "idle" /\ cn.opened /\ Live
Budget == IF NBy("c") < MaxCommit THEN MaxAct ELSE MaxTail
Act == App /\ cm.n < Budget /\ cm' = [cm EXCEPT !.n = @ + 1]

(* --------------------------------- Init -------------------------------- *)
Init ==
  /\ ob = [o \in All |-> IF o = Root \/ o \in Range(Pre)
                         THEN [own |-> TRUE, cached |-> TRUE, flag |-> "ghost", serial |-> 0, st |-> GhostSt]
                         ELSE [own |-> FALSE, cached |-> FALSE, flag |-> "clean", serial |-> 0, st |-> St(V0, <<>>)]]
  /\ cn = [reg |-> <<>>, added |-> {}, creating |-> NoCre, modified |-> {Root}, joined |-> FALSE, opened |-> TRUE, start |-> 1]
  /\ tmp = NoTmp /\ sps = <<>>
  /\ hist = << [by |-> "c", w |-> [o \in All |-> IF o = Root THEN St(V0, Pre)
                                                  ELSE IF o \in Range(Pre) THEN St(V0, <<>>) ELSE Absent]] >>
  /\ cm = Idle
  /\ obs = ObsOf(hist, B, cm, {})

(* --------------------------- application actions ----------------------- *)
\* activation of a ghost (Connection.setstate)
Loadable(o) == ob[o].own /\ ob[o].flag = "ghost" /\ LoadStH(hist, B, o) # Unloadable
Loaded(b, o) == IF b.ob[o].flag = "ghost"
                THEN [b EXCEPT !.ob[o].flag = "clean", !.ob[o].st = LoadStH(hist, b, o), !.ob[o].serial = LoadSerialH(hist, b, o)]
                ELSE b
\* Connection.register (via _p_changed = True on a clean object of this connection)
Register(b, o) == IF o \in b.cn.added THEN b
                  ELSE [b EXCEPT !.cn.joined = TRUE, !.cn.reg = Append(@, o)]
Usable(o) == (~ob[o].own /\ ob[o].flag # "ghost" /\ ob[o].st # Gone) \/ (ob[o].own /\ (ob[o].flag # "ghost" \/ Loadable(o)))
Fresh(o) == ob[o].own \/ (ob[o].flag # "ghost" /\ ob[o].st # Gone)      \* not an object that lost its state or data
\* the application assigns a new state to o (ghosts are activated by the access)
Touch(o, f(_)) ==
  IF ~ob[o].own THEN Set([B EXCEPT !.ob[o].st = f(@)])
  ELSE LET b1 == Loaded(B, o)
           b2 == IF b1.ob[o].flag = "clean" THEN Register([b1 EXCEPT !.ob[o].flag = "changed"], o) ELSE b1
       IN Set([b2 EXCEPT !.ob[o].st = f(@)])

Modify(o, v) ==
  /\ Act /\ Usable(o) /\ SeenH(hist, B, o).v # v /\ (ob[o].own \/ "free" \in Ops)
  /\ Touch(o, LAMBDA s : [s EXCEPT !.v = v])
  /\ UNCHANGED <<sps, hist>> /\ SetObs({})

Link(p, o) ==
  /\ Act /\ <<p, o>> \in Edges /\ Usable(p) /\ Fresh(o) /\ o \notin Range(SeenH(hist, B, p).kids)
  /\ Touch(p, LAMBDA s : [s EXCEPT !.kids = Append(@, o)])
  /\ UNCHANGED <<sps, hist>> /\ SetObs({})

Unlink(p, o) ==
  /\ Act /\ <<p, o>> \in Edges /\ Usable(p) /\ o \in Range(SeenH(hist, B, p).kids)
  /\ Touch(p, LAMBDA s : [s EXCEPT !.kids = Without(@, o)])
  /\ UNCHANGED <<sps, hist>> /\ SetObs({})

Load(o) ==
  /\ Act /\ "load" \in Ops /\ Loadable(o)
  /\ Set(Loaded(B, o))
  /\ UNCHANGED <<sps, hist>> /\ SetObs({})

\* Connection.add(obj)
AddExplicit(o) ==
  /\ Act /\ "add" \in Ops /\ o \in Obj /\ ~ob[o].own /\ Fresh(o)
  /\ Set([B EXCEPT !.ob[o].own = TRUE, !.cn.joined = TRUE, !.cn.reg = Append(@, o), !.cn.added = @ \cup {o}])
  /\ UNCHANGED <<sps, hist>> /\ SetObs({})

(* -------------------------------- savepoints --------------------------- *)
SpRec(kind, b) == [kind |-> kind, pos |-> b.tmp.pos, index |-> b.tmp.index, cre |-> b.tmp.cre, blob |-> b.tmp.blob,
                   snap |-> SnapH(hist, b)]
\* transaction.savepoint(): a joined connection is asked for a savepoint; one that joins later gets an
\* AbortSavepoint (kind "abort": rolling back aborts it and makes it leave the transaction)
Savepoint ==
  /\ Act /\ "sp" \in Ops /\ Len(sps) < MaxSp
  /\ IF cn.joined
     THEN LET b == SavepointOp(B) IN Set(b) /\ sps' = Append(b.sps, SpRec("tmp", b))
     ELSE UNCHANGED <<ob, cn, tmp>> /\ sps' = Append(sps, SpRec("abort", B))
  /\ UNCHANGED hist /\ SetObs({})

\* Connection.importFile(f) of an export holding ONE object (state [V0, no children]): _register() joins, an
\* (optimistic) transaction savepoint runs Connection.savepoint(), whose _commit first copies the imported record
\* into the savepoint store under a fresh oid and then flushes the registered objects; get(oid) then makes a ghost in
\* the cache.  The model object o stands for the object importFile returns (o was not in use).
Unused(o) == ~ob[o].own /\ ob[o].flag = "clean" /\ ob[o].st = St(V0, <<>>) /\ \A p \in All : o \notin Range(ob[p].st.kids)
ImportInTxn(o) ==
  /\ Act /\ "imp" \in Ops /\ "sp" \in Ops /\ o \in Obj \ Blobs /\ Unused(o)
  /\ LET b0 == [B EXCEPT !.cn.joined = TRUE]
         b1 == SavepointOp(b0)
         cre == [b1.tmp.cre EXCEPT ![o] = IF ImportNotCreating THEN @ ELSE "i"]
         al == b1.tmp.alias
     IN /\ Set([b1 EXCEPT !.tmp.index[o] = St(V0, <<>>), !.tmp.pos = @ + 1, !.tmp.cre = cre,
                          !.ob[o] = [own |-> TRUE, cached |-> TRUE, flag |-> "ghost", serial |-> 0, st |-> GhostSt]])
        /\ sps' = IF al # 0 /\ al <= Len(b1.sps) THEN [b1.sps EXCEPT ![al].cre = cre] ELSE b1.sps
  /\ UNCHANGED hist /\ SetObs({})

\* transaction.savepoint() when the connection's savepoint() raises part-way: Transaction._cleanup calls abort()
\* (and tpc_abort(), which raises at once: no tpc_begin was made; swallowed), the transaction is marked failed and
\* the caller aborts it (a stutter for the connection, then the boundary)
SavepointRaises(f) ==
  /\ App /\ cm.n < Budget /\ "sp" \in Ops /\ "own" \in Ops /\ cn.joined /\ Len(sps) < MaxSp /\ f \notin Blobs
  /\ LET r == FlushFails(B, f) IN r.ok /\ Set(Boundary(AbortOp(r.b), hist))
  /\ sps' = <<>> /\ cm' = Idle /\ UNCHANGED hist /\ SetObs({})

\* Connection._rollback_savepoint(state)
RollbackOp(b, k) ==
  LET s == b.sps[k]
      after == {o \in CreSet(b.tmp.cre) : s.cre[o] = "-"}
      b1 == AbortRegistered(b, after)
      b2 == InvalidateCreating([b1 EXCEPT !.cn.reg = <<>>], after)
      b3 == [b2 EXCEPT !.tmp.pos = s.pos, !.tmp.index = s.index, !.tmp.cre = s.cre,
                       !.tmp.alias = IF AliasCreating THEN k ELSE 0,
                       !.tmp.blob = IF SpBlobByName THEN @ ELSE s.blob]
  IN InvalidateSet(b3, IdxSet(b.tmp.index))

\* what differs from the snapshot taken at the savepoint: ownership (or an object that cannot be loaded any more),
\* or the value shown on access
RollbackDiff(snap, b) ==
  LET now == SnapH(hist, b)
      D == {o \in All : now[o] # snap[o]}
      owner(o) == now[o].own # snap[o].own \/ now[o].st = Unloadable
  IN {[clause |-> IF owner(o) THEN "rollback-owner" ELSE "rollback-value", obj |-> o] : o \in D}
Rollback(k) ==
  /\ Act /\ k \in 1..Len(sps)
  /\ LET b == IF sps[k].kind = "tmp" THEN RollbackOp(B, k)
              ELSE IF cn.joined THEN AbortOp(B) ELSE B
     IN /\ Set(b) /\ sps' = SubSeq(b.sps, 1, k)
        /\ UNCHANGED hist /\ SetObs(RollbackDiff(sps[k].snap, b))

(* ---------------------------------- commit ----------------------------- *)
\* transaction.commit(): savepoints die, tpc_begin on every resource manager
Begin ==
  /\ App /\ cn.joined /\ NBy("c") < MaxCommit
  /\ cn' = [cn EXCEPT !.modified = {}, !.creating = NoCre]
  /\ cm' = [pc |-> "begun", todo |-> IF tmp.on THEN <<>> ELSE cn.reg, stack |-> <<>>, tx |-> EmptyTx, n |-> 0]
  \* the savepoints are dead, so is the sharing of a dict with one of them
  /\ sps' = <<>> /\ tmp' = [tmp EXCEPT !.alias = 0] /\ UNCHANGED <<ob, hist>> /\ SetObs({})

Storing == cm.pc = "begun" /\ ~tmp.on
NextTodo == SkipTodo(B, cm.todo)
HasNext == cm.stack # <<>> \/ NextTodo # <<>>
NextObj == IF cm.stack # <<>> THEN cm.stack[Len(cm.stack)] ELSE Head(NextTodo)
\* the storage raises ConflictError: the object was loaded at a serial that is no longer current
Conflict(o) == ob[o].serial # 0 /\ ob[o].serial # CurIdx(o, Len(hist))
AfterPick(o) == [cm EXCEPT !.stack = (IF cm.stack # <<>> THEN SubSeq(cm.stack, 1, Len(cm.stack) - 1) ELSE <<>>) \o NewKids(B, o),
                           !.todo = IF cm.stack # <<>> THEN cm.todo ELSE Tail(NextTodo)]

Store(o) ==
  /\ Storing /\ HasNext /\ o = NextObj /\ ~Conflict(o)
  /\ Set(Put(Pickle(B, o), o, FALSE))
  /\ cm' = [AfterPick(o) EXCEPT !.tx[o] = ob[o].st]
  /\ UNCHANGED <<sps, hist>> /\ SetObs({})

Stored ==
  /\ Storing /\ ~HasNext
  /\ cm' = [cm EXCEPT !.pc = "stored", !.todo = <<>>]
  /\ UNCHANGED <<ob, cn, tmp, sps, hist>> /\ SetObs({})

\* commit() with a savepoint store: savepoint() once more, then _commit_savepoint copies every record of the
\* savepoint store into the real storage and closes the store
SpConflicts(b) == {o \in IdxSet(b.tmp.index) : CurIdx(o, b.cn.start) # 0 /\ CurIdx(o, b.cn.start) # CurIdx(o, Len(hist))}
SpPrepared(b0) ==     \* after savepoint(): _storage = normal, _savepoint_storage = None, _modified/_creating filled
  LET b == IF InvalidateDoomed THEN b0
           ELSE [b0 EXCEPT !.ob = [o \in All |-> IF b0.tmp.cre[o] # "-" /\ b0.ob[o].cached THEN Revive(b0, o) ELSE b0.ob[o]]]
  IN    \* (a blob record: storeBlob, then self._cache.invalidate(oid))
  [Dangle(InvalidateSet(b, IdxSet(b.tmp.index) \cap Blobs))
     EXCEPT !.cn.modified = @ \cup IdxSet(b.tmp.index),
            !.cn.creating = [o \in All |-> IF b.tmp.cre[o] # "-" THEN b.tmp.cre[o] ELSE @[o]],
            !.tmp = NoTmp]
SpTx(b) == [o \in All |-> IF o \in Blobs /\ b.tmp.index[o] # Absent THEN St(b.tmp.blob[o], <<>>) ELSE b.tmp.index[o]]

CommitSp ==
  /\ cm.pc = "begun" /\ tmp.on
  /\ LET b == SavepointOp(B) IN
     /\ SpConflicts(b) = {}
     /\ Set(SpPrepared(b))
     /\ cm' = [cm EXCEPT !.pc = "stored", !.tx = SpTx(b)]
  /\ UNCHANGED <<sps, hist>> /\ SetObs({})

Vote ==
  /\ cm.pc = "stored"
  /\ cm' = [cm EXCEPT !.pc = "voted"]
  /\ UNCHANGED <<ob, cn, tmp, sps, hist>> /\ SetObs({})

\* Connection.tpc_finish: objects of _modified and _creating found in the cache and not ghosts become
\* up to date with the new serial
FinishOp(b, tid) ==
  LET X == b.cn.modified \cup CreSet(b.cn.creating)
  IN TpcCleanup([b EXCEPT !.ob = [o \in All |-> IF o \in X /\ b.ob[o].cached /\ b.ob[o].flag # "ghost"
                                                THEN [b.ob[o] EXCEPT !.flag = "clean", !.serial = tid] ELSE b.ob[o]]])
Finish ==
  /\ cm.pc = "voted"
  /\ hist' = Append(hist, [by |-> "c", w |-> cm.tx])
  /\ Set(Boundary(FinishOp(B, Len(hist) + 1), hist'))
  /\ cm' = Idle /\ UNCHANGED sps /\ SetObs({})

(* --------------------------- the ways a commit fails ------------------- *)
\* transaction._cleanup + afterCompletion, as seen by the caller of commit()
CleanupFail(b, voted) == Boundary(IF voted THEN TpcAbortOp(b) ELSE TpcAbortOp(AbortOp(b)), hist)
Failed(b, voted) == Set(CleanupFail(b, voted)) /\ cm' = Idle /\ sps' = <<>> /\ UNCHANGED hist /\ SetObs({})

\* a resource manager sorted before the connection raises in its tpc_begin
FailBeforeBegin ==
  /\ App /\ "rm" \in Ops /\ cn.joined
  /\ Set(Boundary(AbortOp(B), hist)) /\ sps' = <<>> /\ cm' = Idle /\ UNCHANGED hist /\ SetObs({})

\* the storage's own tpc_begin raises (FileStorage refuses a description / user / extension longer than 65535 bytes
\* after it took the commit lock): Connection.tpc_begin has reset _modified and _creating and registered the
\* transaction's metadata, so tpc_abort reaches the storage (which releases its lock)
BeginFails ==
  /\ App /\ "bf" \in Ops /\ cn.joined
  /\ Failed([B EXCEPT !.cn.modified = {}, !.cn.creating = NoCre], FALSE)

\* a commit fails (as FailBeforeBegin) and BEFORE aborting the application calls Connection.add(o): _register cannot
\* join the failed transaction and raises TransactionFailedError; then the application aborts
AddWhileFailed(o) ==
  /\ App /\ "awf" \in Ops /\ cn.joined /\ o \in Obj /\ ~ob[o].own /\ Fresh(o)
  /\ LET b == Boundary(AbortOp(B), hist)
     IN Set(IF AddBeforeJoin THEN [b EXCEPT !.ob[o].own = TRUE] ELSE b)
  /\ sps' = <<>> /\ cm' = Idle /\ UNCHANGED hist /\ SetObs({})

\* The connection has NOT joined; a commit of the transaction fails (only other resource managers of the same
\* transaction manager take part: the connection is a synchronizer, so it sees the boundary), and BEFORE aborting the
\* application assigns to an attribute of an object of this connection: the object is activated, Connection.register
\* cannot join the failed transaction (TransactionFailedError; persistent's setattr registers BEFORE it stores, so
\* nothing changes) and the connection must NOT believe it is joined.  Then the application aborts.
ModifyWhileFailed(o, v) ==
  /\ App /\ "mwf" \in Ops /\ ~cn.joined /\ o \in Obj \ Blobs /\ ob[o].own
  /\ LET b == Boundary(B, hist) IN
     /\ b.ob[o].flag # "ghost" \/ LoadStH(hist, b, o) # Unloadable
     /\ SeenH(hist, b, o).v # v
     /\ Set(Loaded(b, o))
  /\ sps' = <<>> /\ cm' = Idle /\ UNCHANGED hist /\ SetObs({})

\* ... after the connection's tpc_begin, before it stored anything
FailBegun ==
  /\ cm.pc = "begun" /\ "rm" \in Ops /\ cm.stack = <<>> /\ cm.tx = EmptyTx /\ (tmp.on \/ cm.todo = cn.reg)
  /\ Failed(B, FALSE)

\* the k-th store raises: pickling (an unpicklable value at the end of the state: every child was seen
\* by persistent_id first) or the storage (ConflictError).
StoreFails(o) ==
  LET b1 == Pickle(B, o)
      c1 == AfterPick(o)
  IN Failed(DropUnstored(b1, Unstored(b1, o, c1.stack)), FALSE)
StoreRaises(o) == Storing /\ "own" \in Ops /\ HasNext /\ o = NextObj /\ ~Conflict(o) /\ StoreFails(o)
StoreConflict(o) == Storing /\ HasNext /\ o = NextObj /\ Conflict(o) /\ StoreFails(o)

\* commit() with a savepoint store: the savepoint() it takes first raises part-way
CommitSpRaises(f) ==
  /\ cm.pc = "begun" /\ tmp.on /\ "own" \in Ops /\ f \notin Blobs
  /\ LET r == FlushFails(B, f) IN r.ok /\ Failed(r.b, FALSE)

\* ... the copy loop of _commit_savepoint raises at the record of object o (a storage error other than a conflict:
\* injected at the k-th store).  _modified and _creating were filled BEFORE the loop, so whatever the position of
\* the failing record every object of the savepoint store is invalidated / disowned by the clean-up.
CommitSpStoreRaises(o) ==
  /\ cm.pc = "begun" /\ tmp.on /\ "own" \in Ops /\ o \notin Blobs
  /\ LET b == SavepointOp(B) IN
     o \in IdxSet(b.tmp.index) /\ SpConflicts(b) = {} /\ Failed(SpPrepared(b), FALSE)

CommitSpConflict ==
  /\ cm.pc = "begun" /\ tmp.on
  /\ LET b == SavepointOp(B) IN SpConflicts(b) # {} /\ Failed(SpPrepared(b), FALSE)

\* ... a later resource manager's commit / an earlier one's tpc_vote raises: everything stored, not voted
FailStored == cm.pc = "stored" /\ "rm" \in Ops /\ Failed(B, FALSE)
\* ... a later resource manager's tpc_vote / an earlier one's tpc_finish raises: only tpc_abort is called
FailVoted == cm.pc = "voted" /\ "rm" \in Ops /\ Failed(B, TRUE)
\* ... a later resource manager's tpc_finish raises: this connection has committed; tpc_abort follows
FinishThenFail ==
  /\ cm.pc = "voted" /\ "rm" \in Ops
  /\ hist' = Append(hist, [by |-> "c", w |-> cm.tx])
  /\ Set(Boundary(TpcAbortOp(FinishOp(B, Len(hist) + 1)), hist'))
  /\ cm' = Idle /\ UNCHANGED sps /\ SetObs({})

(* ------------------------ abort, close, reopen, other ------------------ *)
Abort ==
  /\ App
  /\ Set(Boundary(IF cn.joined THEN AbortOp(B) ELSE B, hist))
  /\ sps' = <<>> /\ cm' = Idle /\ UNCHANGED hist /\ SetObs({})

\* Connection.close(): refused while joined (nothing changes)
Close ==
  /\ App /\ "close" \in Ops /\ (sps = <<>> \/ cn.joined)
  /\ cn' = IF cn.joined THEN cn ELSE [cn EXCEPT !.opened = FALSE]
  /\ UNCHANGED <<ob, tmp, sps, hist, cm>> /\ SetObs({})

Reopen ==
  /\ ~cn.opened /\ cm.pc = "idle"
  /\ Set(Boundary([B EXCEPT !.cn.opened = TRUE], hist))
  /\ UNCHANGED <<sps, hist, cm>> /\ SetObs({})

\* the second connection commits a new value for a committed object
OtherCommit(o) ==
  /\ "other" \in Ops /\ cm.pc = "idle" /\ Live /\ o \in All \ Blobs
  /\ NBy("o") < MaxOther
  /\ CurIdx(o, Len(hist)) # 0
  /\ hist' = Append(hist, [by |-> "o", w |-> [p \in All |-> IF p = o THEN St(OtherVal, CurSt(o, Len(hist)).kids) ELSE Absent]])
  /\ UNCHANGED <<ob, cn, tmp, sps, cm>> /\ SetObs({})

Next ==
  \/ \E o \in All : (\E v \in Val : Modify(o, v) \/ ModifyWhileFailed(o, v)) \/ Load(o) \/ AddExplicit(o) \/ OtherCommit(o)
                    \/ Store(o) \/ StoreRaises(o) \/ StoreConflict(o) \/ SavepointRaises(o) \/ CommitSpRaises(o)
                    \/ CommitSpStoreRaises(o) \/ AddWhileFailed(o) \/ ImportInTxn(o)
  \/ \E e \in Edges : Link(e[1], e[2]) \/ Unlink(e[1], e[2])
  \/ Savepoint \/ (\E k \in 1..MaxSp : Rollback(k))
  \/ Begin \/ Stored \/ CommitSp \/ CommitSpConflict \/ Vote \/ Finish
  \/ FailBeforeBegin \/ BeginFails \/ FailBegun \/ FailStored \/ FailVoted \/ FinishThenFail
  \/ Abort \/ Close \/ Reopen

Spec == Init /\ [][Next]_vars

(* ------------------------------- properties ---------------------------- *)
Flags == {"ghost", "clean", "changed"}
TypeOK ==
  /\ \A o \in All : ob[o].own \in BOOLEAN /\ ob[o].cached \in BOOLEAN /\ ob[o].flag \in Flags /\ ob[o].serial \in 0..MaxHist
  /\ \A o \in All : ob[o].cached => ob[o].own
  /\ \A o \in All : (ob[o].flag = "ghost") = (ob[o].st = GhostSt)
  /\ cn.added \subseteq Obj /\ cn.modified \subseteq All /\ Range(cn.reg) \subseteq All
  /\ cm.pc \in {"idle", "begun", "stored", "voted"}
  /\ Len(sps) <= MaxSp /\ Len(hist) <= MaxHist /\ cn.start <= Len(hist)
ObsDerived == obs.seen = [o \in All |-> SeenH(hist, B, o)] /\ obs.pub = [o \in All |-> CurSt(o, Len(hist))]
                /\ Mon(hist, B, cm) \subseteq obs.mon

Clause(c) == {m \in obs.mon : m.clause = c}
\* C11
NoOwnedUncommitted == Clause("owned-uncommitted") = {}
NoStateLost == Clause("state-lost") = {}
NewDisowned == NoOwnedUncommitted /\ NoStateLost
AbortRestores == Clause("stale") = {} /\ Clause("dirty-idle") = {}         \* also: commit stored the final states
CleanAfterCommit == Clause("serial") = {}
NoStateAcrossReuse == Clause("leftover") = {}                               \* also: NothingLeftBehind (C12)
CloseOnlyOutsideTxn == Clause("closed-joined") = {}
\* everything dirty, added or newly reachable at Begin is in the one transaction Finish appends
CommittedTogether ==
  [][(cm.pc = "voted" /\ Len(hist') = Len(hist) + 1) =>
       \A o \in All : (ob[o].own /\ (ob[o].flag = "changed" \/ CurIdx(o, cn.start) = 0)) => hist'[Len(hist')].w[o] # Absent]_vars
\* C12
RollbackOwner == Clause("rollback-owner") = {}
RollbackValue == Clause("rollback-value") = {}
RollbackRestores == RollbackOwner /\ RollbackValue
RollbackRestoresAct == [][\A k \in 1..Len(sps) : Rollback(k) => SnapH(hist, [ob |-> ob', cn |-> cn', tmp |-> tmp', sps |-> sps']) = sps[k].snap]_vars
\* nothing becomes visible to another connection except by the final commit (or the other one's own commit)
SavepointInvisible == [][hist' = hist \/ cm.pc = "voted" \/ (cm.pc = "idle" /\ hist'[Len(hist')].by = "o")]_vars
CommitStoresFinalStates ==
  [][(cm.pc = "voted" /\ cm'.pc = "idle" /\ Len(hist') = Len(hist) + 1) =>
       \A o \in All : ob'[o].own => SeenH(hist', [ob |-> ob', cn |-> cn', tmp |-> tmp', sps |-> sps'], o) = CurStH(hist', o, Len(hist'))]_vars
=============================================================================
