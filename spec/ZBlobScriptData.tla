-------------------------- MODULE ZBlobScriptData --------------------------
(* Placeholder: zv/drivers/blob_scripts.py writes the scripts of a run into a module of this name in its
   scratch directory (TheScripts == << script, ... >>, a script being a sequence of call records). *)
EXTENDS Integers
TheScripts == << >>
=============================================================================
