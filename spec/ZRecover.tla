------------------------------ MODULE ZRecover ------------------------------
(***************************************************************************)
(* Copying and recovering a storage (C17): pure operators.                 *)
(*                                                                         *)
(* Part (a)  CopyHist(H): transcription, at the level of histories, of     *)
(*   BaseStorage.copy (the body of copyTransactionsFrom; the blob variant  *)
(*   blob.copyTransactionsFromTo runs the same loop) and of                *)
(*   FileStorage.restore / _data_find, record by record.                   *)
(*   CopyAgrees(H): the copy answers every revision query as the source.   *)
(*                                                                         *)
(* Part (b)  a damaged data file at transaction granularity and what       *)
(*   fsrecover may put out for it: the three clauses of the property as    *)
(*   operators over (file, output).  The tool's loop that is checked       *)
(*   against them is ZRecoverTool; its scan() is ZRecoverScan.             *)
(*                                                                         *)
(* No variables here, so that the module can be combined with ZStorage     *)
(* (MCZRecoverCopy) and with the tool model (ZRecoverTool).                *)
(***************************************************************************)
EXTENDS ZPackOps

(* ------------------------------ (a) copy ------------------------------- *)
\* a record as restore() writes it (ghost fields of ZStorage records: no writer's base, not resolved)
CRec(o, op, d, back) == [oid |-> o, op |-> op, d |-> d, back |-> back, base |-> -1, res |-> FALSE]

\* FileStorage.restore(oid, serial, data, '', prev_txn, txn) on the destination whose committed history is D:
\*   prev_pos = _data_find(_txn_find(prev_txn), oid, data) when prev_txn is given and found
\*   _data_find: the LAST record for oid in that transaction; a record without data (back-pointer or
\*   zero) is trusted, a data record must hold exactly `data`
\*   prev_pos # 0: write a back-pointer; else data None: write a zero back-pointer; else write the data
RestoreFound(D, o, d, prev) ==
  LET p == TidPos(D, prev)
  IN /\ prev # 0 /\ p # 0 /\ Writes(D, p, o)
     /\ (RecOf(D, p, o).op = "data" => (d # Gone /\ RecOf(D, p, o).d = d))
RestoreRec(D, o, d, prev) ==
  IF RestoreFound(D, o, d, prev) THEN CRec(o, "back", NoD, prev)
  ELSE IF d = Gone THEN CRec(o, "zero", NoD, 0)
  ELSE CRec(o, "data", d, 0)
\* _data_find evaluates len(None) when the hinted record holds data and the iterator reported None
RestoreTypeError(D, o, d, prev) ==
  LET p == TidPos(D, prev)
  IN prev # 0 /\ p # 0 /\ Writes(D, p, o) /\ RecOf(D, p, o).op = "data" /\ d = Gone

\* copy(): for every transaction the source iterator yields: tpc_begin(txn, tid, status), restore every
\* record with the data and data_txn the iterator reports (IterRec), tpc_vote, tpc_finish.  A tid that is
\* not later than the previous one is replaced by previous + 1 (never happens for a source whose tids
\* increase, ZStorage!TidsStrictlyIncrease).
CopyTid(D, t) == IF D # <<>> /\ t <= LastTid(D) THEN LastTid(D) + 1 ELSE t
CopyTxn(H, D, T) ==
  [tid |-> CopyTid(D, T.tid), status |-> T.status, meta |-> T.meta,
   recs |-> [j \in 1..Len(T.recs) |->
               LET it == IterRec(H, T.recs[j]) IN RestoreRec(D, it.oid, it.d, it.dtxn)]]
RECURSIVE CopyFrom(_, _, _)
CopyFrom(H, k, D) == IF k > Len(H) THEN D ELSE CopyFrom(H, k + 1, Append(D, CopyTxn(H, D, H[k])))
CopyHist(H) == CopyFrom(H, 1, <<>>)

\* the prefixes of the copy (destination history when transaction k is being restored)
RECURSIVE CopyDefinedFrom(_, _, _)
CopyDefinedFrom(H, k, D) ==
  IF k > Len(H) THEN TRUE
  ELSE /\ \A j \in 1..Len(H[k].recs) :
            LET it == IterRec(H, H[k].recs[j]) IN ~RestoreTypeError(D, it.oid, it.d, it.dtxn)
       /\ CopyDefinedFrom(H, k + 1, Append(D, CopyTxn(H, D, H[k])))
CopyDefined(H) == CopyDefinedFrom(H, 1, <<>>)

\* records without the ghost fields
StripRec(r) == [oid |-> r.oid, op |-> r.op, d |-> r.d, back |-> r.back]
StripHist(H) == [i \in 1..Len(H) |-> [tid |-> H[i].tid, status |-> H[i].status, meta |-> H[i].meta,
                                      recs |-> [j \in 1..Len(H[i].recs) |-> StripRec(H[i].recs[j])]]]
\* C17 (a): same transaction ids, status, metadata, records, un-creations - every answer of the query table
CopyAgrees(H, Oids) == ObsTable(CopyHist(H), Oids) = ObsTable(H, Oids)
\* and, stronger, the same kind of record everywhere (data stays data, a back-pointer stays a back-pointer)
CopyExact(H) == StripHist(CopyHist(H)) = StripHist(H)

(* ------------------- (b) damaged file, allowed output ------------------ *)
(* A data file is a sequence of transaction extents.  Extent i:                                         *)
(*   [s, e]   first byte and one past the last byte (the redundant length included)                     *)
(*   h        one past the transaction header incl. user/description/extension                          *)
(*   deps     byte ranges <<lo, hi>> of the earlier records its back-pointers lead through              *)
(*   dtx      the earlier transactions (indexes) its back-pointer records name as data_txn              *)
(* size is the length of the file (smaller than the last e after a truncation); [lo, hi) is the damaged *)
(* byte range (lo = hi: none; a truncation at p is size = p with [p, old size) damaged).                *)
Ovl(a, b, lo, hi) == lo < hi /\ a < hi /\ lo < b            \* [a, b) meets [lo, hi)
Overlaps(F, i) == Ovl(F.ext[i].s, F.ext[i].e, F.lo, F.hi)
\* the transaction's own bytes or bytes its back-pointers lead through are damaged
Touched(F, i) == Overlaps(F, i) \/ \E r \in F.ext[i].deps : Ovl(r[1], r[2], F.lo, F.hi)
EndsBeforeDamage(F, i) == F.lo < F.hi => F.ext[i].e <= F.lo
NT(F) == Len(F.ext)

(* The output is a sequence of [src, same]: the input transaction (index) whose header the tool read     *)
(* when it wrote that output transaction (0: no input transaction starts there) and whether id, status,  *)
(* metadata and every record (oid, data) are unchanged.                                                  *)
OnlyInput(out) == \A k \in 1..Len(out) : out[k].src # 0
Ordered(out) == \A k \in 1..Len(out) : \A m \in 1..Len(out) : k < m => out[k].src < out[m].src
UntouchedUnchanged(F, out) == \A k \in 1..Len(out) : (out[k].src # 0 /\ ~Touched(F, out[k].src)) => out[k].same
OutputIsOrderedSubsequenceOfInput(F, out) == OnlyInput(out) /\ Ordered(out) /\ UntouchedUnchanged(F, out)
PrefixBeforeDamageRecovered(F, out) ==
  \A i \in 1..NT(F) : EndsBeforeDamage(F, i) => \E k \in 1..Len(out) : out[k].src = i /\ out[k].same
\* an undamaged file comes out identical
UndamagedIdentical(F, out) ==
  F.lo = F.hi => /\ Len(out) = NT(F) /\ \A k \in 1..Len(out) : out[k].src = k /\ out[k].same
=============================================================================
