------------------------------ MODULE ZRecover ------------------------------
(***************************************************************************)
(* Copying and recovering a storage (C17): pure operators.                 *)
(*                                                                         *)
(* Part (a)  CopyHist(H): transcription, at the level of histories, of     *)
(*   BaseStorage.copy (the body of copyTransactionsFrom; the blob variant  *)
(*   blob.copyTransactionsFromTo runs the same loop) and of                *)
(*   FileStorage.restore / _data_find, record by record.                   *)
(*   CopyAgrees(H): the copy answers every revision query as the source.   *)
(*                                                                         *)
(* Part (a') CopyRange(H, a, ...): the same loop over src.iterator(start),  *)
(*   with the two deviations of the code behind Boolean parameters.        *)
(*                                                                         *)
(* Part (b)  a damaged data file at transaction granularity and what       *)
(*   fsrecover may put out for it: the three clauses of the property as    *)
(*   operators over (file, output).  The tool's loop that is checked       *)
(*   against them is ZRecoverTool; its scan() is ZRecoverScan.             *)
(*                                                                         *)
(* No variables here, so that the module can be combined with ZStorage     *)
(* (MCZRecoverCopy) and with the tool model (ZRecoverTool).                *)
(***************************************************************************)
EXTENDS ZPackOps

(* ------------------------------ (a) copy ------------------------------- *)
\* a record as restore() writes it (ghost fields of ZStorage records: no writer's base, not resolved)
CRec(o, op, d, back) == [oid |-> o, op |-> op, d |-> d, back |-> back, base |-> -1, res |-> FALSE]

\* FileStorage.restore(oid, serial, data, '', prev_txn, txn) on the destination whose committed history is D:
\*   prev_pos = _data_find(_txn_find(prev_txn), oid, data) when prev_txn is given and found
\*   _data_find: the LAST record for oid in that transaction; a record without data (back-pointer or
\*   zero) is trusted, a data record must hold exactly `data`
\*   prev_pos # 0: write a back-pointer; else data None: write a zero back-pointer; else write the data
RestoreFound(D, o, d, prev) ==
  LET p == TidPos(D, prev)
  IN /\ prev # 0 /\ p # 0 /\ Writes(D, p, o)
     /\ (RecOf(D, p, o).op = "data" => (d # Gone /\ RecOf(D, p, o).d = d))
RestoreRec(D, o, d, prev) ==
  IF RestoreFound(D, o, d, prev) THEN CRec(o, "back", NoD, prev)
  ELSE IF d = Gone THEN CRec(o, "zero", NoD, 0)
  ELSE CRec(o, "data", d, 0)
\* _data_find evaluates len(None) when the hinted record holds data and the iterator reported None
RestoreTypeError(D, o, d, prev) ==
  LET p == TidPos(D, prev)
  IN prev # 0 /\ p # 0 /\ Writes(D, p, o) /\ RecOf(D, p, o).op = "data" /\ d = Gone

\* copy(): for every transaction the source iterator yields: tpc_begin(txn, tid, status), restore every
\* record with the data and data_txn the iterator reports (IterRec), tpc_vote, tpc_finish.  A tid that is
\* not later than the previous one is replaced by previous + 1 (never happens for a source whose tids
\* increase, ZStorage!TidsStrictlyIncrease).
CopyTid(D, t) == IF D # <<>> /\ t <= LastTid(D) THEN LastTid(D) + 1 ELSE t
CopyTxn(H, D, T) ==
  [tid |-> CopyTid(D, T.tid), status |-> T.status, meta |-> T.meta,
   recs |-> [j \in 1..Len(T.recs) |->
               LET it == IterRec(H, T.recs[j]) IN RestoreRec(D, it.oid, it.d, it.dtxn)]]
RECURSIVE CopyFrom(_, _, _)
CopyFrom(H, k, D) == IF k > Len(H) THEN D ELSE CopyFrom(H, k + 1, Append(D, CopyTxn(H, D, H[k])))
CopyHist(H) == CopyFrom(H, 1, <<>>)

\* the prefixes of the copy (destination history when transaction k is being restored)
RECURSIVE CopyDefinedFrom(_, _, _)
CopyDefinedFrom(H, k, D) ==
  IF k > Len(H) THEN TRUE
  ELSE /\ \A j \in 1..Len(H[k].recs) :
            LET it == IterRec(H, H[k].recs[j]) IN ~RestoreTypeError(D, it.oid, it.d, it.dtxn)
       /\ CopyDefinedFrom(H, k + 1, Append(D, CopyTxn(H, D, H[k])))
CopyDefined(H) == CopyDefinedFrom(H, 1, <<>>)

\* records without the ghost fields
StripRec(r) == [oid |-> r.oid, op |-> r.op, d |-> r.d, back |-> r.back]
StripHist(H) == [i \in 1..Len(H) |-> [tid |-> H[i].tid, status |-> H[i].status, meta |-> H[i].meta,
                                      recs |-> [j \in 1..Len(H[i].recs) |-> StripRec(H[i].recs[j])]]]
\* C17 (a): same transaction ids, status, metadata, records, un-creations - every answer of the query table
CopyAgrees(H, Oids) == ObsTable(CopyHist(H), Oids) = ObsTable(H, Oids)
\* and, stronger, the same kind of record everywhere (data stays data, a back-pointer stays a back-pointer)
CopyExact(H) == StripHist(CopyHist(H)) = StripHist(H)

(* ----------------------- (a') copy of a range --------------------------- *)
(* dst.copyTransactionsFrom(src.iterator(start)): the loop of copy() over the transactions with tid >= start.  *)
(* The records carry the data and data_txn the iterator reports from the WHOLE source, so a back-pointer       *)
(* record may name a transaction that is not in the destination.  restore() documents prev_txn as a hint that  *)
(* is ignored when the transaction does not exist (RestoreFound is FALSE: the data is written).                *)
(* Two deviations of the code from that are behind Boolean parameters:                                         *)
(*   hintRaises  restore() looks the hint up with _txn_find, which raises UndoError("Invalid transaction id")  *)
(*               when there is no such transaction                                                             *)
(*   noLoadBlob  a blob-enabled destination copies with blob.copyTransactionsFromTo, which calls               *)
(*               source.loadBlob for a record that holds a blob - and a FileIterator has no loadBlob           *)
(* blobs is the set of oids whose records are blob records (a matter of concretisation: the class).            *)
RestoreRaises(D, prev) == prev # 0 /\ TidPos(D, prev) = 0
RecOutcome(D, it, blobs, hintRaises, noLoadBlob) ==
  IF noLoadBlob /\ it.oid \in blobs /\ it.d # Gone THEN "AttributeError"       \* is_blob_record(data): loadBlob
  ELSE IF hintRaises /\ RestoreRaises(D, it.dtxn) THEN "UndoError"
  ELSE "ok"
RECURSIVE TxnOutcome(_, _, _, _, _, _, _)
TxnOutcome(H, D, T, j, blobs, hintRaises, noLoadBlob) ==
  IF j > Len(T.recs) THEN "ok"
  ELSE LET o == RecOutcome(D, IterRec(H, T.recs[j]), blobs, hintRaises, noLoadBlob)
       IN IF o # "ok" THEN o ELSE TxnOutcome(H, D, T, j + 1, blobs, hintRaises, noLoadBlob)
RECURSIVE RangeCopyFrom(_, _, _, _, _, _)
RangeCopyFrom(H, k, D, blobs, hintRaises, noLoadBlob) ==
  IF k > Len(H) THEN [out |-> "ok", h |-> D]
  ELSE LET o == TxnOutcome(H, D, H[k], 1, blobs, hintRaises, noLoadBlob)
       IN IF o # "ok" THEN [out |-> o, h |-> D]
          ELSE RangeCopyFrom(H, k + 1, Append(D, CopyTxn(H, D, H[k])), blobs, hintRaises, noLoadBlob)
FirstFrom(H, a) == Cardinality({i \in 1..Len(H) : H[i].tid < a}) + 1
CopyRange(H, a, blobs, hintRaises, noLoadBlob) == RangeCopyFrom(H, FirstFrom(H, a), <<>>, blobs, hintRaises, noLoadBlob)
\* what the property demands of the copy of a range: the transactions of the range as the source lists them
\* (ids, status, metadata, records with their data); data_txn is reported where the transaction it names is
\* in the range as well
RangeView(H, a) ==
  LET v == IterView(H)
      R == SelectSeq(v, LAMBDA t : t.tid >= a)
  IN [i \in 1..Len(R) |-> [tid |-> R[i].tid, status |-> R[i].status, meta |-> R[i].meta,
                            recs |-> [j \in 1..Len(R[i].recs) |->
                                       [oid |-> R[i].recs[j].oid, d |-> R[i].recs[j].d,
                                        dtxn |-> IF R[i].recs[j].dtxn >= a THEN R[i].recs[j].dtxn ELSE 0]]]]
RangeCopyAgrees(H, a, blobs, hintRaises, noLoadBlob) ==
  LET r == CopyRange(H, a, blobs, hintRaises, noLoadBlob)
  IN r.out = "ok" /\ IterView(r.h) = RangeView(H, a)
RangeStarts(H) == {1} \cup {H[i].tid : i \in 1..Len(H)} \cup {H[i].tid + 1 : i \in 1..Len(H)}

(* ------------------- (b) damaged file, allowed output ------------------ *)
(* A data file is a sequence of transaction extents.  Extent i:                                         *)
(*   [s, e]   first byte and one past the last byte (the redundant length included)                     *)
(*   h        one past the transaction header incl. user/description/extension                          *)
(*   deps     byte ranges <<lo, hi>> of the earlier records its back-pointers lead through              *)
(*   dtx      the earlier transactions (indexes) its back-pointer records name as data_txn              *)
(* size is the length of the file (smaller than the last e after a truncation); [lo, hi) is the damaged *)
(* byte range (lo = hi: none; a truncation at p is size = p with [p, old size) damaged).                *)
Ovl(a, b, lo, hi) == lo < hi /\ a < hi /\ lo < b            \* [a, b) meets [lo, hi)
Overlaps(F, i) == Ovl(F.ext[i].s, F.ext[i].e, F.lo, F.hi)
\* the transaction's own bytes or bytes its back-pointers lead through are damaged
Touched(F, i) == Overlaps(F, i) \/ \E r \in F.ext[i].deps : Ovl(r[1], r[2], F.lo, F.hi)
EndsBeforeDamage(F, i) == F.lo < F.hi => F.ext[i].e <= F.lo
NT(F) == Len(F.ext)

(* The output is a sequence of [src, same, whole]: the input transaction (index) whose header the tool   *)
(* read when it wrote that output transaction (0: no input transaction starts there); whether id,        *)
(* status, metadata and every record (oid, data) are unchanged; whether it has as many records as the    *)
(* input transaction.  A transaction that overlaps the damage may come out with altered bytes (the       *)
(* format has no checksum), but a transaction put out under the input's id with only some of its records *)
(* is not a transaction of the input: "record for record".                                               *)
OnlyInput(out) == \A k \in 1..Len(out) : out[k].src # 0
WholeTransactions(out) == \A k \in 1..Len(out) : out[k].whole
Ordered(out) == \A k \in 1..Len(out) : \A m \in 1..Len(out) : k < m => out[k].src < out[m].src
UntouchedUnchanged(F, out) == \A k \in 1..Len(out) : (out[k].src # 0 /\ ~Touched(F, out[k].src)) => out[k].same
OutputIsOrderedSubsequenceOfInput(F, out) ==
  OnlyInput(out) /\ Ordered(out) /\ UntouchedUnchanged(F, out) /\ WholeTransactions(out)
PrefixBeforeDamageRecovered(F, out) ==
  \A i \in 1..NT(F) : EndsBeforeDamage(F, i) => \E k \in 1..Len(out) : out[k].src = i /\ out[k].same
\* an undamaged file comes out identical
UndamagedIdentical(F, out) ==
  F.lo = F.hi => /\ Len(out) = NT(F) /\ \A k \in 1..Len(out) : out[k].src = k /\ out[k].same
=============================================================================
