------------------------------ MODULE ZStorage ------------------------------
(***************************************************************************)
(* Storage-level two-phase commit of FileStorage (Kind = "file") and       *)
(* MappingStorage (Kind = "mapping"), transcribed from                     *)
(*   BaseStorage.tpc_begin/tpc_abort, FileStorage.store/deleteObject/      *)
(*   restore/undo/_transactionalUndoRecord/tpc_vote/tpc_finish,            *)
(*   ConflictResolution.tryToResolveConflict, MappingStorage.*             *)
(* One action per storage API call (each call runs under the storage lock, *)
(* so a call is one critical section).  Every action records its outcome   *)
(* in `res` so that a replay can compare what the real call returned or    *)
(* raised.  `obs` is a function of `hist` (no extra states): the answer of *)
(* every revision query, printed by TLC with every state of a behaviour.   *)
(***************************************************************************)
EXTENDS ZPackOps

CONSTANTS Kind,        \* "file" | "mapping"
          NOid,        \* oids are 0..NOid-1 (0 = root)
          AtomVals,    \* e.g. {"v1","v2"}
          RefSets,     \* reference sets a stored state may carry, e.g. {{}}
          Metas,       \* transaction metadata choices (concretised by the driver)
          Client,      \* transaction identities
          MaxTxn,      \* bound on committed transactions
          MaxRecs,     \* bound on records staged per transaction
          MaxClock, K, \* clock range 1..MaxClock; tid = second * K + bump
          MaxUndo,     \* bound on undo() calls per transaction
          Cls          \* class kind per oid: "plain" | "merge" | "mergefail" | "broken"

VARIABLES hist,        \* committed history
          txn,         \* the transaction in two-phase commit, or NoTxn
          lastTs,      \* last timestamp handed out (BaseStorage._ts)
          clock,       \* wall clock, seconds
          maxOid,      \* oid counter
          issued,      \* ghost: oids handed out by new_oid since open
          packed,      \* time of the last pack (0: never)
          ltid,        \* what lastTransaction() reports (_ltid: not recomputed by a pack)
          begun,       \* number of transactions begun so far (bounds the model: aborted ones count)
          res,         \* outcome of the last call
          obs          \* derived: ObsTable(hist)

vars == <<hist, txn, lastTs, clock, maxOid, issued, begun, packed, ltid, res, obs>>

Oids == 0..(NOid - 1)
NoTxn == [owner |-> "none"]
InTxn(c) == txn.owner = c
OK(what) == [call |-> what, out |-> "ok"]
Out(what, o) == [call |-> what, out |-> o]
IsFile == Kind = "file"
Datums == {[v |-> <<a>>, refs |-> R] : a \in AtomVals, R \in RefSets}

NewTid(clk, last) == IF clk * K > last THEN clk * K ELSE last + 1
\* MappingStorage: newTid(maxKey(transactions)) - the committed history decides, not a counter
\* (mapping: later than the last transaction committed, which a pack may have removed from the history meanwhile)
BeginTidAt(clk) == IF IsFile THEN NewTid(clk, lastTs)
                   ELSE NewTid(clk, IF ltid > LastTid(hist) THEN ltid ELSE LastTid(hist))

Init == /\ hist = <<>> /\ txn = NoTxn
        /\ clock = 1
        /\ lastTs = 0        \* FileStorage.__init__: _ts = TimeStamp(last committed tid), z64 when empty
        /\ maxOid = 0 /\ issued = {} /\ begun = 0 /\ packed = <<0, 0, TRUE>> /\ ltid = 0
        /\ res = OK("open")
        /\ obs = ObsTable(<<>>, Oids)

Same(v) == UNCHANGED v

(* ---------------------------- two-phase commit ------------------------- *)
\* the wall clock is sampled at tpc_begin only, so its movement (advance, stall, step back) is
\* folded into Begin: clk is the clock value the call observes
Begin(c, m, clk) ==
  /\ txn = NoTxn /\ begun < MaxTxn /\ begun' = begun + 1
  /\ clk \in {clock - 1, clock, clock + 1} \cap (1..MaxClock)
  /\ clock' = clk
  /\ LET t == BeginTidAt(clk)
         \* FileStorage._begin refuses metadata longer than 65535 bytes - after the commit lock was
         \* taken and the transaction registered, so the caller has to abort
         bad == IsFile /\ m = "mlong"
     IN
     /\ txn' = [owner |-> c, tid |-> t, phase |-> IF bad THEN "failed" ELSE "begun", meta |-> m,
                 staged |-> <<>>, resolved |-> {}, undone |-> <<>>, onlyUndo |-> TRUE]
     /\ lastTs' = IF IsFile THEN t ELSE lastTs
     /\ res' = IF bad THEN Out("begin", "FileStorageError") ELSE OK("begin")
  /\ UNCHANGED <<hist, maxOid, issued, packed, ltid, obs>>

Active(c) == InTxn(c) /\ txn.phase = "begun"
Stage(r) == [txn EXCEPT !.staged = Append(@, r), !.onlyUndo = FALSE]
Fail == [txn EXCEPT !.phase = "failed"]       \* after an error the caller must abort
DataRec(o, d, base, resolved) == [oid |-> o, op |-> "data", d |-> d, back |-> 0, base |-> base, res |-> resolved]
BackRec(o, b) == [oid |-> o, op |-> "back", d |-> NoD, back |-> b, base |-> -1, res |-> FALSE]
ZeroRec(o, base) == [oid |-> o, op |-> "zero", d |-> NoD, back |-> 0, base |-> base, res |-> FALSE]

\* serials a client can hold for o: 0 (new object) or the tid of a committed revision
SerialsOf(o) == {0} \cup {hist[i].tid : i \in Idx(hist, o)}

Resolvable(o, serial) ==
  /\ IsFile /\ Cls[o] = "merge"
  /\ LoadSerial(hist, o, serial).k = "rev"
  /\ Load(hist, o).k = "rev"

\* mapping: a later store of the same oid in one transaction replaces the earlier one
StageStore(o, r) == IF IsFile THEN Stage(r)
                    ELSE [txn EXCEPT !.staged = SelectSeq(@, LAMBDA x : x.oid # o) \o <<r>>, !.onlyUndo = FALSE]

\* records are staged in non-decreasing oid order (a symmetry reduction: the order of stores to
\* different oids is immaterial to every answer; repeated stores to one oid are kept)
InOrder(o) == LET n == Len(txn.staged) IN IF n = 0 THEN TRUE ELSE txn.staged[n].oid <= o
Store(c, o, serial, d) ==
  /\ Active(c) /\ Len(txn.staged) < MaxRecs /\ InOrder(o)
  /\ serial \in SerialsOf(o)
  /\ LET cur == CurTid(hist, o) IN
     IF cur = 0 \/ serial = cur
     THEN /\ txn' = StageStore(o, DataRec(o, d, serial, FALSE))
          /\ res' = OK("store")
     ELSE IF Resolvable(o, serial)
     THEN /\ txn' = [Stage(DataRec(o, MergeD(LoadSerial(hist, o, serial).d, Load(hist, o).d, d), serial, TRUE))
                       EXCEPT !.resolved = @ \cup {o}]
          /\ res' = Out("store", "resolved")
     ELSE /\ txn' = Fail
          /\ res' = Out("store", "ConflictError")
  /\ maxOid' = IF o > maxOid THEN o ELSE maxOid      \* set_max_oid / the mapping storage's counter
  /\ UNCHANGED <<hist, lastTs, clock, issued, begun, ltid, packed, obs>>

\* a store that the file-size quota refuses (FileStorage(quota=n)): the record was already put into the
\* transaction buffer when the check fires; the caller must abort
StoreQuota(c, o, serial, d) ==
  /\ IsFile /\ Active(c) /\ Len(txn.staged) < MaxRecs /\ InOrder(o)
  /\ serial \in SerialsOf(o)
  /\ LET cur == CurTid(hist, o) IN cur = 0 \/ serial = cur          \* (the store itself would be accepted)
  /\ txn' = Fail
  /\ res' = Out("store", "FileStorageQuotaError")
  /\ maxOid' = IF o > maxOid THEN o ELSE maxOid
  /\ UNCHANGED <<hist, lastTs, clock, issued, begun, ltid, packed, obs>>

\* checkCurrentSerialInTransaction: getTid(oid) must equal the serial the client read
CheckCurrent(c, o, serial) ==
  /\ Active(c)
  /\ serial \in SerialsOf(o) \ {0}
  /\ LET l == Load(hist, o) IN
     IF l.k # "rev" THEN txn' = Fail /\ res' = Out("checkCurrent", "POSKeyError")
     ELSE IF l.serial = serial THEN txn' = txn /\ res' = OK("checkCurrent")
     ELSE txn' = Fail /\ res' = Out("checkCurrent", "ReadConflictError")
  /\ UNCHANGED <<hist, lastTs, clock, maxOid, issued, begun, ltid, packed, obs>>

\* IExternalGC.deleteObject (file only)
Delete(c, o, serial) ==
  /\ IsFile /\ Active(c) /\ Len(txn.staged) < MaxRecs
  /\ serial \in SerialsOf(o)
  /\ LET cur == CurTid(hist, o) IN
     IF cur = 0 THEN txn' = Fail /\ res' = Out("delete", "POSKeyError")
     ELSE IF serial # cur THEN txn' = Fail /\ res' = Out("delete", "ConflictError")
     ELSE txn' = Stage(ZeroRec(o, serial)) /\ res' = OK("delete")
  /\ UNCHANGED <<hist, lastTs, clock, maxOid, issued, begun, ltid, packed, obs>>

(* ------------------------------- undo ---------------------------------- *)
\* Positions are <<transaction index, record index>>; <<0,0>> is the null position.
\* Records staged in the running transaction live at transaction index Len(hist)+1.
Null == <<0, 0>>
IndexPos(o) == IF Idx(hist, o) = {} THEN Null
               ELSE LET i == CurPos(hist, o) IN <<i, LastRec(hist[i], o)>>
PrevRecPos(i, o) == LET p == PrevPos(hist, i, o) IN IF p = 0 THEN Null ELSE <<p, LastRec(hist[p], o)>>
RecAt(p) == hist[p[1]].recs[p[2]]
BackPos(r) == IF r.op # "back" THEN Null
              ELSE LET p == TidPos(hist, r.back)
                   IN IF p = 0 \/ ~Writes(hist, p, r.oid) THEN Null ELSE <<p, LastRec(hist[p], r.oid)>>
\* _tindex as it stands when undo() is called: last staged record per oid
TIdx(S, o) == LET J == {j \in 1..Len(S) : S[j].oid = o} IN IF J = {} THEN 0 ELSE MaxS(J)

\* _transactionalUndoRecord for record j of transaction i, given the staged records S
UndoOne(S, i, j) ==
  LET r    == hist[i].recs[j]
      o    == r.oid
      pos  == <<i, j>>
      pre  == PrevRecPos(i, o)
      ipos == IndexPos(o)
      tj   == TIdx(S, o)
      staged == tj # 0
      tipos  == IF staged THEN <<Len(hist) + 1, tj>> ELSE ipos
      curRec == IF staged THEN S[tj] ELSE RecAt(ipos)
      cptr   == IF curRec.op = "data" THEN tipos ELSE BackPos(curRec)
      undone == DataOfRec(hist, r)
      curD   == IF curRec.op = "data" THEN curRec.d
                ELSE IF cptr = Null THEN Gone ELSE DataOfRec(hist, RecAt(cptr))
      trivial == tipos = pos \/ cptr = pos
      loadFail == ~trivial /\ (undone = Gone \/ curD = Gone)
      differ == ~trivial /\ ~loadFail /\ undone # curD
      preD == IF pre = Null THEN Gone ELSE DataOfRec(hist, RecAt(pre))
      oldD == DataAt(hist, i, o)      \* loadSerial(oid, tid being undone)
  IN IF loadFail THEN [k |-> "fail"]
     ELSE IF differ /\ pre = Null THEN [k |-> "fail"]
     ELSE IF pre = Null THEN [k |-> "rec", rec |-> ZeroRec(o, -1)]
     ELSE IF ~differ THEN [k |-> "rec", rec |-> BackRec(o, hist[pre[1]].tid)]
     ELSE IF preD = Gone \/ oldD = Gone \/ Cls[o] # "merge" THEN [k |-> "fail"]
     ELSE [k |-> "rec", rec |-> DataRec(o, MergeD(oldD, curD, preD), -1, TRUE)]

RECURSIVE UndoFold(_, _, _, _, _)
UndoFold(S, i, j, out, fails) ==
  IF j > Len(hist[i].recs) THEN [out |-> out, fails |-> fails]
  ELSE LET o == hist[i].recs[j].oid
           u == UndoOne(S, i, j)
       IN IF u.k = "fail" THEN UndoFold(S, i, j + 1, out, fails \cup {o})
          ELSE UndoFold(S, i, j + 1, Append(out, u.rec), fails \ {o})      \* "second chance"

Undo(c, t) ==
  /\ IsFile /\ Active(c) /\ Len(txn.undone) < MaxUndo
  /\ t \in TidsOf(hist)
  /\ LET i == TidPos(hist, t) IN
     IF hist[i].status # " " THEN txn' = Fail /\ res' = Out("undo", "UndoError")
     ELSE LET u == UndoFold(txn.staged, i, 1, <<>>, {}) IN
          IF u.fails # {} THEN txn' = Fail /\ res' = Out("undo", "UndoError")
          ELSE /\ Len(txn.staged) + Len(u.out) <= MaxRecs + 2
               /\ txn' = [txn EXCEPT !.staged = @ \o u.out, !.undone = Append(@, t)]
               /\ res' = [call |-> "undo", out |-> "ok", oids |-> {u.out[j].oid : j \in 1..Len(u.out)}]
  /\ UNCHANGED <<hist, lastTs, clock, maxOid, issued, begun, ltid, packed, obs>>

\* undo of an id that names no transaction (kept apart: the simulated relations only pick existing ids)
UndoUnknown(c, t) ==
  /\ IsFile /\ Active(c) /\ t \notin TidsOf(hist)
  /\ txn' = Fail /\ res' = Out("undo", "UndoError")
  /\ UNCHANGED <<hist, lastTs, clock, maxOid, issued, begun, ltid, packed, obs>>

\* restore(oid, this-tid, data | None, prev_txn): no consistency checks (copy / recovery path)
Restore(c, o, d, prev) ==
  /\ IsFile /\ Active(c) /\ Len(txn.staged) < MaxRecs
  /\ LET p == TidPos(hist, prev)
         found == /\ prev # 0 /\ p # 0 /\ Writes(hist, p, o)
                  /\ (RecOf(hist, p, o).op = "data" => (d # Gone /\ RecOf(hist, p, o).d = d))
     IN txn' = Stage(IF found THEN BackRec(o, prev)
                     ELSE IF d = Gone THEN ZeroRec(o, -1)
                     ELSE DataRec(o, d, -1, FALSE))
  /\ prev \in {0} \cup TidsOf(hist)
  /\ res' = OK("restore")
  /\ maxOid' = IF o > maxOid THEN o ELSE maxOid
  /\ UNCHANGED <<hist, lastTs, clock, issued, begun, ltid, packed, obs>>

Vote(c) ==
  /\ Active(c)
  /\ txn' = [txn EXCEPT !.phase = "voted"]
  /\ res' = [call |-> "vote", out |-> "ok", oids |-> txn.resolved]
  /\ UNCHANGED <<hist, lastTs, clock, maxOid, issued, begun, ltid, packed, obs>>

\* a low-level write of the vote fails (disk full, I/O error): tpc_vote raises, nothing is committed, the
\* caller aborts
VoteFail(c) ==
  /\ IsFile /\ Active(c)
  /\ txn' = Fail
  /\ res' = Out("vote", "OSError")
  /\ UNCHANGED <<hist, lastTs, clock, maxOid, issued, begun, ltid, packed, obs>>

Finish(c) ==
  /\ InTxn(c) /\ txn.phase = "voted"
  /\ hist' = Append(hist, [tid |-> txn.tid, status |-> " ", meta |-> txn.meta, recs |-> txn.staged])
  /\ obs' = ObsTable(hist', Oids)
  /\ txn' = NoTxn
  /\ res' = [call |-> "finish", out |-> "ok", tid |-> txn.tid]
  /\ packed' = IF txn.tid <= packed[1] THEN <<packed[1], packed[2], FALSE>> ELSE packed
  /\ ltid' = txn.tid
  /\ UNCHANGED <<lastTs, clock, maxOid, issued, begun>>

Abort(c) ==
  /\ InTxn(c)
  /\ txn' = NoTxn
  /\ res' = OK("abort")
  /\ UNCHANGED <<hist, lastTs, clock, maxOid, issued, begun, ltid, packed, obs>>

\* a call made with a transaction that is not the one in two-phase commit
Wrong(call) ==
  /\ call \in {"store", "vote", "finish", "abort", "undo", "checkCurrent", "delete"}
  /\ (call \in {"undo", "delete"} => IsFile)
  /\ res' = Out("wrong-" \o call, IF call = "abort" THEN "ok" ELSE "StorageTransactionError")
  /\ UNCHANGED <<hist, txn, lastTs, clock, maxOid, issued, begun, ltid, packed, obs>>

(* ------------------------------ oids, clock ---------------------------- *)
NewOid ==
  /\ txn = NoTxn /\ maxOid < NOid - 1
  /\ maxOid' = maxOid + 1
  /\ issued' = issued \cup {maxOid + 1}
  /\ res' = [call |-> "new_oid", out |-> "ok", oid |-> maxOid + 1]
  /\ UNCHANGED <<hist, txn, lastTs, clock, begun, ltid, packed, obs>>


\* close and reopen (file: _ts = last committed tid; _oid = largest oid on file)
CloseReopen ==
  /\ IsFile /\ txn = NoTxn
  /\ lastTs' = LastTid(hist)
  /\ maxOid' = IF OidsOf(hist) = {} THEN 0 ELSE MaxS(OidsOf(hist))
  /\ issued' = {}
  /\ res' = OK("reopen")
  /\ ltid' = LastTid(hist)
  /\ UNCHANGED <<hist, txn, clock, begun, packed, obs>>

\* pack(t): the pack time is given in seconds, so T = "end of second sec" (every tid of that second is <= T)
PackT(sec) == sec * K + K - 1
Pack(sec, gc) ==
  /\ txn = NoTxn /\ sec \in 0..(MaxClock + 1)
  /\ LET T == PackT(sec)
         r == IF OidsOf(hist) = {} THEN [out |-> "empty", h |-> hist]
              ELSE IF IsFile THEN FilePack(hist, T, gc) ELSE MappingPack(hist, T, gc, packed[1])
     IN /\ (~IsFile /\ gc) => r.out # "KeyError"      \* (a failing mapping pack is outside the model, DESIGN 6/C07)
        /\ hist' = r.h
        /\ obs' = ObsTable(hist', Oids)
        \* packed = <<last pack time, last pack time with garbage collection, "no commit at or below it since">>
        /\ packed' = IF r.out \in {"ok", "nothing-freed", "redundant"}
                      THEN <<IF T > packed[1] THEN T ELSE packed[1], IF gc /\ T > packed[2] THEN T ELSE packed[2],
                             IF T >= packed[1] THEN TRUE ELSE packed[3]>>
                      ELSE packed
        /\ res' = [call |-> "pack", out |-> r.out, T |-> T, gc |-> gc]
  /\ UNCHANGED <<txn, lastTs, clock, maxOid, issued, begun, ltid>>

\* a pack that cannot complete (a low-level write of the .pack file fails): the database is unchanged and usable
PackFail(sec, gc) ==
  /\ IsFile /\ txn = NoTxn /\ sec \in 0..(MaxClock + 1)
  /\ OidsOf(hist) # {} /\ FilePack(hist, PackT(sec), gc).out = "ok"      \* only a pack that would write something can fail
  /\ res' = [call |-> "pack", out |-> "OSError", T |-> PackT(sec), gc |-> gc]
  /\ UNCHANGED <<hist, txn, lastTs, clock, maxOid, issued, begun, ltid, packed, obs>>

SerialRange == {0} \cup {c * K + b : c \in 1..(MaxClock + 1), b \in 0..(MaxTxn + 1)}   \* every tid the model can produce
WrongCalls == {"store", "vote", "finish", "abort", "undo", "checkCurrent", "delete"}

\* every disjunct is a named action over constant ranges, so that TLC labels each step with the
\* action and its arguments (the replay reads them)
Next ==
  \/ \E c \in Client, m \in Metas, clk \in 1..MaxClock : Begin(c, m, clk)
  \/ \E c \in Client, o \in Oids, s \in SerialRange, d \in Datums : Store(c, o, s, d)
  \/ \E c \in Client, o \in Oids, s \in SerialRange : CheckCurrent(c, o, s)
  \/ \E c \in Client, o \in Oids, s \in SerialRange : Delete(c, o, s)
  \/ \E c \in Client, t \in SerialRange : Undo(c, t)
  \/ \E c \in Client : Vote(c)
  \/ \E c \in Client : Finish(c)
  \/ \E c \in Client : Abort(c)
  \/ \E call \in WrongCalls : Wrong(call)
  \/ NewOid
  \/ CloseReopen
\* sub-relations used to direct simulation (uniform random walks waste their depth on
\* begin/abort cycles and rejected calls)
AbortFailed(c) == txn.owner = c /\ txn.phase = "failed" /\ Abort(c)
NewOidQ == res.call \in {"finish", "abort", "open"} /\ NewOid
CloseReopenQ == res.call \in {"finish", "new_oid"} /\ CloseReopen
DeleteQ(c, o, s) == CurTid(hist, o) # 0 /\ Delete(c, o, s)
NextCommit ==
  \/ \E c \in Client, m \in Metas, clk \in 1..MaxClock : Begin(c, m, clk)
  \/ \E c \in Client, o \in Oids, s \in SerialRange, d \in Datums : Store(c, o, s, d)
  \/ \E c \in Client, o \in Oids, s \in SerialRange : CheckCurrent(c, o, s)
  \/ \E c \in Client, o \in Oids, s \in SerialRange : DeleteQ(c, o, s)
  \/ \E c \in Client, t \in SerialRange : Undo(c, t)
  \/ \E c \in Client : Vote(c)
  \/ \E c \in Client : Finish(c)
  \/ \E c \in Client : AbortFailed(c)
  \/ NewOidQ
  \/ CloseReopenQ
EarlyStore(c, o, s, d) == Len(hist) < 3 /\ Store(c, o, s, d)
\* the actions that matter to packing (exhaustive checking of PackPreserves)
NextWithPack ==
  \/ \E c \in Client, m \in Metas, clk \in 1..MaxClock : Begin(c, m, clk)
  \/ \E c \in Client, o \in Oids, s \in SerialRange, d \in Datums : Store(c, o, s, d)
  \/ \E c \in Client, o \in Oids, s \in SerialRange : DeleteQ(c, o, s)
  \/ \E c \in Client, t \in SerialRange : Undo(c, t)
  \/ \E c \in Client : Vote(c)
  \/ \E c \in Client : Finish(c)
  \/ \E c \in Client : AbortFailed(c)
  \/ \E sec \in 0..(MaxClock + 1), gc \in BOOLEAN : Pack(sec, gc)

\* abort-heavy: like NextCommit, plus an abort after the vote and after some stores
AbortVoted(c) == txn.owner = c /\ txn.phase = "voted" /\ Abort(c)
AbortStaged(c) == txn.owner = c /\ txn.phase = "begun" /\ Len(txn.staged) >= 2 /\ Abort(c)
NextAbort ==
  \/ \E c \in Client, m \in Metas, clk \in 1..MaxClock : Begin(c, m, clk)
  \/ \E c \in Client, o \in Oids, s \in SerialRange, d \in Datums : Store(c, o, s, d)
  \/ \E c \in Client, t \in SerialRange : Undo(c, t)
  \/ \E c \in Client : Vote(c)
  \/ \E c \in Client : Finish(c)
  \/ \E c \in Client : AbortFailed(c)
  \/ \E c \in Client : AbortVoted(c)
  \/ \E c \in Client : AbortStaged(c)
  \/ CloseReopenQ
\* fault heavy: votes fail, then abort, then further commits
NextFault ==
  \/ \E c \in Client, m \in Metas, clk \in 1..MaxClock : Begin(c, m, clk)
  \/ \E c \in Client, o \in Oids, s \in SerialRange, d \in Datums : Store(c, o, s, d)
  \/ \E c \in Client, t \in SerialRange : Undo(c, t)
  \/ \E c \in Client : Vote(c)
  \/ \E c \in Client : VoteFail(c)
  \/ \E c \in Client, o \in Oids, s \in SerialRange, d \in Datums : StoreQuota(c, o, s, d)
  \/ \E c \in Client : Finish(c)
  \/ \E c \in Client : AbortFailed(c)
  \/ CloseReopenQ
\* resolution heavy: stores with stale serials and undo of changed objects
StaleStore(c, o, s, d) == CurTid(hist, o) # 0 /\ Store(c, o, s, d)
NextResolve ==
  \/ \E c \in Client, m \in Metas, clk \in 1..MaxClock : Begin(c, m, clk)
  \/ \E c \in Client, o \in Oids, s \in SerialRange, d \in Datums : EarlyStore(c, o, s, d)
  \/ \E c \in Client, o \in Oids, s \in SerialRange, d \in Datums : StaleStore(c, o, s, d)
  \/ \E c \in Client, t \in SerialRange : Undo(c, t)
  \/ \E c \in Client : Vote(c)
  \/ \E c \in Client : Finish(c)
  \/ \E c \in Client : AbortFailed(c)
  \/ CloseReopenQ
\* pack heavy: a few commits (with references), packs at every time with gc on/off, then more commits and undos
PackQ(sec, gc) == res.call \in {"finish", "pack", "reopen"} /\ Len(hist) >= 2 /\ Pack(sec, gc)
NextPack ==
  \/ \E c \in Client, m \in Metas, clk \in 1..MaxClock : Begin(c, m, clk)
  \/ \E c \in Client, o \in Oids, s \in SerialRange, d \in Datums : Store(c, o, s, d)
  \/ \E c \in Client, o \in Oids, s \in SerialRange : DeleteQ(c, o, s)
  \/ \E c \in Client, t \in SerialRange : Undo(c, t)
  \/ \E c \in Client : Vote(c)
  \/ \E c \in Client : Finish(c)
  \/ \E c \in Client : AbortFailed(c)
  \/ \E sec \in 0..(MaxClock + 1), gc \in BOOLEAN : PackQ(sec, gc)
  \/ CloseReopenQ
\* failing packs between commits
PackFailQ(sec, gc) == res.call \in {"finish", "pack"} /\ Len(hist) >= 2 /\ PackFail(sec, gc)
NextPackFail ==
  \/ \E c \in Client, m \in Metas, clk \in 1..MaxClock : Begin(c, m, clk)
  \/ \E c \in Client, o \in Oids, s \in SerialRange, d \in Datums : Store(c, o, s, d)
  \/ \E c \in Client, t \in SerialRange : Undo(c, t)
  \/ \E c \in Client : Vote(c)
  \/ \E c \in Client : Finish(c)
  \/ \E c \in Client : AbortFailed(c)
  \/ \E sec \in 0..(MaxClock + 1), gc \in BOOLEAN : PackFailQ(sec, gc)
  \/ \E sec \in 0..(MaxClock + 1), gc \in BOOLEAN : PackQ(sec, gc)
\* oid-allocation heavy: stores and restores of arbitrary (also never issued) oids, aborts, reopen
RestoreAny(c, o, d) == Restore(c, o, d, 0)
\* a copied record of an object whose creation was undone (data None)
RestoreGone(c, o) == Restore(c, o, Gone, 0)
NextOid ==
  \/ \E c \in Client, m \in Metas, clk \in 1..MaxClock : Begin(c, m, clk)
  \/ \E c \in Client, o \in Oids, s \in SerialRange, d \in Datums : Store(c, o, s, d)
  \/ \E c \in Client, o \in Oids, d \in Datums : RestoreAny(c, o, d)
  \/ \E c \in Client, o \in Oids : RestoreGone(c, o)
  \/ \E c \in Client : Vote(c)
  \/ \E c \in Client : Finish(c)
  \/ \E c \in Client : Abort(c)
  \/ NewOid
  \/ CloseReopen
  \/ \E sec \in 0..(MaxClock + 1), gc \in BOOLEAN : PackQ(sec, gc)
\* undo-heavy: once two transactions are committed, transactions consist of undo calls
NextUndo ==
  \/ \E c \in Client, m \in Metas, clk \in 1..MaxClock : Begin(c, m, clk)
  \/ \E c \in Client, o \in Oids, s \in SerialRange, d \in Datums : EarlyStore(c, o, s, d)
  \/ \E c \in Client, t \in SerialRange : Undo(c, t)
  \/ \E c \in Client : Vote(c)
  \/ \E c \in Client : Finish(c)
  \/ \E c \in Client : AbortFailed(c)
  \/ CloseReopenQ

Spec == Init /\ [][Next]_vars
View == <<hist, txn, lastTs, clock, maxOid, issued, begun, packed, ltid>>

(* ------------------------------ properties ----------------------------- *)
TypeOK == /\ txn = NoTxn \/ txn.phase \in {"begun", "voted", "failed"}
          /\ maxOid \in Oids /\ clock \in 1..MaxClock
ObsDerived == obs = ObsTable(hist, Oids)

\* C04: transaction ids strictly increase in commit order whatever the clock does
TidsStrictlyIncrease == \A i \in 1..(Len(hist) - 1) : hist[i].tid < hist[i + 1].tid

\* C03: every committed data revision was derived from the revision immediately preceding it
\*      (base = tid of the previous revision of that oid, 0 for a first revision), or is a merge
NoLostUpdate ==
  \A i \in 1..Len(hist) : \A j \in 1..Len(hist[i].recs) :
    LET r == hist[i].recs[j] IN
      (r.op = "data" /\ r.base >= 0 /\ ~r.res) =>
         LET p == PrevPos(hist, i, r.oid) IN r.base = (IF p = 0 THEN 0 ELSE hist[p].tid)

\* C10: a resolved revision is exactly Merge(state at the writer's base, state committed, state wanted)
StoredIsMerge ==
  \A i \in 1..Len(hist) : \A j \in 1..Len(hist[i].recs) :
    LET r == hist[i].recs[j] IN
      (r.op = "data" /\ r.res /\ r.base >= 0) =>
         LET p == PrevPos(hist, i, r.oid) IN
           /\ p # 0 /\ r.d.v[1] = "M"
           /\ r.d.v[2] = LoadSerial(hist, r.oid, r.base).d.v
           /\ r.d.v[3] = DataAt(hist, p, r.oid).v

\* C05: an abort, or any refused call, leaves history and every answer unchanged;
\*      the commit lock is held exactly while a transaction is in two-phase commit
AbortRestores == [][(res'.out # "ok" \/ res'.call = "abort") => (hist' = hist /\ obs' = obs)]_vars
OnlyFinishChangesHistory == [][hist' # hist => res'.call = "finish"]_vars
WrongTxnNoEffect == [][(res'.call \in {"wrong-store", "wrong-vote", "wrong-finish", "wrong-abort", "wrong-undo",
                                        "wrong-checkCurrent", "wrong-delete"})
                        => UNCHANGED <<hist, txn, packed, obs, lastTs, maxOid>>]_vars
\* after any abort the next transaction can begin (no lock left behind)
NextCanBegin == [][res'.call = "abort" => txn' = NoTxn]_vars

\* C07: a pack changes nothing observable at or after the pack time, removes only what it may, and a pack
\* that fails, is redundant or frees nothing leaves the history untouched
PackPreserves ==
  [][res'.call = "pack" =>
       IF res'.out = "ok" THEN PackOK(hist, hist', res'.T) ELSE hist' = hist]_vars
\* packing again to the same or an earlier time changes nothing
RepackChangesNothing ==
  [][(res'.call = "pack" /\ res.call = "pack" /\ res.out \in {"ok", "nothing-freed", "redundant", "same-time"}
        /\ res'.gc = res.gc /\ res'.T <= res.T) => hist' = hist]_vars

\* C20: new_oid never returns an oid issued before in this session or present in the storage
OidFresh == [][res'.call = "new_oid" => (res'.oid \notin issued /\ res'.oid \notin OidsOf(hist))]_vars

\* back-pointers always point to an earlier transaction that wrote the same object
BackPointersGoBack ==
  \A i \in 1..Len(hist) : \A j \in 1..Len(hist[i].recs) :
     LET r == hist[i].recs[j] IN
       r.op = "back" => (TidPos(hist, r.back) # 0 /\ TidPos(hist, r.back) < i /\ Writes(hist, TidPos(hist, r.back), r.oid))

\* C06: when a transaction that consists of exactly one successful undo(t) commits, every object t
\* wrote reads as it did immediately before t (gone if t created it) or carries the class's merge of
\* the later change; all other objects and all earlier revisions are untouched
UndoSemantics ==
  [][(res'.call = "finish" /\ txn.undone # <<>> /\ Len(txn.undone) = 1 /\ txn.onlyUndo) =>
       LET t == txn.undone[1]
           i == TidPos(hist, t)
           W == {hist[i].recs[j].oid : j \in 1..Len(hist[i].recs)}
       IN /\ \A o \in W :
               LET before == LoadBefore(hist, o, t)
                   after  == Load(hist', o)
                   nr     == RecOf(hist', Len(hist'), o)
               IN \/ (before.k = "rev" /\ after.k = "rev" /\ after.d = before.d)
                  \/ (before.k # "rev" /\ after.k = "keyerr")
                  \/ (nr.res /\ after.k = "rev" /\ after.d.v[1] = "M" /\ before.k = "rev"
                        /\ after.d.v[4] = before.d.v /\ after.d.v[2] = DataAt(hist, i, o).v
                        /\ after.d.v[3] = Load(hist, o).d.v)
          /\ \A o \in Oids \ W : Load(hist', o) = Load(hist, o)
          /\ \A o \in Oids : \A b \in Bounds(hist) : b <= LastTid(hist) + 1 =>
                LET x == LoadBefore(hist', o, b)  y == LoadBefore(hist, o, b)
                IN x.k = y.k /\ (x.k = "rev" => (x.d = y.d /\ x.serial = y.serial))
     ]_vars
=============================================================================
