---------------------------- MODULE ZRecoverTool ----------------------------
(***************************************************************************)
(* fsrecover.recover at transaction granularity (C17 b).                   *)
(*                                                                         *)
(*     pos = 4; ltid = None                                                *)
(*     while pos:                                                          *)
(*         try: npos, txn, tid = read_txn_header(f, pos, ..., ltid)        *)
(*         except EOFError: break                               HeaderEOF  *)
(*         except Exception: pos = scan(f, pos); continue    HeaderError,  *)
(*                                                               Scan      *)
(*         ltid = tid                                                      *)
(*         if txn is None: pos = npos; continue              HeaderUndone  *)
(*         pos = npos                                  HeaderOk/Garbled    *)
(*         ofs.tpc_begin(txn, tid, status)                                 *)
(*         try: for r in txn: ofs.restore(...)                             *)
(*         except Exception: ofs.tpc_abort(txn); pos = scan(f, pos)        *)
(*                                                        CopyFail, Scan   *)
(*         else: ofs.tpc_vote(txn); ofs.tpc_finish(txn)       CopyOk       *)
(*                                                                         *)
(* The file F is a sequence of transaction extents with a damaged byte     *)
(* range (ZRecover).  What the tool reads from undamaged bytes is          *)
(* determined; what it makes of damaged bytes is not (the format carries   *)
(* no checksum): a header whose bytes are damaged may be refused, accepted *)
(* with any id, taken for an undone or an unfinished transaction; records  *)
(* that are damaged may be copied altered or make the copy fail.  scan()   *)
(* is any answer ZRecoverScan!ScanForward allows.                          *)
(* Assumptions (stated in the evidence): A1 a transaction whose length     *)
(* field or redundant length is damaged is never accepted; A2 no position  *)
(* other than a transaction boundary passes the header checks.             *)
(***************************************************************************)
EXTENDS ZRecover
CONSTANTS Files,                 \* the damaged files to consider
          MAGIC, FH, LENOFF, LENSZ, TR,  \* layout: 4, 23, 8, 8, 8 in the format (scaled down for model checking)
          EmitsCut               \* TRUE: the code as it is - the record iterator only logs a warning and stops at
                                 \* a data record whose length or transaction pointer is inconsistent, so recover()
                                 \* (without -p) commits the transaction with the records before that point;
                                 \* FALSE: "transactions with any bad data are skipped" (the module's docstring)
VARIABLES F,        \* the file
          pos,      \* position the loop is at
          ltid,     \* id of the last header accepted (0: none); the id of extent i is 2 * i, so that a
                    \* damaged id can be anything in between
          out,      \* committed output transactions [src, same]
          phase,    \* "start" | "header" | "copy" | "scan" | "done"
          cur       \* extent being copied
tvars == <<F, pos, ltid, out, phase, cur>>

TidOf(i) == 2 * i
TidRange == 0..(2 * NT(F) + 1)
Ext(i) == F.ext[i]
Dmg(a, b) == Ovl(a, b, F.lo, F.hi)
\* extent starting at p (0: none)
AtStart(p) == IF \E i \in 1..NT(F) : Ext(i).s = p THEN CHOOSE i \in 1..NT(F) : Ext(i).s = p ELSE 0
Whole(i) == Ext(i).e <= F.size
LenIntact(i) == Whole(i) /\ ~Dmg(Ext(i).s + LENOFF, Ext(i).s + LENOFF + LENSZ) /\ ~Dmg(Ext(i).e - TR, Ext(i).e)
FixedIntact(i) == LenIntact(i) /\ ~Dmg(Ext(i).s, Ext(i).s + FH)

TInit == /\ F \in Files /\ pos = MAGIC /\ ltid = 0 /\ out = <<>> /\ phase = "start" /\ cur = 0

\* f.read(4) != packed_version: die("input is not a file storage")
NotAFileStorage == /\ phase = "start" /\ Dmg(0, MAGIC)
                   /\ phase' = "done" /\ UNCHANGED <<F, pos, ltid, out, cur>>
Open == /\ phase = "start" /\ F.size >= MAGIC
        /\ phase' = "header" /\ UNCHANGED <<F, pos, ltid, out, cur>>

\* read_txn_header on undamaged bytes of a complete transaction: every check passes iff the id does not go back
HeaderOk(i) ==
  /\ phase = "header" /\ i = AtStart(pos) /\ i # 0 /\ FixedIntact(i) /\ TidOf(i) >= ltid
  /\ ltid' = TidOf(i) /\ cur' = i /\ phase' = "copy" /\ UNCHANGED <<F, pos, out>>
\* the fixed header is damaged but passes: any id not below ltid (status read as ' ' or 'p')
HeaderGarbled(i, t) ==
  /\ phase = "header" /\ i = AtStart(pos) /\ i # 0 /\ LenIntact(i) /\ ~FixedIntact(i) /\ t >= ltid
  /\ ltid' = t /\ cur' = i /\ phase' = "copy" /\ UNCHANGED <<F, pos, out>>
\* ... with the status read as 'u': skipped as an undone transaction
HeaderUndone(i, t) ==
  /\ phase = "header" /\ i = AtStart(pos) /\ i # 0 /\ LenIntact(i) /\ ~FixedIntact(i) /\ t >= ltid
  /\ ltid' = t /\ pos' = Ext(i).e /\ UNCHANGED <<F, out, phase, cur>>
\* fewer than FH bytes left, or a damaged fixed header whose status reads 'c' (checked before the redundant
\* length is looked at): the loop ends
HeaderEOF ==
  /\ phase = "header"
  /\ \/ F.size - pos < FH
     \/ LET i == AtStart(pos) IN i # 0 /\ Dmg(Ext(i).s, Ext(i).s + FH)
  /\ phase' = "done" /\ UNCHANGED <<F, pos, ltid, out, cur>>
\* any other outcome is an error; a clean header with an id that does not go back is never refused
MustAccept == LET i == AtStart(pos) IN i # 0 /\ FixedIntact(i) /\ TidOf(i) >= ltid
HeaderError ==
  /\ phase = "header" /\ F.size - pos >= FH /\ ~MustAccept
  /\ phase' = "scan" /\ UNCHANGED <<F, pos, ltid, out, cur>>

\* the records are restored and the transaction committed; unchanged unless damaged bytes were involved;
\* with all its records unless (EmitsCut) the iterator stopped early at damaged bytes
CopyOk(same, whole) ==
  /\ phase = "copy" /\ (~Touched(F, cur) => same) /\ (same => whole)
  /\ (~whole => (EmitsCut /\ Touched(F, cur)))
  /\ out' = Append(out, [src |-> cur, same |-> same, whole |-> whole])
  /\ pos' = Ext(cur).e /\ phase' = "header" /\ cur' = 0 /\ UNCHANGED <<F, ltid>>
\* restoring fails: abort, scan on from the end of the transaction.  Only damaged bytes can make it fail, or a
\* back-pointer record whose data_txn is not in the output unchanged: FileStorage.restore looks the hinted
\* transaction up with _txn_find, which raises UndoError when there is none (the hint is not "ignored").
HintMissing(i) == \E j \in Ext(i).dtx : ~\E k \in 1..Len(out) : out[k].src = j /\ out[k].same
CopyFail ==
  /\ phase = "copy" /\ (Touched(F, cur) \/ HintMissing(cur))
  /\ pos' = Ext(cur).e /\ phase' = "scan" /\ cur' = 0 /\ UNCHANGED <<F, ltid, out>>
\* an exception outside the tool's handlers while it works on damaged bytes ends it abnormally
Crash ==
  /\ phase = "copy" /\ Touched(F, cur)
  /\ phase' = "done" /\ cur' = 0 /\ UNCHANGED <<F, pos, ltid, out>>

\* pos = scan(f, pos): 0 (the loop ends) or a position further on (ZRecoverScan!ScanForward)
Scan(q) ==
  /\ phase = "scan"
  /\ IF q = 0 THEN phase' = "done" /\ pos' = pos
     ELSE q > pos /\ q <= F.size /\ pos' = q /\ phase' = "header"
  /\ UNCHANGED <<F, ltid, out, cur>>

TNext ==
  \/ NotAFileStorage \/ Open
  \/ \E i \in 1..NT(F) : HeaderOk(i)
  \/ \E i \in 1..NT(F), t \in TidRange : HeaderGarbled(i, t)
  \/ \E i \in 1..NT(F), t \in TidRange : HeaderUndone(i, t)
  \/ HeaderEOF \/ HeaderError
  \/ \E same \in BOOLEAN, whole \in BOOLEAN : CopyOk(same, whole)
  \/ CopyFail \/ Crash
  \/ \E q \in 0..F.size : Scan(q)
TSpec == TInit /\ [][TNext]_tvars /\ WF_tvars(TNext)

(* ------------------------------ properties ----------------------------- *)
Terminates == <>(phase = "done")
\* at every moment the output holds only input transactions, in order, unchanged unless damaged bytes are involved
OutputOK == OutputIsOrderedSubsequenceOfInput(F, out)
\* when the tool ends, every transaction that ends before the damage has been recovered (all of them if none)
PrefixOK == phase = "done" => PrefixBeforeDamageRecovered(F, out)
IdenticalOK == phase = "done" => UndamagedIdentical(F, out)
TTypeOK == /\ phase \in {"start", "header", "copy", "scan", "done"}
           /\ (phase \in {"header", "copy", "scan"} => (pos >= MAGIC /\ pos <= F.size))
           /\ ltid \in TidRange /\ cur \in 0..NT(F) /\ (phase = "copy" <=> cur # 0)
=============================================================================
