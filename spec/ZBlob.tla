------------------------------- MODULE ZBlob -------------------------------
(***************************************************************************)
(* Blob data next to object records (property C13).                        *)
(*                                                                         *)
(* The blob directory is a function  <<oid, tid>> |-> [c, w, ro]  (one     *)
(* entry per `<oid>/<tid>.blob` file: c = bytes on disk, w = ghost: the    *)
(* bytes the application had written when the revision was stored, ro =    *)
(* no write-permission bit), plus the files under tmp/ (working copies of  *)
(* Blob objects, savepoint files, files nobody owns any more), the         *)
(* storage's `dirty_oids` list and - with pack_keep_old - the directory    *)
(* `<blobs>.old`.  Object records live in a ZHistory history; the packers  *)
(* are the transcriptions of ZPackOps (validated against the code by C07). *)
(*                                                                         *)
(* One action per real operation, made through a Connection (c1):          *)
(*   CreateBlob Rewrite Append ConsumeFile ConsumeFail   Blob / object API  *)
(*   ModifyP                                                               *)
(*   Savepoint Rollback AbortTxn                        transaction API    *)
(*   TpcBegin  StoreOK | StoreFail  Vote  Finish        Connection.tpc_*   *)
(*   ConnAbort TpcAbort                                 Connection.abort,  *)
(*                                                      Connection.tpc_abort*)
(*   UBegin UStoreOK | UStoreFail (+ the same Vote..)   DB.undo            *)
(*   OtherCommit                                        a second writer    *)
(*   Pack                                               DB.pack            *)
(* The order of the calls of a commit is the one of transaction's          *)
(* _commitResources / _cleanup: abort() is called only on a resource that  *)
(* has not voted, tpc_abort() always.                                      *)
(*                                                                         *)
(* Flavour "mixin"   = FileStorage with a blob directory (BlobStorageMixin)*)
(* Flavour "wrapmap" = BlobStorage wrapped around a MappingStorage         *)
(* Flavour "wrapfile"= BlobStorage wrapped around a FileStorage without a  *)
(*                     blob directory (BlobStorage.undo; no pack)          *)
(*                                                                         *)
(* The code AS IT IS differs from the design in three places, each behind  *)
(* a Boolean constant (TRUE = as the code is):                             *)
(*   AbortNeedsVote  FileStorage._abort runs _blob_tpc_abort only when a   *)
(*                   vote happened (F4)                                    *)
(*   NonUndoPack     BlobStorage packs with _packNonUndoing (keep the      *)
(*                   newest file per oid) over a storage that keeps        *)
(*                   history (F15)                                         *)
(*   SpbPerSerial    TmpStore keeps one savepoint blob file per            *)
(*                   (oid, serial): a rollback does not bring the file of  *)
(*                   the earlier savepoint back (F3)                       *)
(*   ForeignAbortCleans  BlobStorage.tpc_abort(t) runs _blob_tpc_abort()     *)
(*                   although the wrapped storage ignored the foreign t      *)
(*   LateBookkeeping BlobStorage.tpc_abort / tpc_finish touch dirty_oids     *)
(*                   after the wrapped storage released the commit lock      *)
(*   CopyFailUntracked BlobStorage.undo lists the copy in dirty_oids only    *)
(*                   after the copy succeeded                                *)
(***************************************************************************)
EXTENDS ZPackOps

CONSTANTS Flavour,          \* "mixin" | "wrapmap" | "wrapfile"
          NBlob,            \* blobs are the oids 2..NBlob+1 (0 = root, 1 = a plain object P)
          Atoms,            \* content atoms; a content is a sequence of atoms
          MaxLen,           \* bound on the length of a content
          MaxTid,           \* tids are clock seconds 1..MaxTid (1, 2 = set-up)
          MaxSp,            \* bound on valid savepoints
          KeepOld,          \* FileStorage(pack_keep_old=...)
          AbortNeedsVote, NonUndoPack, SpbPerSerial,
          ForeignAbortCleans, LateBookkeeping, CopyFailUntracked,
          StoreFaultUntracked,   \* _blob_storeblob lists the file in dirty_oids only after rename + chmod succeeded
          StoreFailLeaks,        \* the working copy handed to a storeBlob whose store() raises stays in tmp/
          UndoTempLeaks,         \* FileStorage's undo leaves its temporary file in tmp/ when the blob copy fails
          PackWipesOidDir,       \* FileStorage's blob pack removes the whole oid directory of an object that was garbage at
                                 \* the pack time - files of revisions written after the pack time included
          PackIgnoresInFlight    \* the wrapper's blob pack walks the directory without regard to a commit in progress

VARIABLES hist,     \* committed history (ZHistory)
          files,    \* <<oid, tid>> |-> [c, w, ro] : the *.blob files of the blob directory
          old,      \* the same for <blobs>.old
          dirty,    \* dirty_oids (as a set; the code only ever empties it as a whole)
          leak,     \* tmp/ files no object refers to any more (sequence of contents)
          clk,      \* last tid handed out
          packed,   \* <<effective pack time, MappingStorage._last_pack>>
          txn,      \* the transaction in two-phase commit
          con,      \* connection c1: snapshot, registered objects, working files, savepoints
          nextb,    \* next unused blob oid
          aborted,  \* ghost: tids of aborted transactions
          aux,      \* [late, ltid]: bookkeeping of the second writer's abort / finish still to come (its thread stopped
                    \* between the two statements of BlobStorage.tpc_abort / tpc_finish); lost: ghost, why a file went
          res,      \* outcome of the last call
          osnap,    \* derived from (hist, files, packed): the bytes every snapshot reader must see
          oiter,    \* derived from hist: what the storage's iterator must list
          oview,    \* derived from (con, hist, files): the bytes c1 shows for the blobs it touched
          viol      \* derived: violations of C13 exhibited by this state

vars == <<hist, files, old, dirty, leak, clk, packed, txn, con, nextb, aborted, aux, res, osnap, oiter, oview, viol>>
View == <<hist, files, old, dirty, leak, clk, packed, txn, con, nextb, aborted, aux>>

P == 1
Blobs == 2..(NBlob + 1)
IsMixin == Flavour = "mixin"
HasUndo == Flavour \in {"mixin", "wrapfile"}
HasPack == Flavour # "wrapfile"        \* BlobStorage._packUndoing over a packed FileStorage is not modelled
PVals == {"v1", "v2"}
Absent == <<"absent">>
Lost == <<"lost">>

BlobD == [v |-> <<"blob">>, refs |-> {}]          \* every blob record carries the same pickle
RootD(R) == [v |-> <<"root">>, refs |-> R]
PlainD(a) == [v |-> <<a>>, refs |-> {}]
DataRec(o, d) == [oid |-> o, op |-> "data", d |-> d, back |-> 0, base |-> -1, res |-> FALSE]
BackRec(o, b) == [oid |-> o, op |-> "back", d |-> NoD, back |-> b, base |-> -1, res |-> FALSE]
ZeroRec(o)    == [oid |-> o, op |-> "zero", d |-> NoD, back |-> 0, base |-> -1, res |-> FALSE]
Txn(t, recs)  == [tid |-> t, status |-> " ", meta |-> "m0", recs |-> recs]

The(S) == CHOOSE y \in S : TRUE          \* The({f(x) : x \in {e}}) evaluates e once
Put(f, k, v) == [x \in (DOMAIN f) \cup {k} |-> IF x = k THEN v ELSE f[x]]
Drop(f, K) == [x \in (DOMAIN f) \ K |-> f[x]]
Range(s) == {s[i] : i \in 1..Len(s)}
AddReg(s, o) == IF o \in Range(s) THEN s ELSE Append(s, o)
OK(what) == [call |-> what, out |-> "ok"]
Out(what, o) == [call |-> what, out |-> o]

NoAux == [late |-> "none", ltid |-> 0, lost |-> <<>>, utmp |-> 0]     \* utmp: temporary files a failed undo copy left
IsWrapper == Flavour # "mixin"
NoTxn == [who |-> "none", tid |-> 0, phase |-> "idle", staged |-> <<>>, target |-> 0]
Idle == txn.who = "none"

(* ------------------------------ views ----------------------------------- *)
\* serial of the revision of o a snapshot at tid s shows (0: the object does not load there)
WritesO(H, i, o) == \E j \in 1..Len(H[i].recs) : H[i].recs[j].oid = o
SerialIn(H, o, s) == LET I == {i \in 1..Len(H) : H[i].tid <= s /\ WritesO(H, i, o)}
                     IN IF I = {} THEN 0
                        ELSE LET i == CHOOSE i \in I : \A j \in I : j <= i
                             IN IF DataAt(H, i, o) = Gone THEN 0 ELSE H[i].tid
FileIn(F, b, s) == IF <<b, s>> \in DOMAIN F THEN F[<<b, s>>].c ELSE Lost
FileC(b, s) == FileIn(files, b, s)
\* A connection at the start of a transaction: its snapshot, and - cached here because committed files and
\* records never change under a snapshot that is in use (Pack waits for c1 to be clean) - per oid the serial
\* the snapshot shows (ser), the committed bytes (base), P's value and the root's references
FreshCon(H, F, s) ==
  [snap |-> s,
   ser |-> TLCEval([o \in 0..(NBlob + 1) |-> SerialIn(H, o, s)]),
   base |-> TLCEval([b \in Blobs |-> LET t == SerialIn(H, b, s) IN IF t = 0 THEN Absent ELSE FileIn(F, b, t)]),
   pbase |-> LoadBefore(H, P, s + 1).d.v[1],
   rbase |-> LoadBefore(H, 0, s + 1).d.refs,
   reg |-> <<>>, work |-> <<>>, newb |-> {}, pval |-> <<>>, ideal |-> <<>>,
   touched |-> {}, spon |-> FALSE, spidx |-> {}, spnew |-> {}, spfile |-> <<>>, sps |-> <<>>,
   unl |-> {}, rel |-> {},        \* blobs the transaction removes from / puts (back) into the root object
   hw |-> {}, hr |-> {}]          \* blobs of which the application holds a writer / a reader handle open
IsClean(c) == c.reg = <<>> /\ DOMAIN c.work = {} /\ c.newb = {} /\ c.pval = <<>> /\ ~c.spon /\ c.unl = {} /\ c.rel = {}
\* the committed bytes in the connection's snapshot
CView(c, b) == c.base[b]
\* what the connection shows, as the code computes it: working copy, else the savepoint file named
\* after (oid, serial) if there is one (TmpStore.loadBlob looks at the file, not at its index), else committed
AView(c, b) == IF b \in DOMAIN c.work THEN c.work[b]
               ELSE IF c.spon /\ b \in DOMAIN c.spfile THEN c.spfile[b]
               ELSE CView(c, b)
\* what the application wrote (ghost)
IView(c, b) == IF b \in DOMAIN c.ideal THEN c.ideal[b] ELSE CView(c, b)
Viewable(c, b) == b \in c.newb \cup c.spnew \/ c.ser[b] # 0
RootRefs(c) == (c.rbase \cup c.newb \cup c.spnew \cup c.rel) \ c.unl
PViewOf(c) == IF c.pval # <<>> THEN c.pval[1] ELSE c.pbase
NoOpen == con.hw = {} /\ con.hr = {}
\* a connection without changes starts a new transaction (transaction.begin) before its first change
Touch(c) == IF IsClean(c) /\ c.snap # LastTid(hist) THEN FreshCon(hist, files, LastTid(hist)) ELSE c


\* The transaction boundary with file handles still open: invalidating a Blob (it was changed in the aborted
\* transaction, or another connection has committed it) force-closes its files, removes the working copy and
\* makes it a ghost; a reader of a blob that is not invalidated stays open.
AfterBoundary(c) ==
  LET f == FreshCon(hist, files, LastTid(hist))
  IN [f EXCEPT !.touched = c.hw \cup c.hr, !.hr = {b \in c.hr : f.ser[b] = c.ser[b]}]

(* ------------------------- derived: observations ------------------------ *)
\* (all of these take the parts of the state as arguments: TLC evaluates F(x') much faster than F'.)
\* snapshots at or after the pack time are promised (C07); tid 1 is the database without P
ObsPointsOf(H, pk) == {t \in TidsOf(H) : t >= 2 /\ t >= pk[1]} \cup (IF pk[1] >= 2 THEN {pk[1]} ELSE {})
Readable == 1..(NBlob + 1)            \* P and the blobs
SnapViewOf(H, F, o, t) ==
  The({IF r.k # "rev" THEN Absent ELSE IF o = P THEN r.d.v ELSE FileIn(F, o, r.serial) : r \in {LoadBefore(H, o, t + 1)}})
RecKind(H, r) == IF DataOfRec(H, r) = Gone THEN "zero" ELSE "data"
IterEntry(H, i) == [tid |-> H[i].tid, recs |-> {<<H[i].recs[j].oid, RecKind(H, H[i].recs[j])>> : j \in 1..Len(H[i].recs)}]
SnapOf(H, F, pk) == [t \in ObsPointsOf(H, pk) |-> [o \in Readable |-> SnapViewOf(H, F, o, t)]]
ViewOf(c, tx) == [b \in (IF tx.who = "c1" THEN {} ELSE {b \in c.touched : Viewable(c, b)}) |-> AView(c, b)]
IterOf(H) == [i \in 1..Len(H) |-> IterEntry(H, i)]
\* the row of the snapshot table for the transaction T that was just appended (histories only grow between
\* packs, so the older rows stay): H2, F2 are the new history and files
RowAfter(row, T, H2, F2) ==
  [o \in Readable |->
     IF \E j \in 1..Len(T.recs) : T.recs[j].oid = o
     THEN LET r == T.recs[CHOOSE j \in 1..Len(T.recs) : T.recs[j].oid = o]
              d == DataOfRec(H2, r)
          IN IF d = Gone THEN Absent ELSE IF o = P THEN d.v ELSE FileIn(F2, o, T.tid)
     ELSE row[o]]

(* ------------------------- derived: the property ------------------------ *)
BlobRevsOf(H) == {r \in {<<b, H[i].tid>> : b \in Blobs, i \in 1..Len(H)} :
                     LET i == TidPos(H, r[2]) IN Writes(H, i, r[1]) /\ DataAt(H, i, r[1]) # Gone}
CommittedIn(H, k) == LET i == TidPos(H, k[2]) IN i # 0 /\ Writes(H, i, k[1])
Committed(k) == CommittedIn(hist, k)
InFlightIn(tx, ax, k) == (tx.who # "none" /\ k[2] = tx.tid) \/ (ax.late # "none" /\ k[2] = ax.ltid)
InFlight(k) == InFlightIn(txn, aux, k)
V(kind) == [inv |-> "FilesMatchRecords", kind |-> kind]
\* (the ghosts aux.lost / file.g say through which deviation a file went or stayed, so that every defect has
\*  its own kind)
ViolOf(H, F, tx, ab, ax, lk) ==
     {V(IF k \in DOMAIN ax.lost THEN "file-removed-by-" \o ax.lost[k] ELSE "revision-without-file") :
         k \in BlobRevsOf(H) \ DOMAIN F}
  \cup {V(IF F[k].g # "" THEN "file-left-by-" \o F[k].g ELSE "file-of-aborted-transaction") :
         k \in {k \in DOMAIN F : ~CommittedIn(H, k) /\ ~InFlightIn(tx, ax, k) /\ k[2] \in ab}}
  \cup {V("file-of-removed-revision") : k \in {k \in DOMAIN F : ~CommittedIn(H, k) /\ ~InFlightIn(tx, ax, k) /\ k[2] \notin ab}}
  \* tmp/ lies in the blob directory: a working copy nobody owns after the end of its transaction, a temporary file
  \* of a failed undo (reported only where the replay finds the file)
  \cup {[inv |-> "NothingLeftInTmp", kind |-> "working-copy-left-in-tmp"] : x \in {1} \cap {IF tx.who = "none" /\ lk # <<>> THEN 1 ELSE 0}}
  \cup {[inv |-> "NothingLeftInTmp", kind |-> "undo-temp-left-in-tmp"] : x \in {1} \cap {IF tx.who = "none" /\ ax.utmp > 0 THEN 1 ELSE 0}}
  \cup {V("bytes-differ-from-written") : k \in {k \in DOMAIN F : CommittedIn(H, k) /\ F[k].c # F[k].w}}
  \* (the property speaks of modification in place; the permission bits of the copies BlobStorage.undo writes
  \*  are compared by the replays but are no violation of it)
  \cup {[inv |-> "CommittedFilesImmutable", kind |-> "committed-file-writable"] :
           k \in {k \in DOMAIN F : Flavour # "wrapfile" /\ CommittedIn(H, k) /\ ~F[k].ro}}
SnapExpr == SnapOf(hist, files, packed)
ViewExpr == ViewOf(con, txn)
IterExpr == IterOf(hist)
ViolExpr == ViolOf(hist, files, txn, aborted, aux, leak)
\* The derived variables are functions of the other variables; they are recomputed only by the actions that can
\* change them, and incrementally where the history only grows (evaluating the tables for every successor
\* state is what TLC would spend its time on otherwise).
DerivedAll == /\ osnap' = SnapOf(hist', files', packed') /\ oiter' = IterOf(hist') /\ oview' = ViewOf(con', txn')
              /\ viol' = ViolOf(hist', files', txn', aborted', aux', leak')
DerivedCon == osnap' = osnap /\ oiter' = oiter /\ oview' = ViewOf(con', txn') /\ viol' = viol
DerivedEnd == /\ osnap' = osnap /\ oiter' = oiter /\ oview' = ViewOf(con', txn')
              /\ viol' = ViolOf(hist', files', txn', aborted', aux', leak')
\* (an abort that goes by a dirty list holding entries of another transaction can remove a committed file)
DerivedDrop == /\ osnap' = SnapOf(hist', files', packed') /\ oiter' = oiter /\ oview' = ViewOf(con', txn')
               /\ viol' = ViolOf(hist', files', txn', aborted', aux', leak')
DerivedCommit == /\ osnap' = Put(osnap, hist'[Len(hist')].tid,
                                  RowAfter(osnap[MaxS(DOMAIN osnap)], hist'[Len(hist')], hist', files'))
                 /\ oiter' = Append(oiter, IterEntry(hist', Len(hist')))
                 /\ oview' = ViewOf(con', txn') /\ viol' = ViolOf(hist', files', txn', aborted', aux', leak')

Init ==
  /\ hist = <<Txn(1, <<DataRec(0, RootD({}))>>), Txn(2, <<DataRec(0, RootD({P})), DataRec(P, PlainD("v1"))>>)>>
  /\ files = <<>> /\ old = <<>> /\ dirty = {} /\ leak = <<>> /\ clk = 2 /\ packed = <<0, 0>>
  /\ txn = NoTxn /\ con = FreshCon(hist, files, 2) /\ nextb = 2 /\ aborted = {} /\ aux = NoAux /\ res = OK("open")
  /\ osnap = SnapExpr /\ oiter = IterExpr /\ oview = ViewExpr /\ viol = ViolExpr

SameStore == UNCHANGED <<hist, files, old, dirty, leak, clk, packed, txn, aborted, aux>>

(* ------------------------ Blob and object API --------------------------- *)
\* root['b<n>'] = Blob(); content written through open('w')
CreateBlob(b, c0) ==
  /\ Idle /\ NoOpen /\ b = nextb /\ b \in Blobs
  /\ LET c == Touch(con) IN
     con' = [c EXCEPT !.work = Put(@, b, c0), !.ideal = Put(@, b, c0), !.newb = @ \cup {b},
                      !.reg = AddReg(@, 0), !.touched = @ \cup {b}]
  /\ nextb' = b + 1
  /\ res' = OK("create")
  /\ SameStore /\ DerivedCon

\* an object that has an oid registers with the connection when it is changed
Change(c, b, actual, ideal) ==
  [c EXCEPT !.work = Put(@, b, actual), !.ideal = Put(@, b, ideal), !.touched = @ \cup {b},
            !.reg = IF b \in c.newb THEN @ ELSE AddReg(@, b)]

\* blob.open('w').write(x)
Rewrite(b, x) ==
  /\ Idle /\ NoOpen /\ b \in Blobs
  /\ LET c == Touch(con) IN Viewable(c, b) /\ con' = Change(c, b, <<x>>, <<x>>)
  /\ res' = OK("rewrite")
  /\ UNCHANGED nextb /\ SameStore /\ DerivedCon

\* blob.open('a').write(x): the working copy starts as a copy of what the connection shows
Append_(b, x) ==
  /\ Idle /\ NoOpen /\ b \in Blobs
  /\ LET c == Touch(con) IN
     /\ Viewable(c, b)
     /\ AView(c, b) \notin {Absent, Lost} /\ Len(AView(c, b)) < MaxLen /\ Len(IView(c, b)) < MaxLen
     /\ con' = Change(c, b, Append(AView(c, b), x), Append(IView(c, b), x))
  /\ res' = OK("append")
  /\ UNCHANGED nextb /\ SameStore /\ DerivedCon

\* blob.consumeFile(path)
ConsumeFile(b, x) ==
  /\ Idle /\ NoOpen /\ b \in Blobs
  /\ LET c == Touch(con) IN Viewable(c, b) /\ con' = Change(c, b, <<x>>, <<x>>)
  /\ res' = OK("consume")
  /\ UNCHANGED nextb /\ SameStore /\ DerivedCon

\* blob.consumeFile(path) with a source that cannot be consumed (no such file): the call raises and its error
\* handler leaves the blob as it was - a working copy that was moved aside is moved back AND stays attached,
\* without one nothing is attached and the object is not registered
ConsumeFail(b) ==
  /\ Idle /\ NoOpen /\ b \in Blobs
  /\ LET c == Touch(con) IN Viewable(c, b) /\ con' = [c EXCEPT !.touched = @ \cup {b}]
  /\ res' = Out("consume", "FileNotFoundError")
  /\ UNCHANGED nextb /\ SameStore /\ DerivedCon

ModifyP(v) ==
  /\ Idle /\ NoOpen /\ v \in PVals
  /\ LET c == Touch(con) IN
     /\ v # PViewOf(c)
     /\ con' = [c EXCEPT !.pval = <<v>>, !.reg = AddReg(@, P)]
  /\ res' = OK("modify")
  /\ UNCHANGED nextb /\ SameStore /\ DerivedCon

\* del root['b<n>'] / root['b<n>'] = the Blob object the application still holds (not within savepoints in this model)
Unlink(b) ==
  /\ Idle /\ NoOpen /\ ~con.spon /\ b \in Blobs
  /\ LET c == Touch(con) IN
     /\ c.ser[b] # 0 /\ b \in RootRefs(c)
     /\ con' = [c EXCEPT !.unl = IF b \in c.rel THEN @ ELSE @ \cup {b}, !.rel = @ \ {b}, !.reg = AddReg(@, 0)]
  /\ res' = OK("unlink")
  /\ UNCHANGED nextb /\ SameStore /\ DerivedCon
Relink(b) ==
  /\ Idle /\ NoOpen /\ ~con.spon /\ b \in Blobs
  /\ LET c == Touch(con) IN
     /\ c.ser[b] # 0 /\ b \notin RootRefs(c)
     /\ con' = [c EXCEPT !.rel = IF b \in c.unl THEN @ ELSE @ \cup {b}, !.unl = @ \ {b}, !.reg = AddReg(@, 0)]
  /\ res' = OK("relink")
  /\ UNCHANGED nextb /\ SameStore /\ DerivedCon

\* f = blob.open('w'); f.write(x); f.flush() - and the handle stays open (one handle at a time in this model)
OpenWrite(b, x) ==
  /\ Idle /\ NoOpen /\ b \in Blobs
  /\ LET c == Touch(con) IN
     Viewable(c, b) /\ b \notin c.newb /\ con' = [Change(c, b, <<x>>, <<x>>) EXCEPT !.hw = {b}]
  /\ res' = OK("open-w")
  /\ UNCHANGED nextb /\ SameStore /\ DerivedCon
\* f = blob.open('r') on committed data, kept open
OpenRead(b) ==
  /\ Idle /\ NoOpen /\ b \in Blobs
  /\ LET c == Touch(con) IN
     /\ Viewable(c, b) /\ b \notin c.newb /\ b \notin DOMAIN c.work /\ b \notin Range(c.reg)
     /\ AView(c, b) \notin {Absent, Lost}
     /\ con' = [c EXCEPT !.hr = {b}, !.touched = @ \cup {b}]
  /\ res' = OK("open-r")
  /\ UNCHANGED nextb /\ SameStore /\ DerivedCon
CloseAll ==
  /\ Idle /\ ~NoOpen
  /\ con' = [con EXCEPT !.hw = {}, !.hr = {}]
  /\ res' = OK("close")
  /\ UNCHANGED nextb /\ SameStore /\ DerivedCon
\* transaction.begin() in a connection without changes that holds a reader open
Boundary ==
  /\ Idle /\ IsClean(con) /\ con.hr # {}
  /\ con' = AfterBoundary(con)
  /\ res' = OK("begin")
  /\ UNCHANGED nextb /\ SameStore /\ DerivedCon

(* ----------------------------- savepoints ------------------------------- *)
\* Connection.savepoint -> _commit(None) into the TmpStore: records into its file, working copies of
\* blobs renamed to <tmp>/savepoints*/<oid>-<serial>.spb, objects left as ghosts
Flush(c) ==
  IF ~c.spon THEN c
  ELSE [c EXCEPT !.spidx = @ \cup Range(c.reg) \cup c.newb,
                 !.spnew = @ \cup c.newb,
                 !.newb = {},
                 !.spfile = [b \in (DOMAIN @) \cup (DOMAIN c.work) |-> IF b \in DOMAIN c.work THEN c.work[b] ELSE @[b]],
                 !.work = <<>>,
                 !.reg = <<>>]

Savepoint ==
  /\ Idle /\ NoOpen /\ con.unl = {} /\ con.rel = {} /\ ~IsClean(con) /\ Len(con.sps) < MaxSp
  /\ LET f == Flush([con EXCEPT !.spon = TRUE]) IN
     con' = [f EXCEPT !.sps = Append(@, [idx |-> f.spidx, new |-> f.spnew, pval |-> f.pval,
                                         ideal |-> f.ideal, file |-> f.spfile])]
  /\ res' = OK("savepoint")
  /\ UNCHANGED nextb /\ SameStore /\ DerivedCon

\* Connection._rollback_savepoint: _abort() of what is registered, TmpStore.reset(position, index, creating);
\* nothing is done about the savepoint blob files
Rollback(k) ==
  /\ Idle /\ NoOpen /\ k \in 1..Len(con.sps)
  /\ LET s == con.sps[k] IN
     con' = [con EXCEPT !.work = <<>>, !.reg = <<>>, !.newb = {}, !.spidx = s.idx, !.spnew = s.new,
                        !.pval = s.pval, !.ideal = s.ideal,
                        !.spfile = IF SpbPerSerial THEN @ ELSE s.file,
                        !.sps = SubSeq(@, 1, k)]
  /\ res' = OK("rollback")
  /\ UNCHANGED nextb /\ SameStore /\ DerivedCon

\* transaction.abort() outside two-phase commit
AbortTxn ==
  /\ Idle /\ ~IsClean(con)
  /\ con' = AfterBoundary(con)
  /\ res' = OK("abort")
  /\ UNCHANGED nextb /\ SameStore /\ DerivedCon

(* --------------------------- two-phase commit --------------------------- *)
TpcBegin ==
  /\ Idle /\ NoOpen /\ ~IsClean(con) /\ clk < MaxTid
  /\ clk' = clk + 1
  /\ txn' = [who |-> "c1", tid |-> clk + 1, phase |-> "begun", staged |-> <<>>, target |-> 0]
  /\ res' = OK("tpc_begin")
  /\ UNCHANGED <<hist, files, old, dirty, leak, packed, con, nextb, aborted, aux>> /\ DerivedCon

\* Connection.commit: without savepoints the registered objects in registration order, an object that becomes
\* reachable right after its referrer; with savepoints first one more flush, then every oid of the TmpStore
\* index in oid order.  storeBlob = store() of the record (which may raise ConflictError), then the rename of
\* the file to <oid>/<tid>.blob and the entry in dirty_oids.
\* objects that become reachable while their referrer is pickled are stored last-found first (ObjectWriter's stack)
RECURSIVE RevSeqOfSet(_)
RevSeqOfSet(S) == IF S = {} THEN <<>> ELSE <<MaxS(S)>> \o RevSeqOfSet(S \ {MaxS(S)})
RECURSIVE Expand(_, _)
Expand(c, s) == IF s = <<>> THEN <<>>
                ELSE (IF Head(s) = 0 THEN <<0>> \o RevSeqOfSet(c.newb) ELSE <<Head(s)>>) \o Expand(c, Tail(s))
StoreSeq(c) == IF c.spon THEN SeqOfSet(c.spidx) ELSE Expand(c, c.reg)

StoreOne(c, tid, o, st) ==
  LET isNew == o \in c.newb \cup c.spnew
      conflict == ~isNew /\ CurTid(hist, o) # c.ser[o]
  IN IF conflict
     THEN \* the working copy was handed over (Blob._uncommitted) before store() raised: nobody owns it now;
          \* a savepoint file stays in the savepoint directory, which is removed with the TmpStore
          [st EXCEPT !.fail = TRUE,
                     !.leak = IF StoreFailLeaks /\ o \in Blobs /\ ~c.spon THEN Append(@, c.work[o]) ELSE @,
                     !.done = IF o \in Blobs THEN @ \cup {o} ELSE @]
     ELSE IF o = 0 THEN [st EXCEPT !.staged = Append(@, DataRec(0, RootD(RootRefs(c))))]
     ELSE IF o = P THEN [st EXCEPT !.staged = Append(@, DataRec(P, PlainD(c.pval[1])))]
     ELSE LET src == IF o \in DOMAIN c.work THEN c.work[o] ELSE c.spfile[o]
          IN IF st.fault
             THEN \* _blob_storeblob: the record is stored, rename_or_copy_blob has moved the file to its committed
                  \* name, then os.chmod fails: the call raises before dirty_oids.append
                  [st EXCEPT !.staged = Append(@, DataRec(o, BlobD)),
                             !.files = Put(@, <<o, tid>>, [c |-> src, w |-> IView(c, o), ro |-> FALSE, g |-> "failed-storeblob"]),
                             !.dirty = IF StoreFaultUntracked THEN @ ELSE @ \cup {<<o, tid>>},
                             !.done = @ \cup {o}, !.fail = TRUE, !.fault = FALSE, !.hit = TRUE]
             ELSE
             [st EXCEPT !.staged = Append(@, DataRec(o, BlobD)),
                        !.files = Put(@, <<o, tid>>, [c |-> src, w |-> IView(c, o), ro |-> TRUE, g |-> ""]),
                        !.dirty = @ \cup {<<o, tid>>},
                        !.done = @ \cup {o}]

RECURSIVE StoreFold(_, _, _, _)
StoreFold(c, tid, seq, st) ==
  IF seq = <<>> \/ st.fail THEN st
  ELSE StoreFold(c, tid, Tail(seq), StoreOne(c, tid, Head(seq), st))

StoreGen(fault) ==
  /\ txn.who = "c1" /\ txn.phase = "begun"
  /\ \E c \in {Flush(con)} :
     \E st \in {StoreFold(c, txn.tid, StoreSeq(c),
                          [staged |-> <<>>, files |-> files, dirty |-> dirty, leak |-> leak, fail |-> FALSE, done |-> {},
                           fault |-> fault, hit |-> FALSE])} :
        /\ fault => st.hit
        /\ files' = st.files /\ dirty' = st.dirty /\ leak' = st.leak
        /\ txn' = [txn EXCEPT !.phase = IF st.fail THEN "failed" ELSE "stored", !.staged = st.staged]
        /\ con' = [c EXCEPT !.work = IF c.spon THEN <<>> ELSE Drop(@, st.done), !.spfile = <<>>, !.spon = FALSE]
        /\ res' = IF st.hit THEN Out("commit", "OSError") ELSE IF st.fail THEN Out("commit", "ConflictError") ELSE OK("commit")
  /\ UNCHANGED <<hist, old, clk, packed, nextb, aborted, aux>> /\ DerivedCon
Store == StoreGen(FALSE)
\* the first storeBlob of the commit meets an I/O fault after the file was moved into place (a failing os.chmod)
StoreFault == txn.who = "c1" /\ StoreGen(TRUE)
StoreOK == Store /\ txn'.phase = "stored"
StoreFail == Store /\ txn'.phase = "failed"

Vote ==
  /\ txn.who # "none" /\ txn.phase = "stored"
  /\ txn' = [txn EXCEPT !.phase = "voted"]
  /\ res' = OK("tpc_vote")
  /\ UNCHANGED <<hist, files, old, dirty, leak, clk, packed, con, nextb, aborted, aux>> /\ DerivedCon

Forgotten(F, K) == [k \in DOMAIN F |-> IF k \in K THEN [F[k] EXCEPT !.g = "late-bookkeeping"] ELSE F[k]]
\* tpc_finish: the transaction joins the history, the dirty list is forgotten
Finish ==
  /\ txn.who # "none" /\ txn.phase = "voted"
  /\ hist' = Append(hist, Txn(txn.tid, txn.staged))
  /\ dirty' = {}
  \* (an entry of the second writer's abort that is still to come is forgotten with the list)
  /\ files' = Forgotten(files, {k \in dirty : k[2] # txn.tid})
  /\ con' = IF txn.who = "c1" THEN FreshCon(hist', files', txn.tid) ELSE con
  /\ txn' = NoTxn
  /\ res' = OK("tpc_finish")
  /\ UNCHANGED <<old, leak, clk, packed, nextb, aborted, aux>> /\ DerivedCommit

\* Connection.abort (called on a resource that has not voted): working copies of registered blobs and the
\* savepoint store go; TransactionalUndo.abort does nothing
ConnAbort ==
  /\ txn.who # "none" /\ txn.phase \in {"begun", "stored", "failed"}
  /\ txn' = [txn EXCEPT !.phase = "caborted"]
  /\ con' = IF txn.who = "c1" THEN [con EXCEPT !.work = <<>>, !.spfile = <<>>, !.spon = FALSE] ELSE con
  /\ res' = OK("abort")
  /\ UNCHANGED <<hist, files, old, dirty, leak, clk, packed, nextb, aborted, aux>> /\ DerivedCon

\* storage.tpc_abort: the files listed as dirty are removed - by FileStorage only if a vote happened (F4)
TpcAbort ==
  /\ txn.who # "none" /\ txn.phase \in {"caborted", "voted"}
  /\ LET cleans == txn.phase = "voted" \/ ~(IsMixin /\ AbortNeedsVote) IN
     /\ files' = IF cleans THEN Drop(files, dirty) ELSE files
     /\ dirty' = IF cleans THEN {} ELSE dirty
  /\ aborted' = aborted \cup {txn.tid}
  \* (ghost: a committed file of the second writer, still listed because its finish has not cleared the list yet)
  /\ aux' = [aux EXCEPT !.lost = [k \in (DOMAIN @) \cup {k \in (DOMAIN files) \ (DOMAIN files') : Committed(k)} |->
                                    IF k \in DOMAIN @ THEN @[k] ELSE "late-bookkeeping"]]
  /\ con' = IF txn.who = "c1" THEN FreshCon(hist, files', LastTid(hist)) ELSE con
  /\ txn' = NoTxn
  /\ res' = OK("tpc_abort")
  /\ UNCHANGED <<hist, old, leak, clk, packed, nextb>> /\ DerivedDrop

(* ------------------------------ second writer --------------------------- *)
\* another connection changes P or rewrites a blob and commits (atomic for c1: the commit lock)
OtherCommit(o, x) ==
  /\ Idle /\ aux.late = "none" /\ clk < MaxTid
  /\ o \in {P} \cup Blobs
  /\ Load(hist, o).k = "rev"
  /\ IF o = P THEN x \in PVals /\ <<x>> # Load(hist, P).d.v ELSE x \in Atoms
  /\ LET t == clk + 1 IN
     /\ hist' = Append(hist, Txn(t, <<DataRec(o, IF o = P THEN PlainD(x) ELSE BlobD)>>))
     /\ files' = IF o = P THEN files ELSE Put(files, <<o, t>>, [c |-> <<x>>, w |-> <<x>>, ro |-> TRUE, g |-> ""])
     /\ clk' = t
  /\ dirty' = {}
  /\ res' = OK("other")
  /\ UNCHANGED <<old, leak, packed, txn, con, nextb, aborted, aux>> /\ DerivedCommit

\* The second writer's commit of a rewritten blob, up to the point where the wrapped storage has aborted /
\* finished it and released the commit lock.  BlobStorage does its own bookkeeping only afterwards (Late): until
\* then the file and the dirty_oids entry of that transaction are still there and any other transaction may run.
\* OtherAbort: begin, storeBlob, the vote of another participant fails, tpc_abort.  OtherFinish: ..., tpc_finish.
OtherTpc(b, x, end) ==
  /\ Idle /\ IsWrapper /\ aux.late = "none" /\ clk < MaxTid
  /\ b \in Blobs /\ x \in Atoms /\ Load(hist, b).k = "rev"
  /\ LET t == clk + 1
         f == Put(files, <<b, t>>, [c |-> <<x>>, w |-> <<x>>, ro |-> TRUE, g |-> ""])
     IN /\ clk' = t
        /\ hist' = IF end = "finish" THEN Append(hist, Txn(t, <<DataRec(b, BlobD)>>)) ELSE hist
        /\ aborted' = IF end = "abort" THEN aborted \cup {t} ELSE aborted
        /\ IF LateBookkeeping
           THEN files' = f /\ dirty' = dirty \cup {<<b, t>>} /\ aux' = [aux EXCEPT !.late = end, !.ltid = t]
           ELSE /\ files' = IF end = "abort" THEN Drop(files, dirty) ELSE f
                /\ dirty' = {} /\ aux' = aux
  /\ res' = OK("other-" \o end)
  /\ UNCHANGED <<old, leak, packed, txn, con, nextb>>
OtherAbort(b, x) == OtherTpc(b, x, "abort") /\ DerivedEnd
OtherFinish(b, x) == OtherTpc(b, x, "finish") /\ DerivedCommit

\* the stopped thread goes on: _blob_tpc_abort() removes whatever dirty_oids lists NOW, _blob_tpc_finish() forgets
\* whatever it lists now - entries of the transaction that is in two-phase commit meanwhile included
Late ==
  /\ aux.late # "none"
  /\ LET others == {k \in dirty : k[2] # aux.ltid} IN
     IF aux.late = "abort"
     THEN /\ files' = Drop(files, dirty)
          /\ aux' = [late |-> "none", ltid |-> 0, utmp |-> aux.utmp,
                      lost |-> [k \in (DOMAIN aux.lost) \cup (others \cap DOMAIN files) |->
                                  IF k \in DOMAIN aux.lost THEN aux.lost[k] ELSE "late-bookkeeping"]]
     ELSE /\ files' = Forgotten(files, others)
          /\ aux' = [aux EXCEPT !.late = "none", !.ltid = 0]
  /\ dirty' = {}
  /\ res' = OK("late")
  /\ UNCHANGED <<hist, old, leak, clk, packed, txn, con, nextb, aborted>> /\ DerivedDrop

\* A 2PC call on the storage with a transaction that is not the one being committed, at any phase of the commit in
\* progress: rejected (StorageTransactionError; tpc_abort returns silently) without effect - except that the
\* wrapper's tpc_abort runs _blob_tpc_abort() all the same
WrongCalls == {"store", "storeBlob", "tpc_vote", "tpc_finish", "tpc_abort"}
Wrong(m) ==
  /\ m \in WrongCalls /\ txn.who # "none" /\ txn.phase \in {"begun", "stored", "voted"}
  /\ IF m = "tpc_abort" /\ IsWrapper /\ ForeignAbortCleans
     THEN /\ files' = Drop(files, dirty) /\ dirty' = {}
          /\ aux' = [aux EXCEPT !.lost = [k \in (DOMAIN @) \cup (dirty \cap DOMAIN files) |->
                                            IF k \in DOMAIN @ THEN @[k] ELSE "foreign-abort"]]
     ELSE UNCHANGED <<files, dirty, aux>>
  /\ res' = Out("wrong-" \o m, IF m = "tpc_abort" THEN "ok" ELSE "StorageTransactionError")
  /\ UNCHANGED <<hist, old, leak, clk, packed, txn, con, nextb, aborted>> /\ DerivedDrop

(* ---------------------------------- undo -------------------------------- *)
\* DB.undo(id) in a transaction of its own (TransactionalUndo): FileStorage._txn_undo_write /
\* _transactionalUndoRecord with nothing else staged; one record per oid per transaction in this model
UBegin(t) ==
  /\ Idle /\ aux.late = "none" /\ HasUndo /\ clk < MaxTid
  /\ t \in TidsOf(hist) /\ t > 2 /\ hist[TidPos(hist, t)].status = " "
  /\ clk' = clk + 1
  /\ txn' = [who |-> "undo", tid |-> clk + 1, phase |-> "begun", staged |-> <<>>, target |-> t]
  /\ res' = OK("tpc_begin")
  /\ UNCHANGED <<hist, files, old, dirty, leak, packed, con, nextb, aborted, aux>> /\ DerivedCon

\* tid of the record that physically holds the data reached from o's record in transaction i (_loadBackTxn)
RECURSIVE HolderTid(_, _, _)
HolderTid(H, i, o) ==
  LET r == RecOf(H, i, o) IN
  IF r.op = "data" THEN H[i].tid
  ELSE IF r.op = "zero" THEN 0
  ELSE LET p == TidPos(H, r.back) IN IF p = 0 \/ ~Writes(H, p, o) THEN 0 ELSE HolderTid(H, p, o)

UndoKind(H, i, o) ==
  LET r == RecOf(H, i, o)
      pre == PrevPos(H, i, o)
      cur == CurPos(H, o)
      curRec == RecOf(H, cur, o)
      bp == TidPos(H, curRec.back)
      cptr == IF curRec.op = "data" THEN cur
              ELSE IF curRec.op = "back" /\ bp # 0 /\ Writes(H, bp, o) THEN bp ELSE 0
      undone == DataOfRec(H, r)
      curD == DataOfRec(H, curRec)
      trivial == cur = i \/ cptr = i
      loadFail == ~trivial /\ (undone = Gone \/ curD = Gone)
      differ == ~trivial /\ ~loadFail /\ undone # curD
  IN IF loadFail THEN "fail"
     ELSE IF differ /\ pre = 0 THEN "fail"
     ELSE IF pre = 0 THEN "zero"
     ELSE IF ~differ THEN "back"
     ELSE "fail"                \* no class of this model has a _p_resolveConflict

RECURSIVE UndoRecs(_, _, _)
UndoRecs(H, i, j) ==
  IF j > Len(H[i].recs) THEN <<>>
  ELSE LET o == H[i].recs[j].oid
           k == UndoKind(H, i, o)
       IN (IF k = "zero" THEN <<ZeroRec(o)>>
           ELSE IF k = "back" THEN <<BackRec(o, H[PrevPos(H, i, o)].tid)>>
           ELSE <<>>) \o UndoRecs(H, i, j + 1)

\* BlobStorage.undo (wrapper over an undo-capable storage): first the wrapped storage's undo (an UndoError leaves
\* before any file is touched); then, for every oid that has a blob FILE carrying the undone tid (getOIDsForSerial,
\* ascending oid), loadBefore(oid, undone tid): no earlier revision -> the file of the undone transaction itself is
\* copied ("in case a user wishes to undo this undo"), else the file of that earlier revision; a revision that
\* does not load (undone creation) makes loadBefore raise POSKeyError out of undo().  The copy is written with a
\* plain open(): it keeps its write-permission bits.
WCands(t) == {o \in Blobs : <<o, t>> \in DOMAIN files}
WBad(t) == {o \in WCands(t) : LoadBefore(hist, o, t).k = "keyerr"}
WCopies(t) == IF WBad(t) = {} THEN WCands(t) ELSE {o \in WCands(t) : o < MinS(WBad(t))}
WSrc(o, t) == The({IF r.k = "rev" THEN <<o, r.serial>> ELSE <<o, t>> : r \in {LoadBefore(hist, o, t)}})

UStore ==
  /\ txn.who = "undo" /\ txn.phase = "begun"
  /\ LET i == TidPos(hist, txn.target)
         oids == {hist[i].recs[j].oid : j \in 1..Len(hist[i].recs)}
     IN \E kind \in {[o \in oids |-> UndoKind(hist, i, o)]} :
        LET fails == {o \in oids : kind[o] = "fail"}
            bfail == ~IsMixin /\ fails = {} /\ WBad(txn.target) # {}
        IN
        \* mixin: "We're undoing a blob modification operation.  We have to copy the blob data" (_txn_undo_write,
        \* record by record, before it knows whether another record fails)
        \E src \in {IF IsMixin
                     THEN [o \in {o \in oids \cap Blobs : kind[o] = "back" /\ HolderTid(hist, PrevPos(hist, i, o), o) # 0} |->
                             <<o, HolderTid(hist, PrevPos(hist, i, o), o)>>]
                     ELSE IF fails # {} THEN <<>>
                     ELSE [o \in WCopies(txn.target) |-> WSrc(o, txn.target)]} :
        LET copies == DOMAIN src
        IN /\ \A o \in copies : src[o] \in DOMAIN files
           /\ files' = [k \in (DOMAIN files) \cup {<<o, txn.tid>> : o \in copies} |->
                          IF k[2] = txn.tid /\ k[1] \in copies
                          THEN [c |-> files[src[k[1]]].c, w |-> files[src[k[1]]].w, ro |-> IsMixin, g |-> ""]
                          ELSE files[k]]
           /\ dirty' = dirty \cup {<<o, txn.tid>> : o \in copies}
           /\ txn' = [txn EXCEPT !.phase = IF fails = {} /\ ~bfail THEN "stored" ELSE "failed", !.staged = UndoRecs(hist, i, 1)]
           /\ res' = IF fails # {} THEN Out("commit", "UndoError")
                     ELSE IF bfail THEN Out("commit", "KeyError") ELSE OK("commit")
  /\ UNCHANGED <<hist, old, leak, clk, packed, con, nextb, aborted, aux>> /\ DerivedCon
UStoreOK == UStore /\ txn'.phase = "stored"
UStoreFail == UStore /\ txn'.phase = "failed"

\* One write of the blob copy inside undo() fails (I/O error): undo() raises.  Wrapper: the file it was writing,
\* <oid>/<undo tid>.blob, is there (empty when the first write failed) and - as the code is - not yet listed in
\* dirty_oids.  Mixin: the copy goes to a temporary file under tmp/ first, which stays (not judged).  The copy that
\* fails is the first one the call makes.
UCopies == IF IsMixin
           THEN LET i == TidPos(hist, txn.target) IN
                {o \in Blobs : Writes(hist, i, o) /\ UndoKind(hist, i, o) = "back" /\ HolderTid(hist, PrevPos(hist, i, o), o) # 0}
           ELSE WCopies(txn.target)
UFirstSrc == IF IsMixin
             THEN LET i == TidPos(hist, txn.target)
                      j == MinS({j \in 1..Len(hist[i].recs) : hist[i].recs[j].oid \in UCopies})
                      o == hist[i].recs[j].oid
                  IN <<o, HolderTid(hist, PrevPos(hist, i, o), o)>>
             ELSE WSrc(MinS(UCopies), txn.target)
UStoreCopyFail ==
  /\ txn.who = "undo" /\ txn.phase = "begun"
  /\ LET i == TidPos(hist, txn.target)
         oids == {hist[i].recs[j].oid : j \in 1..Len(hist[i].recs)}
     IN (IsMixin \/ \A o \in oids : UndoKind(hist, i, o) # "fail") /\ UCopies # {}
  /\ \E src \in {UFirstSrc} :
       /\ src \in DOMAIN files /\ files[src].c # <<>>
       /\ IF IsMixin
          THEN aux' = [aux EXCEPT !.utmp = IF UndoTempLeaks THEN @ + 1 ELSE @] /\ UNCHANGED <<files, dirty, leak>>
          ELSE /\ files' = Put(files, <<src[1], txn.tid>>, [c |-> <<>>, w |-> <<>>, ro |-> FALSE, g |-> "failed-undo-copy"])
               /\ dirty' = IF CopyFailUntracked THEN dirty ELSE dirty \cup {<<src[1], txn.tid>>}
               /\ leak' = leak /\ aux' = aux
  /\ txn' = [txn EXCEPT !.phase = "failed"]
  /\ res' = Out("commit", "OSError")
  /\ UNCHANGED <<hist, old, clk, packed, con, nextb, aborted>> /\ DerivedCon

(* ---------------------------------- pack -------------------------------- *)
(***************************************************************************)
(* LeanFilePack(H, T) = ZPackOps!FilePack(H, T, TRUE) for the histories of  *)
(* this module (at most one record per oid in a transaction, garbage        *)
(* collection on).  FilePack is the transcription C07 validates against the *)
(* code, but TLC re-evaluates its LET definitions at every use, which makes  *)
(* it take seconds on a history with a few undo records.  The lean version   *)
(* computes every intermediate result once (CHOOSE y \in {f(x) : x \in {e}}  *)
(* binds x to the VALUE of e).  LeanPackAgrees is checked by TLC in the      *)
(* exhaustive configurations; in the replays the real packer is the judge.   *)
(* A record position is <<transaction index, oid>>.                          *)
(***************************************************************************)
\* A packer returns its history as nested function expressions, which TLC keeps unevaluated until the state is
\* stored: every later H[i] in the same step would run the packer's record selection again.  Solid rebuilds
\* the history from evaluated parts (TLCEval makes a function explicit).
SolidRec(r) == [oid |-> r.oid, op |-> r.op, d |-> [v |-> r.d.v, refs |-> TLCEval(r.d.refs)], back |-> r.back,
                base |-> r.base, res |-> r.res]
SolidTxn(t) == [tid |-> t.tid, status |-> t.status, meta |-> t.meta,
                recs |-> TLCEval([j \in 1..Len(t.recs) |-> SolidRec(t.recs[j])])]
Solid(H) == TLCEval([i \in 1..Len(H) |-> The({SolidTxn(t) : t \in {H[i]}})])
OidsIn(H, i) == {H[i].recs[j].oid : j \in 1..Len(H[i].recs)}
RecAtP(H, p) == H[p[1]].recs[CHOOSE j \in 1..Len(H[p[1]].recs) : H[p[1]].recs[j].oid = p[2]]
PosSet(H, I) == UNION {{<<i, o>> : o \in OidsIn(H, i)} : i \in I}
RECURSIVE LClosure(_, _, _, _)
\* closure over the references of the records current at the pack time; oids in Stop are not expanded
LClosure(cur, D, S, Stop) ==
  LET N == S \cup UNION {IF cur[o] = 0 THEN {} ELSE D[<<cur[o], o>>].refs : o \in (S \ Stop) \cap DOMAIN cur}
  IN IF N = S THEN S ELSE LClosure(cur, D, N, Stop)
\* back-pointers from after the pack time to before it, per oid in file order: <<source index, target position>>
LCross(H, B, A, o) ==
  {<<i, <<TidPos(H, RecAtP(H, <<i, o>>).back), o>>>> :
     i \in {i \in A : o \in OidsIn(H, i) /\ RecAtP(H, <<i, o>>).op = "back"
                      /\ TidPos(H, RecAtP(H, <<i, o>>).back) \in B
                      /\ o \in OidsIn(H, TidPos(H, RecAtP(H, <<i, o>>).back))}}
LeanFinish(H, T, B, A, D, cur, reach, miss0, only, ex) ==
  LET all == OidsOf(H)
      rootSpecial == miss0 = {0} /\ \A o \in all : cur[o] = 0
      marked == reach \cup DOMAIN only
  IN The({
       LET miss1 == {o \in newly : o \notin DOMAIN cur \/ cur[o] = 0}
           keyerr == (miss0 # {} /\ ~rootSpecial) \/ miss1 # {}
           reachFinal == reach \cup (newly \ miss1)
       IN The({
            LET keptIn(i) == {o \in OidsIn(H, i) : <<i, o>> \in K}
                keptTxns == {i \in B : keptIn(i) # {}}
                freed == \E i \in B : \/ keptIn(i) # OidsIn(H, i)
                                       \/ H[i].recs = <<>>
                                       \/ \E j \in 1..Len(H[i].recs) : H[i].recs[j].op = "back"
                keptTids == {H[i].tid : i \in keptTxns} \cup {H[i].tid : i \in A}
                backsA == {p \in PosSet(H, A) : RecAtP(H, p).op = "back" /\ TidPos(H, RecAtP(H, p).back) \in B}
                packerr == \E p \in backsA : RecAtP(H, p).back \notin keptTids
                asserr == \E p \in backsA : \/ RecAtP(H, p).back \notin keptTids
                                             \/ <<TidPos(H, RecAtP(H, p).back), p[2]>> \notin K
                Conv(p) == IF D[p] = Gone
                           THEN [oid |-> p[2], op |-> "zero", d |-> NoD, back |-> 0, base |-> -1, res |-> FALSE]
                           ELSE [oid |-> p[2], op |-> "data", d |-> D[p], back |-> 0, base |-> -1, res |-> FALSE]
                packedTxn(i) == [tid |-> H[i].tid, status |-> "p", meta |-> H[i].meta,
                                 recs |-> LET ks == SelectSeq(H[i].recs, LAMBDA r : <<i, r.oid>> \in K)
                                          IN [k \in 1..Len(ks) |-> Conv(<<i, ks[k].oid>>)]]
                part1 == LET sq == SeqOfSet(keptTxns) IN [k \in 1..Len(sq) |-> packedTxn(sq[k])]
                part2 == LET sq == SeqOfSet(A) IN [k \in 1..Len(sq) |-> H[sq[k]]]
            IN IF keyerr THEN [out |-> "KeyError", h |-> H]
               ELSE IF ~freed THEN [out |-> "nothing-freed", h |-> H]
               ELSE IF packerr THEN [out |-> "PackError", h |-> H]
               ELSE IF asserr THEN [out |-> "AssertionError", h |-> H]
               ELSE [out |-> "ok", h |-> part1 \o part2,
                     \* oids the packer writes bare into .removed: a blob record it does not copy, of an oid it has not marked
                     wipe |-> {p[2] : p \in {p \in PosSet(H, B) \ K : p[2] \in Blobs /\ D[p] # Gone
                                                                     /\ p[2] \notin reachFinal \cup DOMAIN only}}]
            : K \in {{p \in PosSet(H, B) :
                        \/ (p[2] \in reachFinal /\ cur[p[2]] = p[1])
                        \/ p \in ex
                        \/ (p[2] \in DOMAIN only /\ p[2] \notin reachFinal /\ only[p[2]] = p)}}})
       : newly \in {LClosure(cur, D, UNION {D[p].refs : p \in ex}, marked) \ marked}})

LeanFilePack(H, T) ==
  The({
    LET unpacked == \E i \in B : H[i].status # "p"
        probe == IF A # {} THEN H[MinS(A)].status ELSE IF B # {} THEN H[MaxS(B)].status ELSE " "
    IN IF ~unpacked /\ probe = "p" THEN [out |-> "redundant", h |-> H]
       ELSE The({
         The({
           LET miss0 == {o \in R0 : o \notin DOMAIN cur \/ cur[o] = 0}
               reach == R0 \ miss0
               rootSpecial == miss0 = {0} /\ \A o \in DOMAIN cur : cur[o] = 0
               scan == miss0 = {} \/ rootSpecial
           IN The({
                LET firstOf(o) == The({c \in cross[o] : \A c2 \in cross[o] : c[1] <= c2[1]})
                    onlyOids == IF scan THEN {o \in DOMAIN cross : o \notin reach /\ cross[o] # {}} ELSE {}
                    only == [o \in onlyOids |-> firstOf(o)[2]]
                    ex == IF scan
                          THEN UNION {{c[2] : c \in IF o \in reach \/ cross[o] = {} THEN cross[o] ELSE cross[o] \ {firstOf(o)}} : o \in DOMAIN cross}
                          ELSE {}
                IN LeanFinish(H, T, B, A, D, cur, reach, miss0, only, ex)
                : cross \in {[o \in OidsOf(H) |-> LCross(H, B, A, o)]}})
           : R0 \in {LClosure(cur, D, {0}, {})}})
         : D \in {[p \in PosSet(H, 1..Len(H)) |-> DataOfRec(H, RecAtP(H, p))]},
           cur \in {[o \in OidsOf(H) |->
                       LET I == {i \in B : o \in OidsIn(H, i)}
                       IN IF I = {} THEN 0 ELSE IF RecAtP(H, <<MaxS(I), o>>).op = "zero" THEN 0 ELSE MaxS(I)]}})
    : B \in {{i \in 1..Len(H) : H[i].tid <= T}}, A \in {{i \in 1..Len(H) : H[i].tid > T}}})


\* mixin: the packer tags <oid><tid> of every blob record it does not copy (or <oid> when no record of the
\* object is left); _remove_blob_files_tagged_for_removal_during_pack removes them or moves them to <blobs>.old
MixinPackFiles(F, H, H2, wipe) ==
  LET removed == BlobRevsOf(H) \ BlobRevsOf(H2)
  IN IF PackWipesOidDir
     THEN [k \in {k \in DOMAIN F : k[1] \notin wipe /\ k \notin removed} |-> F[k]]
     ELSE [k \in {k \in DOMAIN F : k \notin removed} |-> F[k]]
\* wrapper, as the code is: per oid directory keep the newest file if the object loads, else remove the directory
NewestOnly(F, H2) ==
  LET T(b) == {k[2] : k \in {k \in DOMAIN F : k[1] = b}}
  IN [k \in {k \in DOMAIN F : Load(H2, k[1]).k = "rev" /\ k[2] = MaxS(T(k[1]))} |-> F[k]]
\* wrapper, repaired: keep the files of the revisions that still load (loadSerial), as _packUndoing does
LoadableOnly(F, H2) == [k \in {k \in DOMAIN F : k \in BlobRevsOf(H2)} |-> F[k]]

\* (\E x \in {e} makes TLC evaluate e once; a LET definition is re-evaluated at every use in an action)
Pack(T) ==
  /\ HasPack /\ Idle /\ NoOpen /\ aux.late = "none" /\ IsClean(con) /\ T \in 1..clk
  /\ \E r \in {IF IsMixin THEN LeanFilePack(hist, T) ELSE MappingPack(hist, T, TRUE, packed[2])} :
     LET done == r.out = "ok" IN
     \E h2 \in {IF done THEN Solid(r.h) ELSE hist} :
     \E nf \in {TLCEval(IF IsMixin THEN (IF done THEN MixinPackFiles(files, hist, h2, r.wipe) ELSE files)
                         ELSE IF r.out \in {"ok", "same-time"}
                              THEN (IF NonUndoPack THEN NewestOnly(files, h2) ELSE LoadableOnly(files, h2))
                              ELSE files)} :
        /\ hist' = h2
        /\ files' = nf
        /\ old' = IF IsMixin /\ KeepOld /\ done THEN files ELSE <<>>
        /\ packed' = <<IF done /\ T > packed[1] THEN T ELSE packed[1], IF ~IsMixin /\ done THEN T ELSE packed[2]>>
        /\ res' = Out("pack", r.out)
        /\ con' = FreshCon(h2, nf, LastTid(h2))
        \* (ghost: files of revisions the pack keeps, gone with their oid directory)
        /\ aux' = [aux EXCEPT !.lost = [k \in (DOMAIN @) \cup {k \in (DOMAIN files) \ (DOMAIN nf) : IsMixin /\ k \in BlobRevsOf(h2)} |->
                                          IF k \in DOMAIN @ THEN @[k] ELSE "pack-wiping-oid-directory"]]
  /\ UNCHANGED <<dirty, leak, clk, txn, nextb, aborted>> /\ DerivedAll

\* db.pack() on the wrapper while a commit is between storeBlob and tpc_finish (MappingStorage.pack does not wait
\* for the commit lock; the blob pack walks the directory as it finds it): the file of the transaction in progress
\* counts as the newest one of its oid, or - the object has no record yet - as garbage
PackDuring(T) ==
  \* (repaired: the blob walk holds the commit lock, i.e. such a pack waits and is an ordinary Pack afterwards)
  /\ PackIgnoresInFlight
  /\ Flavour = "wrapmap" /\ txn.who # "none" /\ txn.phase \in {"stored", "voted"} /\ aux.late = "none" /\ T \in 1..clk
  /\ \E r \in {MappingPack(hist, T, TRUE, packed[2])} :
     LET done == r.out = "ok" IN
     \E h2 \in {IF done THEN Solid(r.h) ELSE hist} :
     LET Pk(F) == IF NonUndoPack THEN NewestOnly(F, h2) ELSE LoadableOnly(F, h2)
         mine == [k \in (DOMAIN files) \cap dirty |-> files[k]]
         rest == Pk(Drop(files, dirty))
         spared == [k \in (DOMAIN rest) \cup (DOMAIN mine) |-> IF k \in DOMAIN mine THEN mine[k] ELSE rest[k]]
     IN
     \E nf \in {TLCEval(IF r.out \notin {"ok", "same-time"} THEN files
                         ELSE IF PackIgnoresInFlight THEN Pk(files) ELSE spared)} :
        /\ hist' = h2 /\ files' = nf
        /\ packed' = <<IF done /\ T > packed[1] THEN T ELSE packed[1], IF done THEN T ELSE packed[2]>>
        /\ aux' = [aux EXCEPT !.lost = [k \in (DOMAIN @) \cup ((DOMAIN spared) \ (DOMAIN nf)) |->
                                          IF k \in DOMAIN @ THEN @[k] ELSE "pack-during-commit"]]
        /\ res' = Out("pack", r.out)
  /\ UNCHANGED <<old, dirty, leak, clk, txn, con, nextb, aborted>> /\ DerivedAll

(* ---------------------------------- next -------------------------------- *)
Contents1 == {<<>>} \cup {<<x>> : x \in Atoms}
Next ==
  \/ \E b \in Blobs, c0 \in Contents1 : CreateBlob(b, c0)
  \/ \E b \in Blobs, x \in Atoms : Rewrite(b, x)
  \/ \E b \in Blobs, x \in Atoms : Append_(b, x)
  \/ \E b \in Blobs, x \in Atoms : ConsumeFile(b, x)
  \/ \E b \in Blobs : ConsumeFail(b)
  \/ \E b \in Blobs, x \in Atoms : OpenWrite(b, x)
  \/ \E b \in Blobs : OpenRead(b)
  \/ CloseAll \/ Boundary
  \/ \E b \in Blobs : Unlink(b)
  \/ \E b \in Blobs : Relink(b)
  \/ \E v \in PVals : ModifyP(v)
  \/ Savepoint
  \/ \E k \in 1..MaxSp : Rollback(k)
  \/ AbortTxn
  \/ TpcBegin \/ StoreOK \/ StoreFail \/ Vote \/ Finish \/ ConnAbort \/ TpcAbort
  \/ \E o \in 1..(NBlob + 1), x \in Atoms \cup PVals : OtherCommit(o, x)
  \/ \E t \in 3..MaxTid : UBegin(t)
  \/ UStoreOK \/ UStoreFail \/ UStoreCopyFail
  \/ \E T \in 1..MaxTid : Pack(T)
  \/ \E m \in WrongCalls : Wrong(m)
  \/ StoreFault
  \/ \E T \in 1..MaxTid : PackDuring(T)
  \/ \E b \in Blobs, x \in Atoms : OtherAbort(b, x)
  \/ \E b \in Blobs, x \in Atoms : OtherFinish(b, x)
  \/ Late

(* Sub-relations that direct simulation and bound model checking (a uniform walk spends its depth on Blob API
   calls).  Every disjunct stays a named action with constant-range arguments so that TLC labels the steps; a
   name ending in Q is the action of the same name under a scheduling guard. *)
Pending == ~IsClean(con)
\* at most two objects changed before the transaction moves on, one working copy per blob (an append may follow)
FewEdits == Len(con.reg) + Cardinality(con.newb) < 2
NoCopy(b) == b \notin DOMAIN con.work
CreateBlobQ(b, c0) == FewEdits /\ CreateBlob(b, c0)
RewriteQ(b, x) == NoCopy(b) /\ (FewEdits \/ b \in Range(con.reg)) /\ Rewrite(b, x)
AppendQ(b, x) == (FewEdits \/ b \in Range(con.reg) \/ b \in con.newb) /\ Append_(b, x)
ConsumeFileQ(b, x) == NoCopy(b) /\ (FewEdits \/ b \in Range(con.reg)) /\ ConsumeFile(b, x)
ModifyPQ(v) == con.pval = <<>> /\ FewEdits /\ ModifyP(v)
\* a failing consumeFile matters after a change of the blob (once), or as the first call on it
ConsumeFailQ(b) == res.call # "consume" /\ (b \in DOMAIN con.work \/ b \notin con.touched) /\ ConsumeFail(b)
\* a handle is opened on a blob the transaction has not touched yet; a boundary is taken after another commit
OpenWriteQ(b, x) == FewEdits /\ b \notin con.touched /\ OpenWrite(b, x)
OpenReadQ(b) == b \notin con.touched /\ OpenRead(b)
BoundaryQ == res.call \in {"other", "abort"} /\ Boundary
Handles == (\E b \in Blobs, x \in Atoms : OpenWriteQ(b, x)) \/ (\E b \in Blobs : OpenReadQ(b)) \/ CloseAll \/ BoundaryQ
UnlinkQ(b) == FewEdits /\ Unlink(b)
RelinkQ(b) == Relink(b)
Links == (\E b \in Blobs : UnlinkQ(b)) \/ (\E b \in Blobs : RelinkQ(b))
EditQ ==
  \/ \E b \in Blobs, c0 \in Contents1 : CreateBlobQ(b, c0)
  \/ \E b \in Blobs, x \in Atoms : RewriteQ(b, x)
  \/ \E b \in Blobs, x \in Atoms : AppendQ(b, x)
  \/ \E b \in Blobs, x \in Atoms : ConsumeFileQ(b, x)
  \/ \E b \in Blobs : ConsumeFailQ(b)
  \/ \E v \in PVals : ModifyPQ(v)
Tpc == TpcBegin \/ StoreOK \/ StoreFail \/ Vote \/ Finish
StoreFaultQ == txn.tid % 3 = 0 /\ StoreFault
AbortPath == ConnAbort \/ TpcAbort
ConnAbortQ == txn.phase = "failed" /\ ConnAbort          \* only the abort a failed store forces
TpcAbortQ == txn.phase = "caborted" /\ TpcAbort
Other == \E o \in 1..(NBlob + 1), x \in Atoms \cup PVals : OtherCommit(o, x)
OtherCommitQ(o, x) == Pending /\ OtherCommit(o, x)      \* a second writer that races with c1
OtherQ == \E o \in 1..(NBlob + 1), x \in Atoms \cup PVals : OtherCommitQ(o, x)
UndoAll == (\E t \in 3..MaxTid : UBegin(t)) \/ UStoreOK \/ UStoreFail \/ UStoreCopyFail
\* a foreign call right after a phase of the commit in progress (one per phase)
WrongQ(m) == res.call \in {"tpc_begin", "commit", "tpc_vote"} /\ Wrong(m)
WrongSome == \E m \in WrongCalls : WrongQ(m)
PackDuringQ(T) == res.call \in {"commit", "tpc_vote"} /\ T \in TidsOf(hist) /\ T >= packed[1] /\ PackDuring(T)
PackDuringSome == \E T \in 1..MaxTid : PackDuringQ(T)
\* the second writer's abort / finish that does its bookkeeping late, racing with a change of c1
OtherAbortQ(b, x) == Pending /\ OtherAbort(b, x)
OtherFinishQ(b, x) == Pending /\ OtherFinish(b, x)
\* (right after a store that failed there is no callback of the commit from which the replay could let the thread go)
LateQ == txn.phase # "failed" /\ Late
Race == (\E b \in Blobs, x \in Atoms : OtherAbortQ(b, x)) \/ (\E b \in Blobs, x \in Atoms : OtherFinishQ(b, x)) \/ LateQ
PackAny == \E T \in 1..MaxTid : Pack(T)
\* the packer transcription is costly to evaluate: in simulation a pack is tried right after a commit only,
\* at the tid boundaries not yet packed away
PackQ(T) == res.call \in {"tpc_finish", "other", "pack"} /\ T \in TidsOf(hist) /\ T >= packed[1] /\ Pack(T)
PackSome == \E T \in 1..MaxTid : PackQ(T)
Sp == Savepoint \/ \E k \in 1..MaxSp : Rollback(k)
\* simulation: a savepoint after a change, a rollback after a change or a savepoint, an abort of real work only
SavepointQ == (con.reg # <<>> \/ con.newb # {}) /\ Savepoint
RollbackQ(k) == res.call \in {"savepoint", "rewrite", "append", "consume", "create", "modify"} /\ Rollback(k)
SpQ == SavepointQ \/ \E k \in 1..MaxSp : RollbackQ(k)
AbortTxnQ == (con.spon \/ Len(con.reg) + Cardinality(con.newb) >= 2) /\ res.call # "rollback" /\ AbortTxn
\* abort points: a behaviour aborts a commit at most every second time
ConnAbortR == (txn.phase = "failed" \/ txn.tid % 2 = 0) /\ ConnAbort
TpcAbortR == (txn.phase = "caborted" \/ txn.tid % 2 = 0) /\ TpcAbort

NextCommit == EditQ \/ Tpc \/ ConnAbortQ \/ TpcAbortQ \/ OtherQ \/ Race \/ Handles \/ Other
NextAbort  == EditQ \/ Tpc \/ StoreFaultQ \/ ConnAbortR \/ TpcAbortR \/ AbortTxnQ \/ OtherQ \/ WrongSome \/ Race \/ Handles \/ AbortTxn
NextUndo   == EditQ \/ Tpc \/ ConnAbortR \/ TpcAbortR \/ OtherQ \/ UndoAll \/ WrongSome
NextPack   == EditQ \/ Links \/ Tpc \/ ConnAbortR \/ TpcAbortR \/ OtherQ \/ UndoAll \/ PackSome \/ PackDuringSome
NextSp     == EditQ \/ Tpc \/ ConnAbortR \/ TpcAbortR \/ AbortTxnQ \/ OtherQ \/ SpQ

(* ------------------------------ properties ------------------------------ *)
Contents == UNION {[1..n -> Atoms] : n \in 0..MaxLen}
TypeOK ==
  /\ \A k \in DOMAIN files : k[1] \in Blobs /\ k[2] \in 1..MaxTid /\ files[k].c \in Contents
  /\ dirty \subseteq DOMAIN files \cup {k \in Blobs \X (1..MaxTid) : k[2] \in aborted}
  /\ txn.who \in {"none", "c1", "undo"}
  /\ clk \in 2..MaxTid

\* C13, sentence 1 and 3: every committed blob revision has its file with the bytes written; every file belongs
\* to a committed transaction that wrote the oid (a file of the transaction in two-phase commit is not judged)
NoMissingFile == V("revision-without-file") \notin viol
NoFileOfAbortedTxn == V("file-of-aborted-transaction") \notin viol
NoFileOfRemovedRevision == V("file-of-removed-revision") \notin viol
BytesAsWritten == V("bytes-differ-from-written") \notin viol
CommittedReadOnly == \A v \in viol : v.inv # "CommittedFilesImmutable"
FilesMatchRecords == NoMissingFile /\ NoFileOfAbortedTxn /\ NoFileOfRemovedRevision /\ BytesAsWritten
NoViolation == viol = {}

\* a file of the transaction in progress carries a tid no snapshot can reach; every snapshot read succeeds
UncommittedInvisible == \A k \in DOMAIN files : InFlight(k) => \A t \in DOMAIN osnap : k[2] > t
SnapshotsReadable == \A t \in DOMAIN osnap : \A b \in Blobs : osnap[t][b] # Lost
\* the lean packer is the packer transcription of ZPackOps (on what this module can reach)
LeanPackAgrees == IsMixin => \A T \in 1..clk : LET r == LeanFilePack(hist, T) IN [out |-> r.out, h |-> r.h] = FilePack(hist, T, TRUE)
\* the incrementally maintained tables are the functions of the state they are meant to be
DerivedExact == osnap = SnapExpr /\ oiter = IterExpr /\ oview = ViewExpr /\ viol = ViolExpr

\* a committed file is never changed in place (content, permission bits)
CommittedFilesImmutable ==
  [][\A k \in (DOMAIN files) \cap (DOMAIN files') : Committed(k) => files'[k] = files[k]]_vars
\* pack removes precisely the files of the revisions it removes
PackRemovesExactly ==
  [][res'.call = "pack" =>
       /\ \A k \in BlobRevsOf(hist') : k \in DOMAIN files => k \in DOMAIN files'
       /\ \A k \in BlobRevsOf(hist) \ BlobRevsOf(hist') : k \notin DOMAIN files'
       /\ (KeepOld /\ res'.out = "ok") => old' = files]_vars
\* after the end of a transaction nothing of it is left outside the history
NothingLeftBehind == (Idle /\ aux.late = "none") => (dirty = {} /\ (IsClean(con) => DOMAIN con.spfile = {}))
=============================================================================
