--------------------------- MODULE MCZRecoverTool ---------------------------
(* Small damaged files for model checking ZRecoverTool: scaled layout (magic 1 byte; fixed header 3 bytes:  *)
(* id, length, status and metadata lengths; redundant length 1 byte), a few shapes of three transactions    *)
(* (with and without metadata, empty, with a back-pointer into an earlier transaction), and EVERY damaged   *)
(* byte range and EVERY truncation point of each.                                                            *)
EXTENDS ZRecoverTool
\* shape: sequence of [m: metadata bytes, b: record bytes, dep: earlier transactions its back-pointers lead into]
RECURSIVE MkExt(_, _, _)
MkExt(sh, k, at) == IF k > Len(sh) THEN <<>>
                    ELSE LET h == at + FH + sh[k].m
                             e == h + sh[k].b + TR
                         IN <<[s |-> at, h |-> h, e |-> e, dep |-> sh[k].dep]>> \o MkExt(sh, k + 1, e)
Extents(sh) == LET E == MkExt(sh, 1, MAGIC)
               IN [k \in 1..Len(E) |-> [s |-> E[k].s, h |-> E[k].h, e |-> E[k].e,
                                        deps |-> {<<E[j].h, E[j].e - TR>> : j \in E[k].dep}, dtx |-> E[k].dep]]
Sh(m, b, dep) == [m |-> m, b |-> b, dep |-> dep]
Shapes == { <<Sh(0, 2, {}), Sh(1, 0, {}), Sh(0, 3, {1})>>,
            <<Sh(1, 2, {}), Sh(0, 2, {1}), Sh(0, 1, {1, 2})>>,
            <<Sh(0, 1, {})>>,
            <<Sh(0, 0, {}), Sh(2, 4, {})>> }
SizeOf(E) == E[Len(E)].e
Damaged(E) == LET n == SizeOf(E) IN
  {[ext |-> E, size |-> n, lo |-> 0, hi |-> 0]}                                               \* undamaged
  \cup {[ext |-> E, size |-> n, lo |-> a, hi |-> b] : a \in 0..(n - 1), b \in 1..n}          \* damaged [a, b)  (a >= b: none)
  \cup {[ext |-> E, size |-> p, lo |-> p, hi |-> n] : p \in 0..(n - 1)}                        \* truncated at p
MCFiles == UNION {Damaged(Extents(sh)) : sh \in Shapes}
=============================================================================
