--------------------------- MODULE MCZRecoverCopy ---------------------------
(* C17 (a): the copy of every history ZStorage can reach (commits, undo records, un-creations,    *)
(* deletions, packed prefixes) answers every revision query exactly as the source; the copy of    *)
(* every range src.iterator(start) reproduces the transactions of the range.                      *)
(* HintRaises / IterNoLoadBlob = TRUE: restore() and the blob copy as the code has them (TLC then *)
(* exhibits a history and a start for which the range cannot be copied); FALSE: as documented.    *)
EXTENDS MCZStorage, ZRecover
CONSTANTS HintRaises, IterNoLoadBlob
CopyFaithful == CopyAgrees(hist, Oids)
CopyRestoresDefined == CopyDefined(hist)
CopyKeepsKinds == CopyExact(hist)
\* the highest oid is a blob (as the driver concretises blob histories); only a blob-enabled destination
\* goes through blob.copyTransactionsFromTo, so IterNoLoadBlob = FALSE also stands for a plain destination
MCBlobs == IF NOid > 1 THEN {NOid - 1} ELSE {}
RangeCopyFaithful == \A a \in RangeStarts(hist) : RangeCopyAgrees(hist, a, MCBlobs, HintRaises, IterNoLoadBlob)
=============================================================================
