--------------------------- MODULE MCZRecoverCopy ---------------------------
(* C17 (a): the copy of every history ZStorage can reach (commits, undo records, un-creations,    *)
(* deletions, packed prefixes) answers every revision query exactly as the source.               *)
EXTENDS MCZStorage, ZRecover
CopyFaithful == CopyAgrees(hist, Oids)
CopyRestoresDefined == CopyDefined(hist)
CopyKeepsKinds == CopyExact(hist)
=============================================================================
