------------------------------ MODULE ZRepozo ------------------------------
(***************************************************************************)
(* repozo (src/ZODB/scripts/repozo.py): full / incremental backups of a    *)
(* live FileStorage data file, recovery as of a date, verification.        *)
(*                                                                         *)
(* The source data file is a sequence of opaque chunks, one per committed  *)
(* transaction (the driver makes every transaction the same number of      *)
(* bytes, so a chunk offset k stands for the byte offset 4 + k*S, and 0    *)
(* for 0).  Every transaction writes the same object, so a pack to a time  *)
(* just after the k-th transaction of the file (Pack(k), every pack time   *)
(* there is) frees the k-1 transactions before it: for k > 1 the file is   *)
(* rewritten and every remaining chunk gets a fresh identity (positions    *)
(* and status bytes change); for k = 1 nothing is freed and FileStorage    *)
(* leaves the file alone ("pack didn't free any data").  Quick mode relies *)
(* on that: it looks at the size and at the last backed-up range only.     *)
(* A voted-but-unfinished transaction is one more                          *)
(* chunk at the end of the file (TailId) that a read-only open of the      *)
(* file does not count (status "c").  md5 sums are modelled by the         *)
(* chunk sequence they were computed from (equal sums <=> equal bytes).    *)
(*                                                                         *)
(* One action per operation that changes something: Commit, BeginTail,     *)
(* AbortTail, Pack(k), Backup(o) (transcription of do_backup / find_files  *)
(* / scandat / do_full_backup / do_incremental_backup /                    *)
(* delete_old_backups), Damage(t, kind).  The queries (do_recover for      *)
(* every date, do_verify full and quick) are the derived variable `obs`,   *)
(* a function of the other variables (no extra states) that TLC prints     *)
(* with every state: the replay performs the real calls after every step   *)
(* and compares.  `obs` also carries what the *property* demands (`want`,  *)
(* `must`): the snapshot (ghost variable `runs`) of the last run not later *)
(* than the date among those the repository still holds; that part does    *)
(* not depend on how the code chooses or reads files.                      *)
(*                                                                         *)
(* Two Boolean constants select the behaviour of the code as it is where   *)
(* it violates the property (TRUE = as the code is):                       *)
(*   QuickTrustsEmptyRange                                                 *)
(*                   quick mode (-Q) compares the md5 of the range of the  *)
(*                   last .dat line even when that range is empty (an      *)
(*                   incremental written while the only new bytes belonged *)
(*                   to a transaction in progress): the sums always match  *)
(*                   (F14).  FALSE: an empty last range says nothing, the  *)
(*                   run falls back to the comparing procedure             *)
(*   NoopPackRewrites                                                      *)
(*                   a pack that frees nothing still replaces the data     *)
(*                   file by a copy of the same size in which the          *)
(*                   transactions up to the pack time are flagged packed   *)
(*                   (not what FileStorage does: TLC shows that quick mode *)
(*                   would then miss the pack)                             *)
(*   ChainByListing  the chain of files to use is derived from the         *)
(*                   directory listing alone (F18); FALSE: from the        *)
(*                   listing *and* the .dat of its full backup, a missing  *)
(*                   member being an error                                 *)
(***************************************************************************)
EXTENDS Naturals, Sequences, FiniteSets, TLC

CONSTANTS MaxChunks,      \* bound on the committed chunks of the source file
          MaxOps,         \* bound on the number of actions
          MaxBackups,     \* bound on backup runs (a run = one timestamp)
          Opts,           \* option combinations of Backup: subset of 0..15, bits full=1 quick=2 gzip=4 killold=8
          QuickTrustsEmptyRange, NoopPackRewrites, ChainByListing

VARIABLES src,            \* committed chunks of the data file
          tail,           \* TRUE: a voted, unfinished transaction follows the committed part
          fresh,          \* next unused chunk identity
          packed,         \* the first transaction of the file carries the "packed" status (a pack got that far)
          now,            \* number of backup runs so far = timestamp of the last one
          files,          \* repository: data files in name (= time) order, each with its .index and (full) its .dat
          runs,           \* ghost: <<[t, snap]>> committed chunks at every backup run (also runs that wrote
                          \* nothing); runs[t].t = t
          dmg,            \* single-file damage: [t, kind]; t = 0: intact
          res,            \* outcome of the last action
          obs,            \* derived: answers of recover / verify and what the property demands of them
          ops

vars == <<src, tail, fresh, packed, now, files, runs, dmg, res, obs, ops>>

TailId == 0
NoDmg == [t |-> 0, kind |-> "none"]
OptFull(o)  == o % 2 = 1
OptQuick(o) == (o \div 2) % 2 = 1
OptGz(o)    == (o \div 4) % 2 = 1
OptKill(o)  == (o \div 8) % 2 = 1

Max(S) == CHOOSE x \in S : \A y \in S : y <= x
\* bytes [a, b) of a file, at chunk granularity
Range(s, a, b) == SubSeq(s, a + 1, b)
\* what os.path.getsize / open(options.file) see: the in-progress transaction is in the file
Bytes == IF tail THEN Append(src, TailId) ELSE src
\* FileStorage(options.file, read_only=True).getSize(): position after the last complete transaction
CommittedEnd == Len(src)

RECURSIVE Cat(_)
Cat(fs) == IF fs = <<>> THEN <<>> ELSE Head(fs).content \o Cat(Tail(fs))

(* ------------------------------ find_files ----------------------------- *)
\* newest file first, keep those named <= when, stop at the first full backup; chronological order
ChainOf(fs, when) ==
  LET IsLe(f) == f.t <= when
      le == SelectSeq(fs, IsLe)
      fulls == {i \in 1..Len(le) : le[i].full}
  IN IF fulls = {} THEN le ELSE SubSeq(le, Max(fulls), Len(le))

\* the directory listing under a damage
EffOf(fs, dm) ==
  LET Present(f) == ~(dm.kind = "missing" /\ f.t = dm.t)
  IN SelectSeq(fs, Present)
StateOf(f, dm) == IF f.t = dm.t THEN dm.kind ELSE "none"
Has(chain, t) == \E i \in 1..Len(chain) : chain[i].t = t
Pos(chain, t) == CHOOSE i \in 1..Len(chain) : chain[i].t = t

(* ------------------------------- source -------------------------------- *)
Op == ops < MaxOps /\ dmg = NoDmg /\ ops' = ops + 1
Did(a) == [act |-> a, dec |-> "", why |-> ""]

(* ------------------------------ do_recover ----------------------------- *)
RecoverOf(fs, dm, d) ==
  IF ChainByListing
  THEN LET ch == ChainOf(EffOf(fs, dm), d)
       IN IF ch = <<>> THEN [out |-> "nofiles", content |-> <<>>, ix |-> <<>>]
          ELSE [out |-> "ok", content |-> Cat(ch), ix |-> ch[Len(ch)].ix]
  ELSE LET ch == ChainOf(fs, d)
       IN IF ch = <<>> THEN [out |-> "nofiles", content |-> <<>>, ix |-> <<>>]
          ELSE IF dm.kind = "missing" /\ Has(ch, dm.t) THEN [out |-> "error", content |-> <<>>, ix |-> <<>>]
          ELSE [out |-> "ok", content |-> Cat(ch), ix |-> ch[Len(ch)].ix]

\* C18, recovery: the committed part of the data file at the time of the last backup not later than
\* the date that the repository still holds.  When a file the recovery needs has gone missing, the last
\* backup the repository still holds in full is the one written just before the missing file: the tool
\* may give that state or refuse; it must not give anything else.
WantOf(fs, rs, dm, d) ==
  LET held == {i \in 1..Len(rs) : fs # <<>> /\ rs[i].t <= d /\ rs[i].t >= fs[1].t}
      intended == ChainOf(fs, d)
      older == {i \in 1..Len(fs) : fs[i].t < dm.t}
  IN IF held = {} THEN [k |-> "none", run |-> 0, v |-> <<>>]
     ELSE IF dm.kind = "missing" /\ Has(intended, dm.t)
          THEN IF older = {} THEN [k |-> "refuse", run |-> 0, v |-> <<>>]
               ELSE LET t == fs[Max(older)].t IN [k |-> "snap-or-refuse", run |-> t, v |-> rs[t].snap]
          ELSE [k |-> "snap", run |-> Max(held), v |-> rs[Max(held)].snap]

(* ------------------------------ do_verify ------------------------------ *)
\* "ok" | "fail" | "any" (any: the model does not say - an altered byte under quick verification)
VerifyOf(fs, dm, n, q) ==
  LET listing == EffOf(fs, dm)
      ch == ChainOf(IF ChainByListing THEN listing ELSE fs, n + 1)
  IN IF ch = <<>> THEN "fail"                               \* NoFiles
     ELSE IF ~ch[1].full THEN "fail"                       \* no .dat next to an incremental: OSError
     ELSE LET lines == ch[1].dat
              Line(l) == IF ~Has(listing, l.f) THEN "fail"                     \* "... is missing"
                         ELSE LET st == StateOf(listing[Pos(listing, l.f)], dm)
                              IN CASE st = "trunc" -> "fail"                    \* size differs
                                   [] st = "alt" -> IF q THEN "any" ELSE "fail" \* checksum differs
                                   [] OTHER -> "ok"
              outs == {Line(lines[i]) : i \in 1..Len(lines)}
          IN IF "fail" \in outs THEN "fail" ELSE IF "any" \in outs THEN "any" ELSE "ok"

\* C18, verification (Damage only touches files of the chain verification is about)
MustOf(fs, dm, q) ==
  CASE dm.kind = "none" -> IF fs = <<>> THEN "any" ELSE "ok"
    [] dm.kind = "alt" -> IF q THEN "any" ELSE "fail"
    [] OTHER -> "fail"

\* where the damaged file sits (names the failing case structurally in reports)
DmgCtx(fs, dm, n) ==
  IF dm.t = 0 THEN [target |-> "none", place |-> "none", older |-> FALSE]
  ELSE LET ch == ChainOf(fs, n + 1)
           m == Pos(ch, dm.t)
       IN [target |-> IF ch[m].full THEN "full" ELSE "incr",
           place |-> IF Len(ch) = 1 THEN "only" ELSE IF m = 1 THEN "first" ELSE IF m = Len(ch) THEN "last" ELSE "middle",
           older |-> \E i \in 1..Len(fs) : fs[i].t < ch[1].t]

ObsOf(fs, rs, dm, n) ==
  [recover |-> IF dm.kind \in {"none", "missing"}
               THEN [d \in 1..n |-> [r |-> RecoverOf(fs, dm, d), want |-> WantOf(fs, rs, dm, d)]]
               ELSE <<>>,
   verify |-> [q \in BOOLEAN |-> [out |-> VerifyOf(fs, dm, n, q), must |-> MustOf(fs, dm, q)]],
   ctx |-> DmgCtx(fs, dm, n)]

Init == /\ src = <<1>> /\ tail = FALSE /\ fresh = 2 /\ packed = FALSE
        /\ now = 0 /\ files = <<>> /\ runs = <<>> /\ dmg = NoDmg /\ ops = 0
        /\ res = Did("init")
        /\ obs = ObsOf(<<>>, <<>>, NoDmg, 0)

SameRepo == UNCHANGED <<now, files, runs, dmg, obs>>

\* tpc_finish of a new transaction, or of the voted one (its status byte changes: a new identity)
Commit ==
  /\ Op /\ Len(src) < MaxChunks
  /\ src' = Append(src, fresh) /\ fresh' = fresh + 1 /\ tail' = FALSE /\ UNCHANGED packed
  /\ res' = Did("commit") /\ SameRepo

\* tpc_begin; store; tpc_vote - the transaction's bytes are in the file, flagged incomplete
BeginTail ==
  /\ Op /\ ~tail /\ Len(src) < MaxChunks
  /\ tail' = TRUE /\ res' = Did("begintail") /\ UNCHANGED <<src, fresh, packed>> /\ SameRepo

\* tpc_abort after the vote: the file is truncated back
AbortTail ==
  /\ Op /\ tail
  /\ tail' = FALSE /\ res' = Did("aborttail") /\ UNCHANGED <<src, fresh, packed>> /\ SameRepo

\* pack to a time just after the k-th transaction of the file: the revisions written by the k-1 transactions
\* before it are not current then and are freed (the packer takes the commit lock at the end, so no transaction
\* is in its vote).  k = 1: nothing to free, FileStorage stops ("pack didn't free any data") and the file stays as
\* it is - unless NoopPackRewrites, where the first transaction gets the packed flag if it does not carry it yet.
Pack(k) ==
  /\ Op /\ ~tail /\ k >= 1 /\ k <= Len(src)
  /\ IF k > 1
     THEN /\ src' = [i \in 1..(Len(src) - k + 1) |-> fresh + i - 1]
          /\ fresh' = fresh + Len(src) - k + 1
          /\ packed' = TRUE
          /\ res' = [act |-> "pack", dec |-> "freed", why |-> ""]
     ELSE IF NoopPackRewrites /\ ~packed
     THEN /\ src' = <<fresh>> \o Tail(src)
          /\ fresh' = fresh + 1
          /\ packed' = TRUE
          /\ res' = [act |-> "pack", dec |-> "rewritten", why |-> ""]
     ELSE /\ UNCHANGED <<src, fresh, packed>>
          /\ res' = [act |-> "pack", dec |-> "nothing-freed", why |-> ""]
  /\ UNCHANGED tail /\ SameRepo

(* ------------------------------ do_backup ------------------------------ *)
Dec(d, w, from) == [dec |-> d, why |-> w, from |-> from]

\* the decision procedure of do_backup (repofiles = find_files(options) with date = now)
Decide(o, ch) ==
  IF OptFull(o) THEN Dec("full", "forced", 0)
  ELSE IF ch = <<>> THEN Dec("full", "norepo", 0)
  ELSE
  LET srcsz == Len(Bytes)
      lines == IF ch[1].full THEN ch[1].dat ELSE <<>>                \* scandat(repofiles): last line of the .dat
      last == lines[Len(lines)]
      quick == OptQuick(o) /\ (lines = <<>> \/ QuickTrustsEmptyRange \/ last.s # last.e)
  IN
  IF quick
  THEN IF lines = <<>> THEN Dec("full", "nodat", 0)
       ELSE LET w == IF last.s = last.e THEN "quick-empty-range" ELSE "quick-last-range"
            IN IF srcsz < last.e THEN Dec("full", "shrunk", 0)
               ELSE IF Range(Bytes, last.s, last.e) = last.sum
                    THEN IF srcsz = last.e THEN Dec("nochange", w, 0) ELSE Dec("incr", w, last.e)
                    ELSE Dec("full", "changed", 0)
  ELSE LET repo == Cat(ch)
           reposz == Len(repo)
       IN IF srcsz = reposz /\ Bytes = repo THEN Dec("nochange", "whole", 0)
          ELSE IF srcsz < reposz THEN Dec("full", "shrunk", 0)
          ELSE IF SubSeq(Bytes, 1, reposz) = repo THEN Dec("incr", "prefix", reposz)
          ELSE Dec("full", "changed", 0)

AddLine(fs, base, line) ==
  [i \in 1..Len(fs) |-> IF fs[i].t = base THEN [fs[i] EXCEPT !.dat = Append(@, line)] ELSE fs[i]]

Backup(o) ==
  /\ Op /\ now < MaxBackups
  /\ LET t == now + 1
         ch == ChainOf(files, t)
         dc == Decide(o, ch)
         pos == CommittedEnd
         full == [t |-> t, full |-> TRUE, gz |-> OptGz(o), content |-> src, ix |-> src,
                  dat |-> <<[f |-> t, s |-> 0, e |-> pos, sum |-> src]>>]
         inc == [t |-> t, full |-> FALSE, gz |-> OptGz(o), content |-> Range(src, dc.from, pos), ix |-> src,
                 dat |-> <<>>]
     IN /\ dc.dec = "incr" => dc.from <= pos       \* copyfile asserts it copied pos - reposz bytes
        /\ now' = t
        /\ runs' = Append(runs, [t |-> t, snap |-> src])
        /\ files' = CASE dc.dec = "full" -> IF OptKill(o) THEN <<full>> ELSE Append(files, full)   \* delete_old_backups
                      [] dc.dec = "incr" -> Append(AddLine(files, ch[1].t,
                                                            [f |-> t, s |-> dc.from, e |-> pos, sum |-> inc.content]), inc)
                      [] OTHER -> files
        /\ res' = [act |-> "backup", dec |-> dc.dec, why |-> dc.why]
        /\ obs' = ObsOf(files', runs', dmg, now')
  /\ UNCHANGED <<src, tail, fresh, packed, dmg>>

(* ------------------------------- damage -------------------------------- *)
\* one file of the chain that verification (and a dateless recovery) is about; nothing happens afterwards
Damage(t, kind) ==
  /\ Op
  /\ LET ch == ChainOf(files, now + 1)
     IN /\ Has(ch, t)
        /\ kind \in {"trunc", "alt"} => ch[Pos(ch, t)].content # <<>>
  /\ dmg' = [t |-> t, kind |-> kind]
  /\ res' = Did("damage")
  /\ obs' = ObsOf(files, runs, dmg', now)
  /\ UNCHANGED <<src, tail, fresh, packed, now, files, runs>>

Kinds == {"missing", "trunc", "alt"}
SourceStep == Commit \/ BeginTail \/ AbortTail \/ (\E k \in 1..MaxChunks : Pack(k))
Next == \/ Commit \/ BeginTail \/ AbortTail
        \/ \E k \in 1..MaxChunks : Pack(k)
        \/ \E o \in Opts : Backup(o)
        \/ \E t \in 1..MaxBackups, k \in Kinds : Damage(t, k)
\* sub-relations for directed runs
NextNoDamage == \/ Commit \/ BeginTail \/ AbortTail
                \/ \E k \in 1..MaxChunks : Pack(k)
                \/ \E o \in Opts : Backup(o)
NextMissing == \/ Commit \/ BeginTail \/ AbortTail
               \/ \E k \in 1..MaxChunks : Pack(k)
               \/ \E o \in Opts : Backup(o)
               \/ \E t \in 1..MaxBackups : Damage(t, "missing")

NextMissingNoTail == \/ Commit
                     \/ \E k \in 1..MaxChunks : Pack(k)
                     \/ \E o \in Opts : Backup(o)
                     \/ \E t \in 1..MaxBackups : Damage(t, "missing")

(* ------------------------------ properties ----------------------------- *)
ObsDerived == obs = ObsOf(files, runs, dmg, now)

\* recovering as of any date gives the committed part of the data file at the last backup not later than
\* the date that the repository still holds, and the index saved with it
RecoverExact ==
  \A d \in DOMAIN obs.recover :
    LET x == obs.recover[d]
    IN CASE x.want.k = "snap" -> x.r.out = "ok" /\ x.r.content = x.want.v /\ x.r.ix = x.want.v
         [] x.want.k = "snap-or-refuse" -> x.r.out = "ok" => (x.r.content = x.want.v /\ x.r.ix = x.want.v)
         [] x.want.k = "refuse" -> x.r.out # "ok"
         [] OTHER -> TRUE

\* a backup holds complete transactions only, laid end to end from its recorded start
BackupOnlyCompleteTxns ==
  \A i \in 1..Len(files) :
    /\ \A j \in 1..Len(files[i].content) : files[i].content[j] # TailId
    /\ files[i].full => \A k \in 1..Len(files[i].dat) : files[i].dat[k].e - files[i].dat[k].s = Len(files[i].dat[k].sum)

\* full verification passes on an intact repository and fails on a missing / truncated / altered file,
\* quick verification on a missing / truncated one
VerifyDetects ==
  \A q \in BOOLEAN : obs.verify[q].must # "any" => obs.verify[q].out = obs.verify[q].must

\* do_incremental_backup never starts beyond the last complete transaction (copyfile asserts it)
IncrWithinFile ==
  (dmg = NoDmg /\ now < MaxBackups) =>
    \A o \in Opts : LET dc == Decide(o, ChainOf(files, now + 1))
                    IN dc.dec = "incr" => dc.from <= CommittedEnd

\* structure the transcription relies on
RepoShape ==
  /\ \A i \in 1..Len(files) : i > 1 => files[i - 1].t < files[i].t
  /\ files # <<>> => files[1].full              \* without damage the oldest file is a full backup
  /\ Len(runs) = now
=============================================================================
