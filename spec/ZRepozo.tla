------------------------------ MODULE ZRepozo ------------------------------
(***************************************************************************)
(* repozo (src/ZODB/scripts/repozo.py): full / incremental backups of a    *)
(* live FileStorage data file, recovery as of a date, verification.        *)
(*                                                                         *)
(* The source data file is a sequence of opaque chunks, one per committed  *)
(* transaction (the driver makes every transaction the same number of      *)
(* bytes, so a chunk offset k stands for the byte offset 4 + k*S, and 0    *)
(* for 0).  Every transaction writes the same object, so a pack to a time  *)
(* just after the k-th transaction of the file (Pack(k), every pack time   *)
(* there is) frees the k-1 transactions before it: for k > 1 the file is   *)
(* rewritten and every remaining chunk gets a fresh identity (positions    *)
(* and status bytes change); for k = 1 nothing is freed and FileStorage    *)
(* leaves the file alone ("pack didn't free any data").  Quick mode relies *)
(* on that: it looks at the size and at the last backed-up range only.     *)
(* A voted-but-unfinished transaction is one more chunk at the end of the  *)
(* file (TailId) that a read-only open of the file does not count (status  *)
(* "c").  md5 sums are modelled by the chunk sequence they were computed   *)
(* from (equal sums <=> equal bytes).                                      *)
(*                                                                         *)
(* The repository is what the directory holds: data files named by time    *)
(* stamp (1 s resolution) + kind (.deltafs < .deltafsz < .fs < .fsz in     *)
(* name order), one .index per time stamp, one .dat per time stamp of a    *)
(* full backup.  The clock need not advance between two runs.              *)
(*                                                                         *)
(* One action per operation that changes something: Commit, BeginTail,     *)
(* AbortTail, Pack(k), Backup(o, adv) (transcription of do_backup /        *)
(* find_files / scandat / do_full_backup / do_incremental_backup /         *)
(* delete_old_backups), Damage(t, r, kind) of any one file.  The queries   *)
(* (do_recover for every date - full and truncated date form, with and     *)
(* without -w -, do_verify full and quick) are the derived variable `obs`, *)
(* a function of the other variables (no extra states) that TLC prints     *)
(* with every state: the replay performs the real calls and compares.      *)
(* `obs` also carries what the *property* demands (`want`, `must`): the    *)
(* snapshot (ghost variable `runs`) of the last run not later than the     *)
(* date among those the repository still holds; that part does not depend  *)
(* on how the code chooses or reads files.                                 *)
(*                                                                         *)
(* Boolean constants select the behaviour of the code as it is where it    *)
(* violates the property (TRUE = as the code is / was):                    *)
(*   QuickTrustsEmptyRange  quick mode (-Q) compares the md5 of the range  *)
(*        of the last .dat line even when that range is empty (F14).       *)
(*        FALSE: the run falls back to the comparing procedure             *)
(*   NoopPackRewrites  a pack that frees nothing still replaces the data   *)
(*        file by a copy of the same size with the packed flags set (not   *)
(*        what FileStorage does: quick mode would miss the pack)           *)
(*   ChainByListing  the chain of files to use is derived from the         *)
(*        directory listing alone (F18); FALSE: a missing member of the    *)
(*        recorded chain is an error                                       *)
(*   VerifyNewestOnly  verification reads the .dat of the newest full      *)
(*        backup only; files of older generations are never looked at.     *)
(*        FALSE: every .dat of the repository is verified                  *)
(*   SameStampAllowed  a run is refused only if the very file name exists; *)
(*        a full backup and an incremental of one clock second give T.fs   *)
(*        and T.deltafs, share T.index (and T.dat with a second full), and *)
(*        find_files meets T.fs first.  FALSE: a run into a second that    *)
(*        already holds a backup file is refused                           *)
(*   ShortDateStrict  a truncated date (yyyy-mm-dd[-hh[-mm]]) is compared  *)
(*        as a string with the file names and so excludes the backup taken *)
(*        at exactly that instant.  FALSE: it means that instant           *)
(***************************************************************************)
EXTENDS Naturals, Sequences, FiniteSets, TLC

CONSTANTS MaxChunks,      \* bound on the committed chunks of the source file
          MaxOps,         \* bound on the number of actions
          MaxBackups,     \* bound on backup runs
          MaxSame,        \* bound on runs made without the clock having advanced
          Opts,           \* option combinations of Backup: subset of 0..15, bits full=1 quick=2 gzip=4 killold=8
          QuickTrustsEmptyRange, NoopPackRewrites, ChainByListing, VerifyNewestOnly, SameStampAllowed, ShortDateStrict

VARIABLES src,            \* committed chunks of the data file
          tail,           \* TRUE: a voted, unfinished transaction follows the committed part
          fresh,          \* next unused chunk identity
          packed,         \* the first transaction of the file carries the "packed" status (a pack got that far)
          now,            \* the clock (seconds); a run at second t names its files t
          nb,             \* number of backup runs so far
          same,           \* number of runs made without the clock having advanced
          files,          \* data files in name order: [t, full, gz, content, by]  (by: ghost, index into runs)
          idx,            \* .index files: <<[t, ix]>>
          dats,           \* .dat files: <<[t, lines]>>, a line = [t, full, gz, s, e, sum] naming a data file
          runs,           \* ghost: <<[t, snap]>> committed chunks at every backup run that was not refused
          shared,         \* ghost: some file was written into a second that already held one
          dmg,            \* single-file damage: [t, r, kind]; r = rank of the data file's kind, 4 = the .index; t = 0: intact
          res,            \* outcome of the last action
          obs,            \* derived: answers of recover / verify and what the property demands of them
          ops

vars == <<src, tail, fresh, packed, now, nb, same, files, idx, dats, runs, shared, dmg, res, obs, ops>>

TailId == 0
NoDmg == [t |-> 0, r |-> 0, kind |-> "none"]
OptFull(o)  == o % 2 = 1
OptQuick(o) == (o \div 2) % 2 = 1
OptGz(o)    == (o \div 4) % 2 = 1
OptKill(o)  == (o \div 8) % 2 = 1

Max(S) == CHOOSE x \in S : \A y \in S : y <= x
Min(S) == CHOOSE x \in S : \A y \in S : x <= y
\* bytes [a, b) of a file, at chunk granularity
Range(s, a, b) == SubSeq(s, a + 1, b)
\* what os.path.getsize / open(options.file) see: the in-progress transaction is in the file
Bytes == IF tail THEN Append(src, TailId) ELSE src
\* FileStorage(options.file, read_only=True).getSize(): position after the last complete transaction
CommittedEnd == Len(src)

RECURSIVE Cat(_)
Cat(fs) == IF fs = <<>> THEN <<>> ELSE Head(fs).content \o Cat(Tail(fs))

(* ------------------------------ file names ----------------------------- *)
\* '.deltafs' < '.deltafsz' < '.fs' < '.fsz' as strings
Rank(f) == (IF f.full THEN 2 ELSE 0) + (IF f.gz THEN 1 ELSE 0)
Key(f) == f.t * 4 + Rank(f)
Named(f, t, r) == f.t = t /\ Rank(f) = r
LineIs(l, f) == l.t = f.t /\ l.full = f.full /\ l.gz = f.gz
Insert(fs, f) ==
  LET Lt(g) == Key(g) < Key(f)
      Gt(g) == Key(g) > Key(f)
  IN SelectSeq(fs, Lt) \o <<f>> \o SelectSeq(fs, Gt)
HasT(sq, t) == \E i \in 1..Len(sq) : sq[i].t = t
AtT(sq, t) == sq[CHOOSE i \in 1..Len(sq) : sq[i].t = t]
DropT(sq, T) == LET Keep(e) == e.t \notin T IN SelectSeq(sq, Keep)
SetT(sq, e) == IF HasT(sq, e.t) THEN [i \in 1..Len(sq) |-> IF sq[i].t = e.t THEN e ELSE sq[i]] ELSE Append(sq, e)
LinesAt(dts, t) == IF HasT(dts, t) THEN AtT(dts, t).lines ELSE <<>>

(* ------------------------------ find_files ----------------------------- *)
\* newest name first, keep those whose stamp is <= when, stop at the first full backup; chronological order.
\* strict: `when` is a truncated date string, which sorts before the full stamp of the same instant
ChainOf(fs, when, strict) ==
  LET IsLe(f) == IF strict THEN f.t < when ELSE f.t <= when
      le == SelectSeq(fs, IsLe)
      fulls == {i \in 1..Len(le) : le[i].full}
  IN IF fulls = {} THEN le ELSE SubSeq(le, Max(fulls), Len(le))

\* the directory listing under a damage
DataDmg(dm) == dm.t # 0 /\ dm.r < 4
IndexDmg(dm) == dm.t # 0 /\ dm.r = 4
EffOf(fs, dm) ==
  LET Present(f) == ~(dm.kind = "missing" /\ DataDmg(dm) /\ Named(f, dm.t, dm.r))
  IN SelectSeq(fs, Present)
StateOf(f, dm) == IF DataDmg(dm) /\ Named(f, dm.t, dm.r) THEN dm.kind ELSE "none"
HasFile(chain, t, r) == \E i \in 1..Len(chain) : Named(chain[i], t, r)
PosFile(chain, t, r) == CHOOSE i \in 1..Len(chain) : Named(chain[i], t, r)

(* ------------------------------- source -------------------------------- *)
Op == ops < MaxOps /\ dmg = NoDmg /\ ops' = ops + 1
Did(a) == [act |-> a, dec |-> "", why |-> ""]

(* ------------------------------ do_recover ----------------------------- *)
NoIx == [has |-> FALSE, bad |-> FALSE, v |-> <<>>]
\* the index copied next to the output: the .index named like the last file of the chain, if there is one
IxOf(ix, dm, t) ==
  IF ~HasT(ix, t) \/ (IndexDmg(dm) /\ dm.t = t /\ dm.kind = "missing") THEN NoIx
  ELSE IF IndexDmg(dm) /\ dm.t = t THEN [has |-> TRUE, bad |-> TRUE, v |-> <<>>]
  ELSE [has |-> TRUE, bad |-> FALSE, v |-> AtT(ix, t).ix]

Refused(o) == [out |-> o, content |-> <<>>, ix |-> NoIx]

\* w: --with-verify (sizes and sums of the files *found* are compared with the .dat of the chain's first file)
RecoverOf(fs, ix, dts, dm, d, strict, w) ==
  LET missing == dm.kind = "missing" /\ DataDmg(dm)
      ch == ChainOf(IF ChainByListing THEN EffOf(fs, dm) ELSE fs, d, strict)
      lines == LinesAt(dts, ch[1].t)
      Known(f) == \E i \in 1..Len(lines) : LineIs(lines[i], f)
  IN IF ch = <<>> THEN Refused("nofiles")
     ELSE IF ~ChainByListing /\ missing /\ HasFile(ch, dm.t, dm.r) THEN Refused("error")
     ELSE IF w /\ (~HasT(dts, ch[1].t) \/ \E i \in 1..Len(ch) : ~Known(ch[i])) THEN Refused("error")
     ELSE [out |-> "ok", content |-> Cat(ch), ix |-> IxOf(ix, dm, ch[Len(ch)].t)]

\* C18, recovery: the committed part of the data file at the time of the last backup not later than
\* the date that the repository still holds.  When a file the recovery needs has gone missing, the last
\* backup the repository still holds in full is the one written just before the missing file: the tool
\* may give that state or refuse; it must not give anything else.  (ix: whether the restored index is judged -
\* not when an .index file itself was damaged: nothing is recorded about those.)
WantOf(fs, rs, dm, d) ==
  LET held == {i \in 1..Len(rs) : fs # <<>> /\ rs[i].t <= d /\ rs[i].t >= fs[1].t}
      intended == ChainOf(fs, d, FALSE)
      older == {i \in 1..Len(fs) : Key(fs[i]) < dm.t * 4 + dm.r}
      jx == IF IndexDmg(dm) THEN "any" ELSE "exact"
  IN IF held = {} THEN [k |-> "none", run |-> 0, v |-> <<>>, ix |-> jx]
     ELSE IF dm.kind = "missing" /\ DataDmg(dm) /\ HasFile(intended, dm.t, dm.r)
          THEN IF older = {} THEN [k |-> "refuse", run |-> 0, v |-> <<>>, ix |-> jx]
               ELSE LET b == fs[Max(older)].by IN [k |-> "snap-or-refuse", run |-> b, v |-> rs[b].snap, ix |-> jx]
          ELSE [k |-> "snap", run |-> Max(held), v |-> rs[Max(held)].snap, ix |-> jx]

(* ------------------------------ do_verify ------------------------------ *)
\* "ok" | "fail" | "any" (any: the model does not say - an altered byte under quick verification)
VerifyOf(fs, dts, dm, n, q) ==
  LET listing == EffOf(fs, dm)
      Line(l) == IF ~\E i \in 1..Len(listing) : LineIs(l, listing[i]) THEN "fail"     \* "... is missing"
                 ELSE LET f == listing[CHOOSE i \in 1..Len(listing) : LineIs(l, listing[i])]
                          st == StateOf(f, dm)
                      IN CASE st = "trunc" -> "fail"                                  \* size differs
                           [] st = "alt" -> IF q THEN "any" ELSE "fail"               \* checksum differs
                           [] OTHER -> "ok"
      Outs(lines) == {Line(lines[i]) : i \in 1..Len(lines)}
      Sum(outs) == IF "fail" \in outs THEN "fail" ELSE IF "any" \in outs THEN "any" ELSE "ok"
  IN IF VerifyNewestOnly
     THEN LET ch == ChainOf(IF ChainByListing THEN listing ELSE fs, n, FALSE)
          IN IF ch = <<>> THEN "fail"                               \* NoFiles
             ELSE IF ~HasT(dts, ch[1].t) THEN "fail"               \* no such .dat: OSError
             ELSE Sum(Outs(AtT(dts, ch[1].t).lines))
     ELSE IF fs = <<>> THEN "fail"
          ELSE Sum(UNION {Outs(dts[j].lines) : j \in 1..Len(dts)})

\* C18, verification: every data file of the repository, whatever its generation.  Nothing is recorded about
\* .index files ("differs ... from what was recorded"), so their damage is exercised but not judged.
MustOf(fs, dm, q) ==
  CASE dm.kind = "none" -> IF fs = <<>> THEN "any" ELSE "ok"
    [] IndexDmg(dm) -> "any"
    [] dm.kind = "alt" -> IF q THEN "any" ELSE "fail"
    [] OTHER -> "fail"

\* where the damaged file sits (names the failing case structurally in reports): its generation = the files from
\* the full backup before it (in name order) up to the next full backup
DmgCtx(fs, dm, sh) ==
  IF dm.t = 0 THEN [target |-> "none", place |-> "none", older |-> FALSE, shared |-> sh]
  ELSE IF IndexDmg(dm) THEN [target |-> "index", place |-> "none", older |-> FALSE, shared |-> sh]
  ELSE LET m == PosFile(fs, dm.t, dm.r)
           fullsLe == {i \in 1..m : fs[i].full}
           fullsGt == {i \in (m + 1)..Len(fs) : fs[i].full}
           b == IF fullsLe = {} THEN 1 ELSE Max(fullsLe)
           e == IF fullsGt = {} THEN Len(fs) ELSE Min(fullsGt) - 1
           gen == IF fullsGt = {} THEN "" ELSE "older-"
       IN [target |-> IF fs[m].full THEN gen \o "full" ELSE gen \o "incr",
           place |-> IF b = e THEN "only" ELSE IF m = b THEN "first" ELSE IF m = e THEN "last" ELSE "middle",
           older |-> b > 1, shared |-> sh]

ObsOf(fs, ix, dts, rs, dm, n, sh) ==
  [recover |-> IF dm.kind \in {"none", "missing"} \/ IndexDmg(dm)
               THEN [d \in 1..n |-> [r  |-> RecoverOf(fs, ix, dts, dm, d, FALSE, FALSE),
                                     rw |-> RecoverOf(fs, ix, dts, dm, d, FALSE, TRUE),
                                     rs |-> RecoverOf(fs, ix, dts, dm, d, ShortDateStrict, FALSE),
                                     want |-> WantOf(fs, rs, dm, d)]]
               ELSE <<>>,
   verify |-> [q \in BOOLEAN |-> [out |-> VerifyOf(fs, dts, dm, n, q), must |-> MustOf(fs, dm, q)]],
   ctx |-> DmgCtx(fs, dm, sh)]

Init == /\ src = <<1>> /\ tail = FALSE /\ fresh = 2 /\ packed = FALSE
        /\ now = 0 /\ nb = 0 /\ same = 0 /\ files = <<>> /\ idx = <<>> /\ dats = <<>> /\ runs = <<>> /\ shared = FALSE
        /\ dmg = NoDmg /\ ops = 0
        /\ res = Did("init")
        /\ obs = ObsOf(<<>>, <<>>, <<>>, <<>>, NoDmg, 0, FALSE)

SameRepo == UNCHANGED <<now, nb, same, files, idx, dats, runs, shared, dmg, obs>>

\* tpc_finish of a new transaction, or of the voted one (its status byte changes: a new identity)
Commit ==
  /\ Op /\ Len(src) < MaxChunks
  /\ src' = Append(src, fresh) /\ fresh' = fresh + 1 /\ tail' = FALSE /\ UNCHANGED packed
  /\ res' = Did("commit") /\ SameRepo

\* tpc_begin; store; tpc_vote - the transaction's bytes are in the file, flagged incomplete
BeginTail ==
  /\ Op /\ ~tail /\ Len(src) < MaxChunks
  /\ tail' = TRUE /\ res' = Did("begintail") /\ UNCHANGED <<src, fresh, packed>> /\ SameRepo

\* tpc_abort after the vote: the file is truncated back
AbortTail ==
  /\ Op /\ tail
  /\ tail' = FALSE /\ res' = Did("aborttail") /\ UNCHANGED <<src, fresh, packed>> /\ SameRepo

\* pack to a time just after the k-th transaction of the file: the revisions written by the k-1 transactions
\* before it are not current then and are freed (the packer takes the commit lock at the end, so no transaction
\* is in its vote).  k = 1: nothing to free, FileStorage stops ("pack didn't free any data") and the file stays as
\* it is - unless NoopPackRewrites, where the first transaction gets the packed flag if it does not carry it yet.
Pack(k) ==
  /\ Op /\ ~tail /\ k >= 1 /\ k <= Len(src)
  /\ IF k > 1
     THEN /\ src' = [i \in 1..(Len(src) - k + 1) |-> fresh + i - 1]
          /\ fresh' = fresh + Len(src) - k + 1
          /\ packed' = TRUE
          /\ res' = [act |-> "pack", dec |-> "freed", why |-> ""]
     ELSE IF NoopPackRewrites /\ ~packed
     THEN /\ src' = <<fresh>> \o Tail(src)
          /\ fresh' = fresh + 1
          /\ packed' = TRUE
          /\ res' = [act |-> "pack", dec |-> "rewritten", why |-> ""]
     ELSE /\ UNCHANGED <<src, fresh, packed>>
          /\ res' = [act |-> "pack", dec |-> "nothing-freed", why |-> ""]
  /\ UNCHANGED tail /\ SameRepo

(* ------------------------------ do_backup ------------------------------ *)
Dec(d, w, from) == [dec |-> d, why |-> w, from |-> from]

\* the decision procedure of do_backup (repofiles = find_files(options) with date = now)
Decide(o, ch) ==
  IF OptFull(o) THEN Dec("full", "forced", 0)
  ELSE IF ch = <<>> THEN Dec("full", "norepo", 0)
  ELSE
  LET srcsz == Len(Bytes)
      lines == LinesAt(dats, ch[1].t)                  \* scandat(repofiles): the .dat named like the first file
      last == lines[Len(lines)]
      quick == OptQuick(o) /\ (lines = <<>> \/ QuickTrustsEmptyRange \/ last.s # last.e)
  IN
  IF quick
  THEN IF lines = <<>> THEN Dec("full", "nodat", 0)
       ELSE LET w == IF last.s = last.e THEN "quick-empty-range" ELSE "quick-last-range"
            IN IF srcsz < last.e THEN Dec("full", "shrunk", 0)
               ELSE IF Range(Bytes, last.s, last.e) = last.sum
                    THEN IF srcsz = last.e THEN Dec("nochange", w, 0) ELSE Dec("incr", w, last.e)
                    ELSE Dec("full", "changed", 0)
  ELSE LET repo == Cat(ch)
           reposz == Len(repo)
       IN IF srcsz = reposz /\ Bytes = repo THEN Dec("nochange", "whole", 0)
          ELSE IF srcsz < reposz THEN Dec("full", "shrunk", 0)
          ELSE IF SubSeq(Bytes, 1, reposz) = repo THEN Dec("incr", "prefix", reposz)
          ELSE Dec("full", "changed", 0)

\* delete_old_backups: everything but the full backup that comes last in name order goes, together with the
\* .dat and .index named like each removed file
KillOld(fs, ix, dts) ==
  LET fulls == {i \in 1..Len(fs) : fs[i].full}
      keep == fs[Max(fulls)]
      gone == {fs[i].t : i \in (1..Len(fs)) \ {Max(fulls)}}
  IN [files |-> <<keep>>, idx |-> DropT(ix, gone), dats |-> DropT(dts, gone)]

\* adv: seconds the clock moved since the last run (0: a second run within one clock second)
Backup(o, adv) ==
  /\ Op /\ nb < MaxBackups /\ nb' = nb + 1
  /\ adv \in {0, 1} /\ (adv = 0 => (now >= 1 /\ same < MaxSame))
  /\ same' = IF adv = 0 THEN same + 1 ELSE same
  /\ LET t == now + adv
         ch == ChainOf(files, t, FALSE)
         dc == Decide(o, ch)
         pos == CommittedEnd
         by == Len(runs) + 1
         full == [t |-> t, full |-> TRUE, gz |-> OptGz(o), content |-> src, by |-> by]
         inc == [t |-> t, full |-> FALSE, gz |-> OptGz(o), content |-> Range(src, dc.from, pos), by |-> by]
         new == IF dc.dec = "full" THEN full ELSE inc
         line == [t |-> t, full |-> new.full, gz |-> new.gz, s |-> IF new.full THEN 0 ELSE dc.from, e |-> pos, sum |-> new.content]
         used == \E i \in 1..Len(files) : files[i].t = t
         exists == \E i \in 1..Len(files) : Key(files[i]) = Key(new)
         refused == dc.dec # "nochange" /\ (IF SameStampAllowed THEN exists ELSE used)   \* WouldOverwriteFiles
     IN /\ dc.dec = "incr" => dc.from <= pos       \* copyfile asserts it copied pos - reposz bytes
        /\ now' = t
        /\ IF refused
           THEN /\ UNCHANGED <<files, idx, dats, runs, shared>>
                /\ res' = [act |-> "backup", dec |-> "refused", why |-> dc.dec]
           ELSE /\ runs' = Append(runs, [t |-> t, snap |-> src])
                /\ res' = [act |-> "backup", dec |-> dc.dec, why |-> dc.why]
                /\ shared' = (shared \/ (dc.dec # "nochange" /\ used))
                /\ CASE dc.dec = "full" ->
                          LET f1 == Insert(files, full)
                              i1 == SetT(idx, [t |-> t, ix |-> src])
                              d1 == SetT(dats, [t |-> t, lines |-> <<line>>])          \* opened with mode 'w'
                              k == KillOld(f1, i1, d1)
                          IN IF OptKill(o) THEN files' = k.files /\ idx' = k.idx /\ dats' = k.dats
                             ELSE files' = f1 /\ idx' = i1 /\ dats' = d1
                     [] dc.dec = "incr" ->
                          /\ files' = Insert(files, inc)
                          /\ idx' = SetT(idx, [t |-> t, ix |-> src])
                          /\ dats' = SetT(dats, [t |-> ch[1].t, lines |-> Append(LinesAt(dats, ch[1].t), line)])   \* mode 'a'
                     [] OTHER -> UNCHANGED <<files, idx, dats>>
        /\ obs' = ObsOf(files', idx', dats', runs', dmg, now', shared')
  /\ UNCHANGED <<src, tail, fresh, packed, dmg>>

(* ------------------------------- damage -------------------------------- *)
\* any one file of the repository: a data file (t, r) or the .index of second t (r = 4); nothing happens afterwards
Damage(t, r, kind) ==
  /\ Op
  /\ IF r < 4
     THEN /\ HasFile(files, t, r)
          /\ kind \in {"trunc", "alt"} => files[PosFile(files, t, r)].content # <<>>
     ELSE HasT(idx, t)
  /\ dmg' = [t |-> t, r |-> r, kind |-> kind]
  /\ res' = Did("damage")
  /\ obs' = ObsOf(files, idx, dats, runs, dmg', now, shared)
  /\ UNCHANGED <<src, tail, fresh, packed, now, nb, same, files, idx, dats, runs, shared>>

Kinds == {"missing", "trunc", "alt"}
Times == 1..MaxBackups
Next == \/ Commit \/ BeginTail \/ AbortTail
        \/ \E k \in 1..MaxChunks : Pack(k)
        \/ \E o \in Opts, a \in {0, 1} : Backup(o, a)
        \/ \E t \in Times, r \in 0..4, k \in Kinds : Damage(t, r, k)
\* sub-relations for directed runs
NextNoDamage == \/ Commit \/ BeginTail \/ AbortTail
                \/ \E k \in 1..MaxChunks : Pack(k)
                \/ \E o \in Opts, a \in {0, 1} : Backup(o, a)
\* damage restricted to the files of the newest generation (the chain a dateless run works on)
DamageNewest(t, r, kind) == HasFile(ChainOf(files, now, FALSE), t, r) /\ Damage(t, r, kind)
NextMissingNoTail == \/ Commit
                     \/ \E k \in 1..MaxChunks : Pack(k)
                     \/ \E o \in Opts : Backup(o, 1)
                     \/ \E t \in Times, r \in 0..3 : DamageNewest(t, r, "missing")
NextDataDamageNoTail == \/ Commit
                        \/ \E k \in 1..MaxChunks : Pack(k)
                        \/ \E o \in Opts : Backup(o, 1)
                        \/ \E t \in Times, r \in 0..3, k \in Kinds : Damage(t, r, k)
\* the clock advances with every run, damage to the data files (of every generation)
NextClassic == \/ Commit \/ BeginTail \/ AbortTail
               \/ \E k \in 1..MaxChunks : Pack(k)
               \/ \E o \in Opts : Backup(o, 1)
               \/ \E t \in Times, r \in 0..3, k \in Kinds : Damage(t, r, k)
NextSteadyClock2 == \/ Commit \/ BeginTail \/ AbortTail
                    \/ \E k \in 1..MaxChunks : Pack(k)
                    \/ \E o \in Opts : Backup(o, 1)
NextSteadyClock == \/ Commit
                   \/ \E k \in 1..MaxChunks : Pack(k)
                   \/ \E o \in Opts : Backup(o, 1)

(* ------------------------------ properties ----------------------------- *)
ObsDerived == obs = ObsOf(files, idx, dats, runs, dmg, now, shared)

\* recovering as of any date (in either form, with or without -w) gives the committed part of the data file at
\* the last backup not later than the date that the repository still holds, and the index saved with it
Exact(x, want) ==
  LET ixok == want.ix = "any" \/ (x.ix.has /\ ~x.ix.bad /\ x.ix.v = want.v)
  IN CASE want.k = "snap" -> x.out = "ok" /\ x.content = want.v /\ ixok
       [] want.k = "snap-or-refuse" -> x.out = "ok" => (x.content = want.v /\ ixok)
       [] want.k = "refuse" -> x.out # "ok"
       [] OTHER -> TRUE
RecoverExact ==
  \A d \in DOMAIN obs.recover :
    LET x == obs.recover[d] IN Exact(x.r, x.want) /\ Exact(x.rw, x.want) /\ Exact(x.rs, x.want)

\* a backup holds complete transactions only, laid end to end from its recorded start
BackupOnlyCompleteTxns ==
  /\ \A i \in 1..Len(files) : \A j \in 1..Len(files[i].content) : files[i].content[j] # TailId
  /\ \A i \in 1..Len(dats) : \A k \in 1..Len(dats[i].lines) :
       dats[i].lines[k].e - dats[i].lines[k].s = Len(dats[i].lines[k].sum)

\* full verification passes on an intact repository and fails on a missing / truncated / altered data file,
\* quick verification on a missing / truncated one
VerifyDetects ==
  \A q \in BOOLEAN : obs.verify[q].must # "any" => obs.verify[q].out = obs.verify[q].must

\* do_incremental_backup never starts beyond the last complete transaction (copyfile asserts it)
IncrWithinFile ==
  (dmg = NoDmg /\ nb < MaxBackups) =>
    \A o \in Opts, a \in {0, 1} :
      (a = 1 \/ now >= 1) => LET dc == Decide(o, ChainOf(files, now + a, FALSE))
                             IN dc.dec = "incr" => dc.from <= CommittedEnd

\* structure the transcription relies on
RepoShape ==
  /\ \A i \in 1..Len(files) : i > 1 => Key(files[i - 1]) < Key(files[i])
  /\ Len(runs) <= nb
  /\ \A i \in 1..Len(files) : files[i].by \in 1..Len(runs) /\ runs[files[i].by].t = files[i].t
=============================================================================
