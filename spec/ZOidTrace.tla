------------------------------ MODULE ZOidTrace ------------------------------
(* Concurrent allocators: the new_oid calls of several threads, in the order in which they completed, must be
   explainable by the atomic NewOid of the storage specification: each call returns the successor of the largest
   oid handed out or stored so far (so no oid is issued twice, whatever the schedule). *)
EXTENDS Naturals, Sequences, TLC, Json, IOUtils, TLCExt
Traces == JsonDeserialize(IOEnv.TRACE_FILE)
VARIABLES maxOid, t, l
ovars == <<maxOid, t, l>>
Tr == Traces[t]
E == Tr[l]
TInit == t \in 1..Len(Traces) /\ l = 1 /\ maxOid = Tr[1].start
TNewOid == l <= Len(Tr) /\ E.ev = "NewOid" /\ E.oid = maxOid + 1 /\ maxOid' = maxOid + 1 /\ l' = l + 1 /\ t' = t
TStart == l <= Len(Tr) /\ E.ev = "Start" /\ l' = l + 1 /\ UNCHANGED <<maxOid, t>>
TNext == TNewOid \/ TStart
Accepted == l = Len(Tr) + 1
Report == (Accepted => PrintT(<<"ACCEPT", t>>)) /\ (IOEnv.TRACE_VERBOSE = "1" => PrintT(<<"AT", t, l>>))
=============================================================================
