---------------------------- MODULE ZRecoverRange ----------------------------
(***************************************************************************)
(* TLC as the evaluator of range copies (C17 a'): the generated module     *)
(* MCRangeCases defines Cases, a sequence of [h, blobs, hint, noblob]: a   *)
(* committed history of ZStorage (final state of a replayed behaviour),    *)
(* the blob oids of its concretisation and the two deviation flags chosen  *)
(* for the tree under test.  For every case and every start TLC prints     *)
(*   <<"RC", case, start, outcome, iterator view of the copy>>             *)
(* - what dst.copyTransactionsFrom(src.iterator(start)) must do.           *)
(***************************************************************************)
EXTENDS ZRecover
CONSTANT Cases
VARIABLE c
Eval(i) == \A a \in RangeStarts(Cases[i].h) :
             LET r == CopyRange(Cases[i].h, a, Cases[i].blobs, Cases[i].hint, Cases[i].noblob)
             IN PrintT(<<"RC", i, a, r.out, IterView(r.h)>>)
RInit == c = 0
RNext == c < Len(Cases) /\ c' = c + 1 /\ Eval(c + 1)
=============================================================================
