-------------------------------- MODULE ZMvcc --------------------------------
(***************************************************************************)
(* MVCC adapter instances, connections with their object cache, the        *)
(* connection pool and the storage's finish, at LOCK granularity: one      *)
(* action per critical section of                                          *)
(*   MVCCAdapterInstance.poll_invalidations (lastTransaction() under the   *)
(*   storage lock, then snapshot choice + drain under the instance lock),  *)
(*   Connection.newTransaction / setstate / register / commit,             *)
(*   storage.tpc_finish -> MVCCAdapter._invalidate_finish ->               *)
(*   instance._invalidate (one instance lock at a time) -> publication,    *)
(*   DB.open / Connection.close (pool).                                    *)
(* Oids and tids are abstract; a history entry is [tid, oids].             *)
(***************************************************************************)
EXTENDS Naturals, Sequences, FiniteSets, TLC
CONSTANTS Conn, Oid, MaxCommits, MaxCloses,
          WithRC,              \* explore readCurrent dependencies (model checking switch)
          UndoAgents,          \* members of Conn that stand for DB.undo transactions (never opened, no cache)
          MutIgnoreILtid       \* deviation for self-test: snapshot := polled tid only
VARIABLES hist,       \* committed and published transactions: sequence of [tid, oids]
          sLtid,      \* storage.lastTransaction()
          start,      \* [Conn -> Nat] snapshot in "at" form: reads see tids <= start
          inval,      \* [Conn -> SUBSET Oid] invalidations queued in the instance
          iLtid,      \* [Conn -> Nat] last tid the instance was told about
          cache,      \* [Conn -> [Oid -> Nat]] serial of the cached copy, 0 = ghost / absent
          pc,         \* [Conn -> {"new","closed","idle","polled","txn","voted","delivering"}]
          polled,     \* [Conn -> Nat] value read from lastTransaction() at the boundary
          dirty,      \* [Conn -> SUBSET Oid] objects modified in the running transaction
          rc,         \* [Conn -> SUBSET Oid] objects the transaction declared it depends on being current (readCurrent)
          commitLock, \* Conn or "none"
          pending,    \* [done: instances the committer has invalidated, late: instances registered while it runs]
          ctid,       \* tid of the transaction being finished
          pool,       \* closed connections available for reuse
          closes      \* bound on close/reopen cycles
vars == <<hist, sLtid, start, inval, iLtid, cache, pc, polled, dirty, rc, commitLock, pending, ctid, pool, closes>>
None == "none"
Max(a, b) == IF a > b THEN a ELSE b
SerialAt(o, t) == LET S == {i \in 1..Len(hist) : o \in hist[i].oids /\ hist[i].tid <= t}
                  IN IF S = {} THEN 0 ELSE hist[CHOOSE i \in S : \A j \in S : j <= i].tid
Cur(o) == SerialAt(o, 1000000)
Registered(c) == pc[c] # "new"          \* the instance stays registered while the connection sits in the pool

\* the database initially holds one transaction (tid 1) that wrote every object
Init == /\ hist = <<[tid |-> 1, oids |-> Oid]>> /\ sLtid = 1
        /\ start = [c \in Conn |-> 0] /\ inval = [c \in Conn |-> {}] /\ iLtid = [c \in Conn |-> 0]
        /\ cache = [c \in Conn |-> [o \in Oid |-> 0]] /\ pc = [c \in Conn |-> "new"]
        /\ polled = [c \in Conn |-> 0] /\ dirty = [c \in Conn |-> {}] /\ rc = [c \in Conn |-> {}]
        /\ commitLock = None /\ pending = [done |-> {}, late |-> {}] /\ ctid = 0 /\ pool = {} /\ closes = 0
InFinish == \E c \in Conn : pc[c] = "delivering"

\* DB.open(): reuse the connection on top of the pool, else create a new one (registering its instance)
\* (an instance registered while a finish is delivering may or may not still be reached by that delivery)
OpenNew(c) == /\ pc[c] = "new" /\ pool = {} /\ c \notin UndoAgents
              /\ pc' = [pc EXCEPT ![c] = "idle"]
              /\ pending' = IF InFinish THEN [pending EXCEPT !.late = @ \cup {c}] ELSE pending
              /\ UNCHANGED <<hist, sLtid, start, inval, iLtid, cache, polled, dirty, rc, commitLock, ctid, pool, closes>>
\* (the pool prefers the connection with the most active cache, so any pooled connection may come back)
OpenPooled(c) == /\ c \in pool /\ pc[c] = "closed"
                 /\ pool' = pool \ {c}
                 /\ pc' = [pc EXCEPT ![c] = "idle"]
                 /\ UNCHANGED <<hist, sLtid, start, inval, iLtid, cache, polled, dirty, rc, commitLock, pending, ctid, closes>>
\* Connection.close(): only outside a transaction; the cache is kept, the instance keeps receiving invalidations
Close(c) == /\ (pc[c] = "idle" \/ (pc[c] = "txn" /\ dirty[c] = {})) /\ closes < MaxCloses
            /\ pc' = [pc EXCEPT ![c] = "closed"] /\ pool' = pool \cup {c} /\ closes' = closes + 1
            /\ UNCHANGED <<hist, sLtid, start, inval, iLtid, cache, polled, dirty, rc, commitLock, pending, ctid>>

\* boundary, step 1: storage.lastTransaction() under the storage lock (excluded while a finish runs)
PollRead(c) == /\ ~InFinish /\ (pc[c] = "idle" \/ (pc[c] = "txn" /\ dirty[c] = {}))
               /\ polled' = [polled EXCEPT ![c] = sLtid]
               /\ pc' = [pc EXCEPT ![c] = "polled"]
               /\ UNCHANGED <<hist, sLtid, start, inval, iLtid, cache, dirty, rc, commitLock, pending, ctid, pool, closes>>
\* boundary, step 2: under the instance lock choose the snapshot and drain; then apply to the cache
PollApply(c) == /\ pc[c] = "polled"
                /\ start' = [start EXCEPT ![c] = IF MutIgnoreILtid THEN polled[c] ELSE Max(polled[c], iLtid[c])]
                /\ cache' = [cache EXCEPT ![c] = [o \in Oid |-> IF o \in inval[c] THEN 0 ELSE cache[c][o]]]
                /\ inval' = [inval EXCEPT ![c] = {}]
                /\ pc' = [pc EXCEPT ![c] = "txn"]
                /\ UNCHANGED <<hist, sLtid, iLtid, polled, dirty, rc, commitLock, pending, ctid, pool, closes>>
\* setstate of a ghost: loadBefore(oid, start+1) through the storage (excluded while a finish runs)
\* (a load that does not depend on the commit being finished is the same before, during and after it)
Read(c, o) == /\ (~InFinish \/ start[c] < ctid) /\ pc[c] = "txn" /\ cache[c][o] = 0 /\ SerialAt(o, start[c]) # 0
              /\ cache' = [cache EXCEPT ![c][o] = SerialAt(o, start[c])]
              /\ UNCHANGED <<hist, sLtid, start, inval, iLtid, pc, polled, dirty, rc, commitLock, pending, ctid, pool, closes>>
Write(c, o) == /\ pc[c] = "txn" /\ cache[c][o] # 0 /\ o \notin dirty[c]
               /\ dirty' = [dirty EXCEPT ![c] = @ \cup {o}]
               /\ UNCHANGED <<hist, sLtid, start, inval, iLtid, cache, pc, polled, rc, commitLock, pending, ctid, pool, closes>>
\* Connection.readCurrent(ob) on an activated object: the commit must fail if ob is not current any more
ReadCurrent(c, o) == /\ WithRC /\ pc[c] = "txn" /\ cache[c][o] # 0 /\ o \notin rc[c]
                     /\ rc' = [rc EXCEPT ![c] = @ \cup {o}]
                     /\ UNCHANGED <<hist, sLtid, start, inval, iLtid, cache, pc, polled, dirty, commitLock, pending, ctid, pool, closes>>
AbortTxn(c) == /\ pc[c] = "txn"
               /\ cache' = [cache EXCEPT ![c] = [o \in Oid |-> IF o \in dirty[c] THEN 0 ELSE cache[c][o]]]
               /\ dirty' = [dirty EXCEPT ![c] = {}] /\ rc' = [rc EXCEPT ![c] = {}] /\ pc' = [pc EXCEPT ![c] = "idle"]
               /\ UNCHANGED <<hist, sLtid, start, inval, iLtid, polled, commitLock, pending, ctid, pool, closes>>
\* tpc_begin + stores + vote: the conflict check compares the cached serial with the committed one
BeginVote(c) == /\ ~InFinish /\ pc[c] = "txn" /\ dirty[c] # {} /\ commitLock = None /\ Len(hist) <= MaxCommits
                /\ IF \A o \in dirty[c] \cup rc[c] : cache[c][o] = Cur(o)
                   THEN /\ commitLock' = c /\ ctid' = sLtid + 1 /\ pc' = [pc EXCEPT ![c] = "voted"]
                        /\ UNCHANGED <<cache, dirty, rc>>
                   ELSE \* ConflictError / ReadConflictError: the modified copies are dropped
                        /\ cache' = [cache EXCEPT ![c] = [o \in Oid |-> IF o \in dirty[c] THEN 0 ELSE cache[c][o]]]
                        /\ dirty' = [dirty EXCEPT ![c] = {}] /\ rc' = [rc EXCEPT ![c] = {}] /\ pc' = [pc EXCEPT ![c] = "idle"]
                        /\ UNCHANGED <<commitLock, ctid>>
                /\ UNCHANGED <<hist, sLtid, start, inval, iLtid, polled, pending, pool, closes>>
\* rollback to a savepoint (of a connection that had joined the transaction before it): the objects modified since
\* are dropped - keep is what had been modified before the savepoint -, all modified copies become ghosts that are
\* re-read on access, the transaction goes on; what it declared with readCurrent stays declared
Rollback(c, keep) == /\ pc[c] = "txn" /\ keep \subseteq dirty[c]
                     /\ cache' = [cache EXCEPT ![c] = [o \in Oid |-> IF o \in dirty[c] THEN 0 ELSE cache[c][o]]]
                     /\ dirty' = [dirty EXCEPT ![c] = keep]
                     /\ UNCHANGED <<hist, sLtid, start, inval, iLtid, pc, polled, rc, commitLock, pending, ctid, pool, closes>>
\* a voted transaction is aborted (another participant's vote failed): Connection.tpc_abort -> storage.tpc_abort
\* releases the commit lock, the modified copies are dropped
AbortVoted(c) == /\ pc[c] = "voted" /\ c \notin UndoAgents
                 /\ commitLock' = None
                 /\ cache' = [cache EXCEPT ![c] = [o \in Oid |-> IF o \in dirty[c] THEN 0 ELSE cache[c][o]]]
                 /\ dirty' = [dirty EXCEPT ![c] = {}] /\ rc' = [rc EXCEPT ![c] = {}] /\ pc' = [pc EXCEPT ![c] = "idle"]
                 /\ UNCHANGED <<hist, sLtid, start, inval, iLtid, polled, pending, ctid, pool, closes>>
\* DB.undo / undoMultiple: a transaction of its own (UndoAdapterInstance) that writes the objects of the undone
\* transactions; its finish invalidates them in EVERY registered instance
UndoVote(u, oids, ok) ==
  /\ u \in UndoAgents /\ pc[u] = "new"
  /\ ok => (~InFinish /\ commitLock = None /\ oids # {} /\ Len(hist) <= MaxCommits)
  /\ IF ok THEN /\ commitLock' = u /\ ctid' = sLtid + 1 /\ pc' = [pc EXCEPT ![u] = "voted"]
                 /\ dirty' = [dirty EXCEPT ![u] = oids]
           ELSE UNCHANGED <<commitLock, ctid, pc, dirty>>
  /\ UNCHANGED <<hist, sLtid, start, inval, iLtid, cache, polled, rc, pending, pool, closes>>
\* tpc_finish enters the storage lock; invalidations go to every OTHER registered instance, one lock at a time
FinishStart(c) == /\ pc[c] = "voted"
                  /\ pending' = [done |-> {}, late |-> {}] /\ pc' = [pc EXCEPT ![c] = "delivering"]
                  /\ UNCHANGED <<hist, sLtid, start, inval, iLtid, cache, polled, dirty, rc, commitLock, ctid, pool, closes>>
Deliver(c, j) == /\ pc[c] = "delivering" /\ j # c /\ Registered(j) /\ j \notin pending.done
                 /\ inval' = [inval EXCEPT ![j] = @ \cup dirty[c]] /\ iLtid' = [iLtid EXCEPT ![j] = ctid]
                 /\ pending' = [pending EXCEPT !.done = @ \cup {j}]
                 /\ UNCHANGED <<hist, sLtid, start, cache, pc, polled, dirty, rc, commitLock, ctid, pool, closes>>
\* the storage publishes (_ltid, index), the lock is released, the committer marks its objects up to date
Publish(c) == /\ pc[c] = "delivering"
              /\ \A j \in Conn : (Registered(j) /\ j # c /\ j \notin pending.late) => j \in pending.done
              /\ hist' = Append(hist, [tid |-> ctid, oids |-> dirty[c]]) /\ sLtid' = ctid
              /\ iLtid' = [iLtid EXCEPT ![c] = ctid]
              /\ cache' = [cache EXCEPT ![c] = [o \in Oid |-> IF o \in dirty[c] THEN ctid ELSE cache[c][o]]]
              /\ dirty' = [dirty EXCEPT ![c] = {}] /\ rc' = [rc EXCEPT ![c] = {}] /\ commitLock' = None
              /\ pc' = [pc EXCEPT ![c] = IF c \in UndoAgents THEN "new" ELSE "idle"]
              /\ UNCHANGED <<start, inval, polled, pending, ctid, pool, closes>>
Next == \/ \E c \in Conn : OpenNew(c) \/ OpenPooled(c) \/ Close(c) \/ PollRead(c) \/ PollApply(c) \/ AbortTxn(c)
                            \/ BeginVote(c) \/ FinishStart(c) \/ Publish(c)
        \/ \E c \in Conn, o \in Oid : Read(c, o) \/ Write(c, o) \/ ReadCurrent(c, o)
        \/ \E c \in Conn, j \in Conn : Deliver(c, j)
        \/ \E u \in UndoAgents, oids \in SUBSET Oid : UndoVote(u, oids, TRUE)
\* (kept apart from Next: the behaviours TLC simulates for the directed driver do not contain failing participants)
NextVA == Next \/ \E c \in Conn : AbortVoted(c) \/ (WithRC /\ \E keep \in SUBSET Oid : Rollback(c, keep))
Spec == Init /\ [][Next]_vars

(* ------------------------------ properties ------------------------------ *)
\* C02: every cached, locally unmodified object is the revision of the connection's snapshot - whether it was
\* loaded now, survived in the cache from an earlier transaction, or from before a close/reopen
CacheCoherent == \A c \in Conn : pc[c] = "txn" =>
                   \A o \in Oid : (cache[c][o] # 0 /\ o \notin dirty[c]) => cache[c][o] = SerialAt(o, start[c])
\* after a boundary the snapshot is no older than the last commit published before the boundary began
Fresh == \A c \in Conn : pc[c] = "txn" => start[c] >= polled[c]
\* a snapshot never runs ahead of what is published, except by the commit being delivered right now
NotFromTheFuture == \A c \in Conn : pc[c] = "txn" => (start[c] <= sLtid \/ (InFinish /\ start[c] = ctid))
\* no lost update: a transaction reaches the vote only on the latest revisions
VotedOnCurrent == \A c \in Conn \ UndoAgents : pc[c] \in {"voted", "delivering"} => \A o \in dirty[c] \cup rc[c] : cache[c][o] = Cur(o)
LockDiscipline == (commitLock # None) <=> (\E c \in Conn : pc[c] \in {"voted", "delivering"})
=============================================================================
