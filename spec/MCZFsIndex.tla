----------------------------- MODULE MCZFsIndex -----------------------------
EXTENDS ZFsIndex
\* mappings offered to update(): keys spread over prefixes and suffixes of the universe
\* (intersected with Key so that the same definitions serve every universe size)
MCUpd == << {<<0, 0>>, <<NP - 1, NS - 1>>} \cap Key,
            {<<1, NS - 1>>, <<1, 0>>, <<NP - 1, 0>>} \cap Key,
            {} >>
AtMost3 == AtMost(3)
AtMost4 == AtMost(4)
MCUpdSmall == << {<<0, 0>>, <<NP - 1, NS - 1>>} \cap Key >>
=============================================================================
