----------------------------- MODULE MCZStorage -----------------------------
EXTENDS ZStorage
\* oid 1 is of a class with _p_resolveConflict, the others are plain
MCCls == [o \in Oids |-> IF o = 1 THEN "merge" ELSE "plain"]
MCClsPlain == [o \in Oids |-> "plain"]
NoRefs == {{}}
AllRefs == SUBSET Oids
=============================================================================
