----------------------------- MODULE MCZStorage -----------------------------
EXTENDS ZStorage
\* oid 1 is of a class with _p_resolveConflict, the others are plain
MCCls == [o \in Oids |-> IF o = 1 THEN "merge" ELSE "plain"]
MCClsPlain == [o \in Oids |-> "plain"]
MCClsMix == [o \in Oids |-> CASE o % 5 = 0 -> "plain" [] o % 5 = 1 -> "merge" [] o % 5 = 2 -> "mergefail"
                                  [] o % 5 = 3 -> "broken" [] OTHER -> "mergeconflict"]
NoRefs == {{}}
FewRefs == {{}, {1} \cap Oids, {0, 2} \cap Oids}
AllRefs == SUBSET Oids
FewRefs2 == {{}, {1} \cap Oids, {2} \cap Oids, {1, 3} \cap Oids, {2, 3} \cap Oids}
RefsNoRoot == SUBSET (Oids \ {0})
=============================================================================
