----------------------------- MODULE MCZStorage -----------------------------
EXTENDS ZStorage
\* oid 1 is of a class with _p_resolveConflict, the others are plain
MCCls == [o \in Oids |-> IF o = 1 THEN "merge" ELSE "plain"]
MCClsPlain == [o \in Oids |-> "plain"]
\* (a class with constructor arguments whose state shares objects with the class part resolves like "merge")
MCClsMix == [o \in Oids |-> CASE o % 6 = 0 -> "plain" [] o % 6 = 1 -> "merge" [] o % 6 = 2 -> "mergefail"
                                  [] o % 6 = 3 -> "broken" [] o % 6 = 4 -> "mergeconflict" [] OTHER -> "merge"]
NoRefs == {{}}
FewRefs == {{}, {1} \cap Oids, {0, 2} \cap Oids}
AllRefs == SUBSET Oids
FewRefs2 == {{}, {1} \cap Oids, {2} \cap Oids, {1, 3} \cap Oids, {2, 3} \cap Oids}
RefsNoRoot == SUBSET (Oids \ {0})
=============================================================================
