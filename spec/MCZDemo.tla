------------------------------ MODULE MCZDemo -------------------------------
EXTENDS ZDemo
\* oid 1 is of a class with _p_resolveConflict, the others are plain
MCCls == [o \in Oids |-> IF o = 1 THEN "merge" ELSE "plain"]
MCClsAll == [o \in Oids |-> "merge"]
MCClsPlain == [o \in Oids |-> "plain"]
NoRefs == {{}}
FewRefs == {{}, {1} \cap Oids}
=============================================================================
