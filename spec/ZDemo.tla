------------------------------- MODULE ZDemo --------------------------------
(***************************************************************************)
(* DemoStorage: a stack of storages.  layers[1] is the base storage (a     *)
(* FileStorage or MappingStorage), layers[n], n > 1, is the `changes`      *)
(* storage of a DemoStorage whose `base` is the storage of level n - 1     *)
(* (the plain base for n = 2, the demo below after push()).                *)
(*                                                                         *)
(* The operators Q* are transcriptions of DemoStorage.loadBefore (with the *)
(* seam walk), load, loadSerial, getTid, history, iterator,                *)
(* lastTransaction, __len__; the actions are transcriptions of             *)
(* tpc_begin / store (conflict detection against the merged current        *)
(* revision, resolution through tryToResolveConflict with loadSerial       *)
(* across the layers) / checkCurrentSerialInTransaction / undo (the        *)
(* changes storage's own) / tpc_vote / tpc_finish / tpc_abort / new_oid /  *)
(* pack / push / pop.  What a single layer answers is ZHistory's meaning   *)
(* (LoadBefore, LoadSerial, ...); what the changes storage does with a     *)
(* store / undo / pack is the transcription used by ZStorage / ZPackOps.   *)
(*                                                                         *)
(* The top storage is operated through the same actions at every level:    *)
(* while Len(layers) = 1 the base history is built with the plain storage  *)
(* API, Push then wraps it.  Nothing below the top is ever written.        *)
(*                                                                         *)
(* Deviations of the code from the property are behind constants (TRUE =   *)
(* the code as it is; FALSE = a repaired design that TLC checks against    *)
(* the property, worded as the smallest change of the code that has it):   *)
(*   TidFromChangesOnly  tids come from the changes storage's clock and    *)
(*                       last tid only (F10) | tpc_begin passes            *)
(*                       tid = newTid(max(base last, changes last))        *)
(*   UndoUncreates       undoing the first change made to an object of a   *)
(*                       lower layer writes an "object does not exist"     *)
(*                       record into the changes | ... and the demo        *)
(*                       storage stores the state from below on top of it  *)
(*   OidProbeByLoad      new_oid decides presence by loading the current   *)
(*                       revision (an un-created object does not load)     *)
(*                       | by asking for any record (history)              *)
(*   PackAsCode          pack() reads an attribute that only exists when   *)
(*                       the demo storage created its changes itself       *)
(*                       (Temporary), and then garbage-collects the        *)
(*                       changes alone | the attribute always exists and   *)
(*                       a demo storage over a base never collects garbage *)
(*   BlobStoreSkipsBaseCheck  storeBlob hands the record straight to the   *)
(*                       changes storage, which checks the serial against  *)
(*                       its own revisions only: for an object that so far *)
(*                       lives in the layers below any serial is accepted  *)
(*                       | storeBlob makes the check that store makes      *)
(*   PackRevealsBase     after a pack of the changes removed the first     *)
(*                       change(s) of an object, loadBefore below the      *)
(*                       first revision left finds "in the changes, but    *)
(*                       nothing earlier" and serves the revision of the   *)
(*                       layer below - which the removed revisions had     *)
(*                       replaced | the demo storage remembers the pack    *)
(*                       time and answers None there                       *)
(* `obs` (the answer of every query, transcription) and `dev` (where obs   *)
(* differs from the meaning ObsTable(base \o changes), and why) are        *)
(* functions of the other variables; they are printed with every state.    *)
(***************************************************************************)
EXTENDS ZPackOps

CONSTANTS BaseKind, ChangesKind,   \* "file" | "mapping"
          NOid, AtomVals, RefSets, Metas, Client,
          MaxBase,     \* transactions begun while building the base
          MaxTxn,      \* transactions begun through demo storages
          MaxRecs, MaxClock, K, MaxUndo,
          MaxLayers,   \* 2: base + changes; 3: one push() on top
          MaxNewOid,   \* bound on new_oid calls
          MaxPack,     \* bound on pack calls
          Cls,         \* class kind per oid: "plain" | "merge"
          Temporary,   \* the demo storages create their own changes storage (changes=None: a MappingStorage)
          PrintObs,    \* compute obs / dev with every state (behaviours for replay)
          BlobOids,    \* oids written with storeBlob (blob records: class "plain", the value lives in the blob file)
          TidFromChangesOnly, UndoUncreates, OidProbeByLoad, PackAsCode, BlobStoreSkipsBaseCheck,
          PackRevealsBase

VARIABLES layers,      \* sequence of histories
          inst,        \* per layer: [lastTs, ltid, lastPack, issued] (instance state of that storage / demo)
          txn,         \* the transaction in two-phase commit on the top storage, or NoTxn
          clock, begun, noids, npacks,
          res,         \* outcome of the last call
          obs, dev     \* derived

vars == <<layers, inst, txn, clock, begun, noids, npacks, res, obs, dev>>

Oids == 0..(NOid - 1)
\* blob records carry no conflict resolution
ASSUME BlobOids \subseteq Oids /\ \A o \in BlobOids : Cls[o] = "plain"
MaxTid == 999999                   \* utils.maxtid
NoTxn == [owner |-> "none"]
OK(what) == [call |-> what, out |-> "ok"]
Out(what, o) == [call |-> what, out |-> o]
Datums == {[v |-> <<a>>, refs |-> R] : a \in AtomVals, R \in RefSets}
\* (demoPack: repaired design only - the latest pack time the demo storage was asked to pack to)
FreshInst == [lastTs |-> 0, ltid |-> 0, lastPack |-> 0, issued |-> {}, demoPack |-> 0]
NewTid(clk, last) == IF clk * K > last THEN clk * K ELSE last + 1
KindOf(n) == IF n = 1 THEN BaseKind ELSE ChangesKind
Top == Len(layers)
TopH == layers[Top]

RECURSIVE CatL(_, _)
CatL(L, n) == IF n = 0 THEN <<>> ELSE CatL(L, n - 1) \o L[n]
Cat(L) == CatL(L, Len(L))
\* the layer that holds the i-th transaction of Cat(L)
LayerOf(L, i) == MinS({n \in 1..Len(L) : i <= Len(CatL(L, n))})
Increasing(H) == \A i \in 1..(Len(H) - 1) : H[i].tid < H[i + 1].tid
\* tids strictly increase over the whole stack (C04's TidsStrictlyIncrease for the demo)
SeamOrdered(L) == Increasing(Cat(L))
\* ... and so do the "last transaction" marks of the layers (a pack may have removed the transactions)
LtidOrdered(I) == \A a, b \in 1..Len(I) : (a < b /\ I[b].ltid # 0) => I[a].ltid < I[b].ltid

(* ===================== what the storage of level n answers ============== *)
TidR(t) == [k |-> "tid", serial |-> t]
\* FileStorage.getTid raises for an un-created object; MappingStorage has no such records
SGetTid(H, o) == IF Idx(H, o) = {} THEN KeyErr
                 ELSE IF RecOf(H, CurPos(H, o), o).op = "zero" THEN KeyErr
                 ELSE TidR(CurTid(H, o))

\* DemoStorage.loadBefore: the walk that finds the end tid of a base revision: the first revision in changes
RECURSIVE WalkEnd(_, _, _)
WalkEnd(C, o, e) ==
  LET r == LoadBefore(C, o, e)
  IN IF r.k = "keyerr" THEN -1               \* changes.loadBefore raises POSKeyError: not caught
     ELSE IF r.k = "none" THEN e
     ELSE WalkEnd(C, o, r.serial)

\* I: the instance states (only the repaired design looks at them: the time up to which the changes were packed)
RECURSIVE QLoadBefore(_, _, _, _, _)
QLoadBefore(L, I, n, o, t) ==
  IF n = 1 THEN LoadBefore(L[1], o, t)
  ELSE LET r == LoadBefore(L[n], o, t) IN
       IF r.k = "keyerr" THEN QLoadBefore(L, I, n - 1, o, t)     \* not in the changes: defer to base
       ELSE IF r.k = "rev" THEN r
       ELSE LET b == QLoadBefore(L, I, n - 1, o, t) IN           \* in the changes, but nothing earlier
            IF b.k = "keyerr" THEN NoneR
            ELSE IF b.k = "none" THEN NoneR
            ELSE IF b.end # 0 THEN b
            ELSE IF t = MaxTid THEN b
            ELSE LET e == WalkEnd(L[n], o, MaxTid) IN
                 IF e = -1 THEN KeyErr
                 \* repaired: when the first revision left in the changes lies at or below a pack of the changes,
                 \* earlier revisions may have been packed away: the revision from below is not served (None, as a
                 \* packed storage answers below its pack time)
                 ELSE IF ~PackRevealsBase /\ e # MaxTid /\ e <= I[n].demoPack THEN NoneR
                 ELSE Rev(b.d, b.serial, IF e = MaxTid THEN 0 ELSE e)

\* load = utils.load_current: loadBefore(oid, maxtid); None -> POSKeyError  (the current revision never takes the
\* "nothing earlier in the changes" branch, so the instance states do not matter)
NoPacks(L) == [k \in 1..Len(L) |-> FreshInst]
QLoad(L, n, o) == LET r == QLoadBefore(L, NoPacks(L), n, o, MaxTid)
                  IN IF r.k = "rev" THEN Rev(r.d, r.serial, 0) ELSE KeyErr

RECURSIVE QLoadSerial(_, _, _, _)
QLoadSerial(L, n, o, s) ==
  IF n = 1 THEN LoadSerial(L[1], o, s)
  ELSE LET r == LoadSerial(L[n], o, s)
       IN IF r.k = "keyerr" THEN QLoadSerial(L, n - 1, o, s) ELSE r

RECURSIVE QGetTid(_, _, _)
QGetTid(L, n, o) ==
  IF n = 1 THEN SGetTid(L[1], o)
  ELSE LET r == SGetTid(L[n], o) IN IF r.k = "keyerr" THEN QGetTid(L, n - 1, o) ELSE r

\* history(oid, size) with a size larger than the number of revisions: changes first, then base;
\* POSKeyError only when neither layer knows the oid.  [err, r]
RECURSIVE QHistory(_, _, _)
QHistory(L, n, o) ==
  LET own == IF Idx(L[n], o) = {} THEN [err |-> TRUE, r |-> <<>>] ELSE [err |-> FALSE, r |-> HistoryOf(L[n], o)]
  IN IF n = 1 THEN own
     ELSE LET b == QHistory(L, n - 1, o)
          IN [err |-> own.err /\ b.err, r |-> own.r \o b.r]

RECURSIVE QIter(_, _)
QIter(L, n) == IF n = 0 THEN <<>> ELSE QIter(L, n - 1) \o IterView(L[n])

RECURSIVE QLast(_, _)
QLast(I, n) == IF n = 1 THEN I[1].ltid
               ELSE IF I[n].ltid # 0 THEN I[n].ltid ELSE QLast(I, n - 1)

DObs(L, I) ==
  LET n == Len(L)
      M == Cat(L)
  IN [lb   |-> [o \in Oids |-> [t \in Bounds(M) |-> QLoadBefore(L, I, n, o, t)]],
      cur  |-> [o \in Oids |-> QLoad(L, n, o)],
      ser  |-> [o \in Oids |-> [t \in TidsOf(M) |-> QLoadSerial(L, n, o, t)]],
      gt   |-> [o \in Oids |-> QGetTid(L, n, o)],
      revs |-> [o \in Oids |-> QHistory(L, n, o).r],
      iter |-> QIter(L, n),
      ulog |-> UndoLog(L[n]),
      last |-> QLast(I, n),
      len  |-> Cardinality(OidsOf(L[n]))]

(* ============== the meaning: one database holding base \o changes ======= *)
\* In one database the undo of the first change to an object that existed before is a back-pointer
\* to the revision below; the changes storage can only write "does not exist".  OneDb puts the
\* back-pointer where the stack has such a record over an object of a lower layer.
RECURSIVE OneDb(_, _)
OneDb(L, n) ==
  IF n = 0 THEN <<>>
  ELSE LET below == OneDb(L, n - 1)
           fix(r) == IF r.op = "zero" /\ n > 1 /\ Idx(below, r.oid) # {} /\ Idx(L[n], r.oid) # {}
                        /\ DataAt(below, CurPos(below, r.oid), r.oid) # Gone
                     THEN [r EXCEPT !.op = "back", !.back = CurTid(below, r.oid)] ELSE r
       IN below \o [i \in 1..Len(L[n]) |->
                      [L[n][i] EXCEPT !.recs = [j \in 1..Len(L[n][i].recs) |-> fix(L[n][i].recs[j])]]]

\* a "does not exist" record in a changes layer for an object that loads from the layers below
RECURSIVE ZeroOverBase(_, _)
ZeroOverBase(L, n) ==
  IF n <= 1 THEN FALSE
  ELSE \/ ZeroOverBase(L, n - 1)
       \/ \E i \in 1..Len(L[n]) : \E j \in 1..Len(L[n][i].recs) :
            LET r == L[n][i].recs[j] IN r.op = "zero" /\ QLoad(L, n - 1, r.oid).k = "rev"

Want(L, I) ==
  LET M == OneDb(L, Len(L))
  IN [lb   |-> [o \in Oids |-> [t \in Bounds(M) |-> LoadBefore(M, o, t)]],
      cur  |-> [o \in Oids |-> Load(M, o)],
      ser  |-> [o \in Oids |-> [t \in TidsOf(M) |-> LoadSerial(M, o, t)]],
      gt   |-> [o \in Oids |-> LET l == Load(M, o) IN IF l.k = "rev" THEN TidR(l.serial) ELSE KeyErr],
      revs |-> [o \in Oids |-> HistoryOf(M, o)],
      \* the newest transaction committed in any layer (a pack does not take it back: ZStorage!ltid)
      last |-> MaxS({I[k].ltid : k \in 1..Len(I)})]

\* dev: why and where the transcription differs from the meaning; the fields hold the answers one
\* database would give, for exactly the queries that are answered differently
NoDev == [cause |-> "none", lb |-> <<>>, cur |-> <<>>, ser |-> <<>>, gt |-> <<>>, revs |-> <<>>, last |-> <<>>]
\* (D: the transcription's table for L, I - passed in so that it is computed once per state)
DevFrom(L, I, D) ==
  IF Len(L) = 1 THEN NoDev
  ELSE IF ~SeamOrdered(L) \/ ~LtidOrdered(I) THEN [NoDev EXCEPT !.cause = "tid-order-across-layers"]
  ELSE LET W == Want(L, I)
           M == Cat(L)
           \* "no such object at that time" is POSKeyError or None depending on which layer says it; both mean
           \* that there is no revision (a connection treats them alike): only revisions are compared
           \* (repaired design: below a pack of the changes "no revision" is an answer, as for every packed storage)
           packedTo == MaxS({I[k].demoPack : k \in 1..Len(I)})
           Hidden(a, b) == ~PackRevealsBase /\ a.k = "none" /\ b.k = "rev" /\ b.end # 0 /\ b.end <= packedTo
           SameLb(a, b) == IF a.k = "rev" \/ b.k = "rev" THEN (a = b \/ Hidden(a, b)) ELSE TRUE
           bLb == {q \in Oids \X Bounds(M) : ~SameLb(D.lb[q[1]][q[2]], W.lb[q[1]][q[2]])}
           bCur == {o \in Oids : D.cur[o] # W.cur[o]}
           bSer == {q \in Oids \X TidsOf(M) : D.ser[q[1]][q[2]] # W.ser[q[1]][q[2]]}
           bGt == {o \in Oids : D.gt[o] # W.gt[o]}
           bRevs == {o \in Oids : D.revs[o] # W.revs[o]}
           none == bLb = {} /\ bCur = {} /\ bSer = {} /\ bGt = {} /\ bRevs = {} /\ D.last = W.last
       IN IF none THEN NoDev
          ELSE [cause |-> IF ZeroOverBase(L, Len(L)) THEN "undo-uncreates-lower-object" ELSE "unexplained",
                lb |-> [q \in bLb |-> W.lb[q[1]][q[2]]], cur |-> [o \in bCur |-> W.cur[o]],
                ser |-> [q \in bSer |-> W.ser[q[1]][q[2]]], gt |-> [o \in bGt |-> W.gt[o]],
                revs |-> [o \in bRevs |-> W.revs[o]], last |-> IF D.last = W.last THEN <<>> ELSE <<W.last>>]

Dev(L, I) == DevFrom(L, I, DObs(L, I))
NoObs == <<>>
ObsOf(L, I) == IF PrintObs THEN DObs(L, I) ELSE NoObs
DevOf(L, I, D) == IF PrintObs THEN DevFrom(L, I, D) ELSE NoDev

(* ================================ actions =============================== *)
Init == /\ layers = << <<>> >> /\ inst = <<FreshInst>>
        /\ txn = NoTxn /\ clock = 1 /\ begun = 0 /\ noids = 0 /\ npacks = 0
        /\ res = OK("open")
        /\ obs = ObsOf(layers, inst) /\ dev = NoDev

InTxn(c) == txn.owner = c
Active(c) == InTxn(c) /\ txn.phase = "begun"
IsFile == KindOf(Top) = "file"
IsDemo == Top > 1
Fail == [txn EXCEPT !.phase = "failed"]
DataRec(o, d, base, resolved) == [oid |-> o, op |-> "data", d |-> d, back |-> 0, base |-> base, res |-> resolved]
BackRec(o, b) == [oid |-> o, op |-> "back", d |-> NoD, back |-> b, base |-> -1, res |-> FALSE]
ZeroRec(o, base) == [oid |-> o, op |-> "zero", d |-> NoD, back |-> 0, base |-> base, res |-> FALSE]

BeginTid(clk) ==
  LET own == IF IsFile THEN inst[Top].lastTs ELSE LastTid(TopH)      \* BaseStorage._ts / maxKey(transactions)
      \* repaired: the demo storage passes tid = newTid(max(base.lastTransaction(), changes.lastTransaction()))
      below == QLast(inst, Top - 1)
      span == IF below > inst[Top].ltid THEN below ELSE inst[Top].ltid
  IN IF TidFromChangesOnly \/ ~IsDemo THEN NewTid(clk, own) ELSE NewTid(clk, span)

\* tpc_begin: DemoStorage hands the call to the changes storage (the clock is read there)
Begin(c, m, clk) ==
  /\ txn = NoTxn /\ begun < (IF IsDemo THEN MaxTxn ELSE MaxBase) /\ begun' = begun + 1
  /\ clk \in {clock - 1, clock, clock + 1} \cap (1..MaxClock)
  /\ clock' = clk
  /\ LET t == BeginTid(clk) IN
     /\ txn' = [owner |-> c, tid |-> t, phase |-> "begun", meta |-> m, staged |-> <<>>,
                 cres |-> {}, dres |-> {}, stored |-> {}, undone |-> <<>>]
     /\ inst' = [inst EXCEPT ![Top].lastTs = IF IsFile THEN t ELSE @]
  /\ res' = OK("begin")
  /\ UNCHANGED <<layers, noids, npacks, obs, dev>>

\* serials a client can hold for o: 0 (new object) or the tid of a revision in any layer
SerialsOf(o) == {0} \cup {Cat(layers)[i].tid : i \in Idx(Cat(layers), o)}
InOrder(o) == LET n == Len(txn.staged) IN IF n = 0 THEN TRUE ELSE txn.staged[n].oid <= o

\* store() of the storage that holds history H (FileStorage.store / MappingStorage.store), given the
\* serial s it is called with; gb / gr are the ghost fields recorded with the revision
PStore(H, kind, T, o, s, d, gb, gr) ==
  LET cur == CurTid(H, o)
      put(r) == IF kind = "file" THEN Append(T.staged, r)
                ELSE SelectSeq(T.staged, LAMBDA x : x.oid # o) \o <<r>>
  IN IF cur = 0 \/ s = cur
     THEN [out |-> "ok", t |-> [T EXCEPT !.staged = put(DataRec(o, d, gb, gr))]]
     ELSE IF kind = "file" /\ Cls[o] = "merge" /\ LoadSerial(H, o, s).k = "rev" /\ Load(H, o).k = "rev"
     THEN [out |-> "resolved",
           t |-> [T EXCEPT !.staged = put(DataRec(o, MergeD(LoadSerial(H, o, s).d, Load(H, o).d, d), gb, TRUE)),
                           !.cres = @ \cup {o}]]
     ELSE [out |-> "ConflictError", t |-> [T EXCEPT !.phase = "failed"]]

\* DemoStorage.store
Store(c, o, serial, d) ==
  /\ Active(c) /\ Len(txn.staged) < MaxRecs /\ InOrder(o)
  /\ serial \in SerialsOf(o)
  /\ IF ~IsDemo
     THEN LET r == PStore(TopH, KindOf(1), txn, o, serial, d, serial, FALSE)
          IN txn' = r.t /\ res' = Out("store", r.out)
     ELSE LET T0  == [txn EXCEPT !.stored = @ \cup {o}]              \* _stored_oids.add(oid) comes first
              cur == QLoad(layers, Top, o)                              \* load_current(self, oid)
              old == IF cur.k = "rev" THEN cur.serial ELSE serial
          IN IF o \in BlobOids /\ BlobStoreSkipsBaseCheck
             THEN \* DemoStorage.storeBlob: changes.storeBlob(oid, oldserial, ...) = changes.store + the blob file;
                  \* `lost`: accepted although the merged current revision is not the one the writer names
                  LET r == PStore(TopH, ChangesKind, T0, o, serial, d, serial, FALSE)
                  IN txn' = r.t /\ res' = [call |-> "store", out |-> r.out, lost |-> r.out # "ConflictError" /\ old # serial]
             ELSE IF old = serial
             THEN LET r == PStore(TopH, ChangesKind, T0, o, serial, d, serial, FALSE)
                  IN txn' = r.t /\ res' = Out("store", r.out)
             ELSE \* tryToResolveConflict(oid, old, serial, data): loadSerial through the demo storage
                  LET a == QLoadSerial(layers, Top, o, serial)
                      b == QLoadSerial(layers, Top, o, old)
                  IN IF Cls[o] = "merge" /\ a.k = "rev" /\ b.k = "rev"
                     THEN LET r == PStore(TopH, ChangesKind, T0, o, old, MergeD(a.d, b.d, d), serial, TRUE)
                          IN /\ txn' = IF r.out = "ConflictError" THEN r.t ELSE [r.t EXCEPT !.dres = @ \cup {o}]
                             /\ res' = Out("store", IF r.out = "ConflictError" THEN r.out ELSE "resolved")
                     ELSE txn' = [T0 EXCEPT !.phase = "failed"] /\ res' = Out("store", "ConflictError")
  /\ UNCHANGED <<layers, inst, clock, begun, noids, npacks, obs, dev>>

\* BaseStorage.checkCurrentSerialInTransaction with the storage's own getTid
CheckCurrent(c, o, serial) ==
  /\ Active(c)
  /\ serial \in SerialsOf(o) \ {0}
  /\ LET g == QGetTid(layers, Top, o) IN
     IF g.k # "tid" THEN txn' = Fail /\ res' = Out("checkCurrent", "POSKeyError")
     ELSE IF g.serial = serial THEN txn' = txn /\ res' = OK("checkCurrent")
     ELSE txn' = Fail /\ res' = Out("checkCurrent", "ReadConflictError")
  /\ UNCHANGED <<layers, inst, clock, begun, noids, npacks, obs, dev>>

(* ---- undo: the changes storage's own method (FileStorage._transactionalUndoRecord), on history H ---- *)
Null == <<0, 0>>
UIndexPos(H, o) == IF Idx(H, o) = {} THEN Null ELSE LET i == CurPos(H, o) IN <<i, LastRec(H[i], o)>>
UPrevRecPos(H, i, o) == LET p == PrevPos(H, i, o) IN IF p = 0 THEN Null ELSE <<p, LastRec(H[p], o)>>
URecAt(H, p) == H[p[1]].recs[p[2]]
UBackPos(H, r) == IF r.op # "back" THEN Null
                  ELSE LET p == TidPos(H, r.back)
                       IN IF p = 0 \/ ~Writes(H, p, r.oid) THEN Null ELSE <<p, LastRec(H[p], r.oid)>>
TIdx(S, o) == LET J == {j \in 1..Len(S) : S[j].oid = o} IN IF J = {} THEN 0 ELSE MaxS(J)

\* below: what the layers under the top hold for o (only the repaired undo looks there)
UndoOne(H, below, S, i, j) ==
  LET r    == H[i].recs[j]
      o    == r.oid
      pos  == <<i, j>>
      pre  == UPrevRecPos(H, i, o)
      ipos == UIndexPos(H, o)
      tj   == TIdx(S, o)
      staged == tj # 0
      tipos  == IF staged THEN <<Len(H) + 1, tj>> ELSE ipos
      curRec == IF staged THEN S[tj] ELSE URecAt(H, ipos)
      cptr   == IF curRec.op = "data" THEN tipos ELSE UBackPos(H, curRec)
      undone == DataOfRec(H, r)
      curD   == IF curRec.op = "data" THEN curRec.d
                ELSE IF cptr = Null THEN Gone ELSE DataOfRec(H, URecAt(H, cptr))
      trivial == tipos = pos \/ cptr = pos
      loadFail == ~trivial /\ (undone = Gone \/ curD = Gone)
      \* (FileStorage compares the pickles: the records of a blob are all alike, whatever the blob files hold)
      differ == ~trivial /\ ~loadFail /\ undone # curD /\ o \notin BlobOids
      preD == IF pre = Null THEN Gone ELSE DataOfRec(H, URecAt(H, pre))
      oldD == DataAt(H, i, o)
  IN IF loadFail THEN [k |-> "fail"]
     ELSE IF differ /\ pre = Null THEN [k |-> "fail"]
     \* repaired: when the changes un-create an object that the layers below hold (and that is current in the
     \* changes), the demo storage stores the state from below on top of the "does not exist" record
     ELSE IF pre = Null THEN [k |-> "rec", recs |-> IF ~UndoUncreates /\ below[o].k = "rev" /\ SGetTid(H, o).k = "tid"
                                                      THEN <<ZeroRec(o, -1), DataRec(o, below[o].d, -1, FALSE)>>
                                                      ELSE <<ZeroRec(o, -1)>>]
     ELSE IF ~differ THEN [k |-> "rec", recs |-> <<BackRec(o, H[pre[1]].tid)>>]
     ELSE IF preD = Gone \/ oldD = Gone \/ Cls[o] # "merge" THEN [k |-> "fail"]
     ELSE [k |-> "rec", recs |-> <<DataRec(o, MergeD(oldD, curD, preD), -1, TRUE)>>]

RECURSIVE UndoFold(_, _, _, _, _, _, _)
UndoFold(H, below, S, i, j, out, fails) ==
  IF j > Len(H[i].recs) THEN [out |-> out, fails |-> fails]
  ELSE LET o == H[i].recs[j].oid
           u == UndoOne(H, below, S, i, j)
       IN IF u.k = "fail" THEN UndoFold(H, below, S, i, j + 1, out, fails \cup {o})
          ELSE UndoFold(H, below, S, i, j + 1, out \o u.recs, fails \ {o})

\* DemoStorage.undo *is* changes.undo: transactions of the lower layers are not found
Undo(c, t) ==
  /\ IsFile /\ Active(c) /\ Len(txn.undone) < MaxUndo
  /\ t \in TidsOf(Cat(layers))
  /\ LET i == TidPos(TopH, t)
         below == [o \in Oids |-> IF IsDemo THEN QLoad(layers, Top - 1, o) ELSE KeyErr]
     IN
     IF i = 0 THEN txn' = Fail /\ res' = Out("undo", "UndoError")
     ELSE IF TopH[i].status # " " THEN txn' = Fail /\ res' = Out("undo", "UndoError")
     ELSE LET u == UndoFold(TopH, below, txn.staged, i, 1, <<>>, {}) IN
          IF u.fails # {} THEN txn' = Fail /\ res' = Out("undo", "UndoError")
          ELSE /\ Len(txn.staged) + Len(u.out) <= MaxRecs + 2
               /\ txn' = [txn EXCEPT !.staged = @ \o u.out, !.undone = Append(@, t)]
               /\ res' = [call |-> "undo", out |-> "ok", oids |-> {u.out[j].oid : j \in 1..Len(u.out)}]
  /\ UNCHANGED <<layers, inst, clock, begun, noids, npacks, obs, dev>>

\* DemoStorage.tpc_vote: a conflict resolved by the changes storage itself is refused
Vote(c) ==
  /\ Active(c)
  /\ IF IsDemo /\ txn.cres # {}
     THEN txn' = Fail /\ res' = Out("vote", "StorageTransactionError")
     ELSE /\ txn' = [txn EXCEPT !.phase = "voted"]
          /\ res' = [call |-> "vote", out |-> "ok", oids |-> IF IsDemo THEN txn.dres ELSE txn.cres]
  /\ UNCHANGED <<layers, inst, clock, begun, noids, npacks, obs, dev>>

Finish(c) ==
  /\ InTxn(c) /\ txn.phase = "voted"
  /\ layers' = [layers EXCEPT ![Top] = Append(@, [tid |-> txn.tid, status |-> " ", meta |-> txn.meta, recs |-> txn.staged])]
  /\ inst' = [inst EXCEPT ![Top].ltid = txn.tid, ![Top].issued = @ \ txn.stored]
  /\ txn' = NoTxn
  /\ res' = [call |-> "finish", out |-> "ok", tid |-> txn.tid]
  /\ obs' = ObsOf(layers', inst') /\ dev' = DevOf(layers', inst', obs')
  /\ UNCHANGED <<clock, begun, noids, npacks>>

Abort(c) ==
  /\ InTxn(c)
  /\ txn' = NoTxn
  /\ res' = OK("abort")
  /\ UNCHANGED <<layers, inst, clock, begun, noids, npacks, obs, dev>>

WrongCalls == {"store", "vote", "finish", "abort", "undo", "checkCurrent"}
Wrong(call) ==
  /\ IsDemo /\ call \in WrongCalls
  /\ (call = "undo" => IsFile)
  /\ res' = Out("wrong-" \o call, IF call = "abort" THEN "ok" ELSE "StorageTransactionError")
  /\ UNCHANGED <<layers, inst, txn, clock, begun, noids, npacks, obs, dev>>

\* DemoStorage.new_oid with _next_oid = n0 (instance state the environment may have left anywhere):
\* n0 is handed out unless it was issued before, or loads from the changes or from the base;
\* otherwise a fresh random 62-bit number is tried (oid -1: "outside the universe")
Present(n, o) == IF OidProbeByLoad THEN QLoad(layers, n, o).k = "rev" ELSE o \in OidsOf(CatL(layers, n))
NewOid(n0) ==
  /\ IsDemo /\ noids < MaxNewOid /\ noids' = noids + 1
  /\ (IF txn = NoTxn THEN TRUE ELSE txn.phase = "begun")
  /\ LET ok == n0 \notin inst[Top].issued /\ ~Present(Top, n0)
     IN /\ res' = [call |-> "new_oid", out |-> "ok", oid |-> IF ok THEN n0 ELSE -1,
                    \* the meaning: the id handed out was issued before or has records in some layer
                    collides |-> ok /\ (n0 \in inst[Top].issued \/ n0 \in OidsOf(Cat(layers)))]
        /\ inst' = IF ok THEN [inst EXCEPT ![Top].issued = @ \cup {n0}] ELSE inst
  /\ UNCHANGED <<layers, txn, clock, begun, npacks, obs, dev>>

\* DemoStorage.pack(t, referencesf, gc): g is the gc argument, "none" | "false" | "true".
\*  - changes created by the demo storage itself (always a MappingStorage): changes.pack(t, referencesf[, gc=gc]),
\*    so gc=None means the MappingStorage default, garbage collection over the changes alone - which
\*    fails (KeyError) as soon as a reference leads into the base or the root lives there
\*  - changes passed in: gc=True is refused, otherwise changes.pack(t, referencesf, gc=False)
\*    (the code as it is fails before that: the flag it reads was never set)
PackT(sec) == sec * K + K - 1
GcArgs == {"none", "false", "true"}
Pack(sec, g) ==
  /\ IsDemo /\ txn = NoTxn /\ npacks < MaxPack /\ npacks' = npacks + 1
  /\ sec \in 0..(MaxClock + 1) /\ g \in GcArgs
  /\ LET T == PackT(sec)
         \* repaired: the flag exists, and only a demo storage without a base collects garbage
         ownGc == PackAsCode /\ Temporary
         r == IF ~Temporary /\ PackAsCode THEN [out |-> "AttributeError", h |-> TopH]
              ELSE IF ~ownGc /\ g = "true" THEN [out |-> "TypeError", h |-> TopH]
              ELSE IF OidsOf(TopH) = {} THEN [out |-> "empty", h |-> TopH]
              ELSE IF IsFile THEN FilePack(TopH, T, FALSE)
              ELSE MappingPack(TopH, T, ownGc /\ g # "false", inst[Top].lastPack)
         \* MappingStorage sets _last_pack before it does anything else
         mark == ~IsFile /\ r.out \in {"ok", "KeyError"}
     IN /\ layers' = [layers EXCEPT ![Top] = r.h]
        /\ inst' = LET J == IF (mark \/ r.out \in {"ok", "nothing-freed", "redundant"}) /\ T > inst[Top].lastPack
                            THEN [inst EXCEPT ![Top].lastPack = T] ELSE inst
                   \* repaired: pack() notes the pack time first of all
                   IN IF ~PackRevealsBase /\ T > inst[Top].demoPack THEN [J EXCEPT ![Top].demoPack = T] ELSE J
        \* the code as it is: a garbage collection over the changes alone that fails on a reference into the base
        \* (or on the root living there) has already moved the objects it visited out of the changes
        \* (MappingStorage.pack is not exception safe; the visiting order is Python's set order).  The meaning
        \* of a pack that fails is "nothing changed": that is what the history keeps here; `cause` tells the
        \* replay that the real changes storage may have lost revisions at this point.
        \* `stale`: the snapshots (oid, bound) that are served a revision after the pack which is not the revision
        \* they were served before it, for objects the changes still hold (an object collected as garbage is gone
        \* from the changes altogether: C07 does not constrain what an unreachable object reads as)
        /\ res' = [call |-> "pack", out |-> r.out, T |-> T, gc |-> g,
                    cause |-> IF ownGc /\ g # "false" /\ r.out = "KeyError" THEN "pack-gc-ignores-base" ELSE "none",
                    \* (TLCEval: TLC must not keep the set as an unevaluated filter inside the state)
                    stale |-> TLCEval({q \in Oids \X Bounds(Cat(layers)) :
                                 LET a == QLoadBefore(layers, inst, Top, q[1], q[2])
                                     b == QLoadBefore(layers', inst', Top, q[1], q[2])
                                 IN /\ Idx(r.h, q[1]) # {} /\ b.k = "rev"
                                    /\ ~(a.k = "rev" /\ a.d = b.d /\ a.serial = b.serial)})]
  /\ obs' = ObsOf(layers', inst') /\ dev' = DevOf(layers', inst', obs')
  /\ UNCHANGED <<txn, clock, begun, noids>>

\* DemoStorage(base = top, changes = new storage) / top.push(changes = new storage)
Push ==
  /\ txn = NoTxn /\ Top < MaxLayers
  /\ layers' = Append(layers, <<>>)
  /\ inst' = Append(inst, FreshInst)
  /\ begun' = IF IsDemo THEN begun ELSE 0
  /\ res' = OK("push")
  /\ obs' = ObsOf(layers', inst') /\ dev' = DevOf(layers', inst', obs')
  /\ UNCHANGED <<txn, clock, noids, npacks>>

\* pop(): closes the changes and returns the base (only from a pushed demo: the result is a demo again)
Pop ==
  /\ txn = NoTxn /\ Top >= 3
  /\ layers' = SubSeq(layers, 1, Top - 1)
  /\ inst' = SubSeq(inst, 1, Top - 1)
  /\ res' = OK("pop")
  /\ obs' = ObsOf(layers', inst') /\ dev' = DevOf(layers', inst', obs')
  /\ UNCHANGED <<txn, clock, begun, noids, npacks>>

SerialRange == {0} \cup {c * K + b : c \in 1..(MaxClock + 1), b \in 0..(MaxBase + MaxTxn + 1)}

Next ==
  \/ \E c \in Client, m \in Metas, clk \in 1..MaxClock : Begin(c, m, clk)
  \/ \E c \in Client, o \in Oids, s \in SerialRange, d \in Datums : Store(c, o, s, d)
  \/ \E c \in Client, o \in Oids, s \in SerialRange : CheckCurrent(c, o, s)
  \/ \E c \in Client, t \in SerialRange : Undo(c, t)
  \/ \E c \in Client : Vote(c)
  \/ \E c \in Client : Finish(c)
  \/ \E c \in Client : Abort(c)
  \/ \E call \in WrongCalls : Wrong(call)
  \/ \E n0 \in Oids : NewOid(n0)
  \/ \E sec \in 0..(MaxClock + 1), g \in GcArgs : Pack(sec, g)
  \/ Push
  \/ Pop

\* for exhaustive checking: calls with a foreign transaction change nothing but `res` (six self-loops per
\* state under the VIEW); they are left to the scenarios and to simulation
NextMC ==
  \/ \E c \in Client, m \in Metas, clk \in 1..MaxClock : Begin(c, m, clk)
  \/ \E c \in Client, o \in Oids, s \in SerialRange, d \in Datums : Store(c, o, s, d)
  \/ \E c \in Client, o \in Oids, s \in SerialRange : CheckCurrent(c, o, s)
  \/ \E c \in Client, t \in SerialRange : Undo(c, t)
  \/ \E c \in Client : Vote(c)
  \/ \E c \in Client : Finish(c)
  \/ \E c \in Client : Abort(c)
  \/ \E n0 \in Oids : NewOid(n0)
  \/ \E sec \in 0..(MaxClock + 1), g \in GcArgs : Pack(sec, g)
  \/ Push
  \/ Pop

\* directed sub-relation for simulation (a uniform walk wastes its bounded number of transactions on refused
\* calls): stale serials mostly where a resolver exists, undo and readCurrent at fixed places of a transaction,
\* calls with a foreign transaction between vote and finish, new_oid / pack / push / pop between transactions
AbortFailed(c) == InTxn(c) /\ txn.phase = "failed" /\ Abort(c)
AbortVoted(c) == IsDemo /\ InTxn(c) /\ txn.phase = "voted" /\ Len(txn.staged) >= 2 /\ Abort(c)
CurSerial(o) == LET l == QLoad(layers, Top, o) IN IF l.k = "rev" THEN l.serial ELSE 0
StoreQ(c, o, s, d) == Active(c) /\ (s = CurSerial(o) \/ (IsDemo /\ (Cls[o] = "merge" \/ txn.staged = <<>>))) /\ Store(c, o, s, d)
CheckCurrentQ(c, o, s) == IsDemo /\ Active(c) /\ Len(txn.staged) = 1 /\ CheckCurrent(c, o, s)
UndoQ(c, t) == Active(c) /\ txn.staged = <<>> /\ Undo(c, t)
WrongQ(call) == (IF txn = NoTxn THEN FALSE ELSE txn.phase = "voted" /\ Len(txn.staged) = 1) /\ res.call = "vote" /\ Wrong(call)
NewOidQ(n0) == (IF txn = NoTxn THEN TRUE ELSE txn.staged = <<>>) /\ NewOid(n0)
PackQ(sec, g) == Len(TopH) >= 2 /\ res.call \in {"finish", "pack"} /\ Pack(sec, g)
PushQ == (IsDemo => res.call \in {"finish", "pop"}) /\ Push
PopQ == res.call \in {"finish", "push", "new_oid"} /\ Pop
NextSim ==
  \/ \E c \in Client, m \in Metas, clk \in 1..MaxClock : Begin(c, m, clk)
  \/ \E c \in Client, o \in Oids, s \in SerialRange, d \in Datums : StoreQ(c, o, s, d)
  \/ \E c \in Client, o \in Oids, s \in SerialRange : CheckCurrentQ(c, o, s)
  \/ \E c \in Client, t \in SerialRange : UndoQ(c, t)
  \/ \E c \in Client : Vote(c)
  \/ \E c \in Client : Finish(c)
  \/ \E c \in Client : AbortFailed(c)
  \/ \E c \in Client : AbortVoted(c)
  \/ \E call \in WrongCalls : WrongQ(call)
  \/ \E n0 \in Oids : NewOidQ(n0)
  \/ \E sec \in 0..(MaxClock + 1), g \in GcArgs : PackQ(sec, g)
  \/ PushQ
  \/ PopQ

Spec == Init /\ [][Next]_vars
View == <<layers, inst, txn, clock, begun, noids, npacks>>

(* ============================== properties ============================== *)
TypeOK == /\ (IF txn = NoTxn THEN TRUE ELSE txn.phase \in {"begun", "voted", "failed"})
          /\ Len(layers) \in 1..MaxLayers /\ Len(inst) = Len(layers) /\ clock \in 1..MaxClock
          /\ \A n \in 1..Len(layers) : Increasing(layers[n])

\* C16 "reads as changes-over-base": every answer of the demo storage is the answer of one database
\* holding base \o changes, with the intervals joined at the seam
DemoObs == Dev(layers, inst).cause = "none"
NoUndoDeviation == Dev(layers, inst).cause # "undo-uncreates-lower-object"
\* with the code as it is: every difference is one of the named deviations
Explained == Dev(layers, inst).cause # "unexplained"
\* tids strictly increase across the seam (C04 for the stack; F10)
TidsIncreaseAcrossLayers == SeamOrdered(layers) /\ LtidOrdered(inst)

\* C16 "never modifies its base": whatever is done, every layer below the top stays as it is
BaseUnchanged ==
  [][\A n \in 1..Len(layers) : (n < Len(layers) /\ n <= Len(layers')) => layers'[n] = layers[n]]_vars
\* only tpc_finish and pack change the top layer; an abort or a refused call changes nothing
OnlyFinishAndPackWrite ==
  [][(Len(layers') = Len(layers) /\ layers' # layers) => res'.call \in {"finish", "pack"}]_vars
AbortRestores == [][(res'.out # "ok" \/ res'.call = "abort") => (layers' = layers)]_vars

\* conflict detection treats both layers as one database: every committed data revision was derived
\* from the revision immediately preceding it in base \o changes, or is the class's merge of exactly
\* (state at the writer's serial, state committed, state wanted) - the serial may lie in a lower layer
ConflictAcrossLayers ==
  SeamOrdered(layers) =>
    LET M == Cat(layers) IN
    \A i \in 1..Len(M) : \A j \in 1..Len(M[i].recs) :
      LET r == M[i].recs[j] IN
        \* (a pack may have removed the revision the writer started from)
        (r.op = "data" /\ r.base >= 0 /\ \A n \in 1..Len(inst) : (inst[n].lastPack = 0 \/ r.base > inst[n].lastPack)) =>
           LET p == PrevPos(M, i, r.oid) IN
           \* an object that a lower layer holds as "does not exist" (its creation was undone there) is a new
           \* object for the demo storage: whatever serial the writer names, nothing is lost
           IF p # 0 /\ LayerOf(layers, p) < LayerOf(layers, i) /\ DataAt(M, p, r.oid) = Gone THEN TRUE
           ELSE IF ~r.res THEN r.base = (IF p = 0 THEN 0 ELSE M[p].tid)
           ELSE /\ p # 0 /\ r.d.v[1] = "M"
                /\ r.d.v[2] = LoadSerial(M, r.oid, r.base).d.v
                /\ r.d.v[3] = DataAt(M, p, r.oid).v

\* undo touches the changes only: a transaction of a lower layer is refused, an accepted undo names a
\* transaction of the top layer
UndoInChangesOnly ==
  [][(res'.call = "undo" /\ res'.out = "ok") => (Len(txn'.undone) > 0 /\ txn'.undone[Len(txn'.undone)] \in TidsOf(TopH))]_vars

\* new_oid never returns an id issued before by this demo storage or present in any layer
\* whatever packs are done through it: no snapshot is served, after a pack, a revision other than the one it was
\* served before (it may be served none: packed away) - in particular not the revision of a lower layer that
\* the packed-away changes had replaced
PackServesNoStaleRevision == [][res'.call = "pack" => res'.stale = {}]_vars
\* storeBlob detects conflicts as store does (implied by ConflictAcrossLayers for committed revisions)
BlobStoreChecked == [][(res'.call = "store" /\ "lost" \in DOMAIN res') => ~res'.lost]_vars
OidFreshBothLayers == [][(res'.call = "new_oid" /\ noids' = noids + 1) => ~res'.collides]_vars
\* an id is forgotten from the issued set only once it is stored in the changes
IssuedOrStored ==
  [][\A o \in Oids : (Len(inst') = Len(inst) /\ o \in inst[Top].issued /\ o \notin inst'[Top].issued)
        => o \in OidsOf(layers'[Top])]_vars

\* push shows the same database; pop gives back the lower demo untouched
SameReads(a, b) == a.lb = b.lb /\ a.cur = b.cur /\ a.ser = b.ser /\ a.gt = b.gt /\ a.revs = b.revs
                   /\ a.iter = b.iter /\ a.last = b.last
PushPop ==
  [][/\ (res'.call = "push" /\ Len(layers) > 1) => SameReads(DObs(layers', inst'), DObs(layers, inst))
     /\ res'.call = "pop" => (layers' = SubSeq(layers, 1, Len(layers) - 1) /\ inst' = SubSeq(inst, 1, Len(inst) - 1))]_vars
=============================================================================
