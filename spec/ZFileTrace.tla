----------------------------- MODULE ZFileTrace -----------------------------
(***************************************************************************)
(* Trace validation (code -> spec): a batch of traces recorded by the raw  *)
(* file layer from the real FileStorage is checked against ZFile.  Each    *)
(* trace is a sequence of events; crash probes (the file image after this  *)
(* many raw operations, reopened with the real FileStorage, showed exactly *)
(* the first n committed transactions) are events too and must agree with  *)
(* what the specification says is recoverable at that point.               *)
(***************************************************************************)
EXTENDS ZFile, Json, IOUtils, TLCExt

Traces == JsonDeserialize(IOEnv.TRACE_FILE)
VARIABLES t, l
tvars == <<fvars, t, l>>
T == Traces[t]
E == T[l]
Is(name) == l <= Len(T) /\ E.ev = name /\ l' = l + 1 /\ t' = t

\* a probe lists the versions of the model history the opened storage is indistinguishable from
\* (when the image was also opened read-only before - field ro - that storage must show the same: a read-only open
\* ignores an unfinished or torn tail instead of cutting it off)
Sees(e) == /\ \E j \in 1..Len(e.n) : e.n[j] = Recover
           /\ ("ro" \in DOMAIN e => \E j \in 1..Len(e.ro) : e.ro[j] = Recover)
TInit == FInit /\ t \in 1..Len(Traces) /\ l = 1

TVoteWrite == Is("VoteWrite") /\ VoteWrite(E.off, E.n, E.st)
TVoteEnd == Is("VoteEnd") /\ VoteEnd(E.htl, E.ttl)
TFlip == Is("Flip") /\ Flip(E.off, E.st)
TFsync == Is("Fsync") /\ Fsync
TAck == Is("Ack") /\ Ack
TTruncate == Is("Truncate") /\ Truncate(E.size)
TAbortDone == Is("AbortDone") /\ AbortDone
\* operations on side files (.tmp, .index, .lock) and calls that do not touch the data file
TSide == Is("Side") /\ UNCHANGED fvars
\* reopen of the storage: the file must be at a committed end; the in-memory position is re-derived
TReopen == Is("Reopen") /\ phase = "idle" /\ E.pos = pos /\ UNCHANGED fvars
TPackBegin == Is("PackBegin") /\ PackBegin
TPackSwap == Is("PackSwap") /\ PackSwap(E.pos)
TPackEnd == Is("PackEnd") /\ PackEnd
\* C08: a crash at any instant of a pack reopens to the unpacked or (once the rewritten file is swapped in) the
\* packed database
TProbePack == Is("ProbePack") /\ phase = "packing" /\ Sees(E) /\ UNCHANGED fvars
\* C09: the same image opened with an index file saved at an earlier moment (or a truncation of one), with
\* leftover side files, or read-only: the index and side files are only caches, so the answer is the same
TProbeIndex == Is("ProbeIndex") /\ Sees(E) /\ UNCHANGED fvars
TProbeRO == Is("ProbeRO") /\ Sees(E) /\ E.modified = FALSE /\ E.refused = TRUE /\ UNCHANGED fvars
\* time travel: the file opened read-only with stop = an earlier tid shows the state as of that transaction, whether
\* or not an index file is present
TProbeStop == Is("ProbeStop") /\ E.with_index = TRUE /\ E.without_index = TRUE /\ UNCHANGED fvars
\* crash probes
TProbe == Is("Probe") /\ Sees(E) /\ UNCHANGED fvars
TProbeTorn == Is("ProbeTorn") /\ Sees(E) /\ UNCHANGED fvars
\* an empty transaction of an empty database etc. need no special case: every call is an event

TNext == TVoteWrite \/ TVoteEnd \/ TFlip \/ TFsync \/ TAck \/ TTruncate \/ TAbortDone \/ TSide \/ TReopen \/ TProbe \/ TProbeTorn \/ TPackBegin \/ TPackSwap \/ TPackEnd \/ TProbePack \/ TProbeIndex \/ TProbeRO \/ TProbeStop

Accepted == l = Len(T) + 1
Report == (Accepted => PrintT(<<"ACCEPT", t>>)) /\ (IOEnv.TRACE_VERBOSE = "1" => PrintT(<<"AT", t, l>>))
=============================================================================
