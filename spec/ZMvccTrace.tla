----------------------------- MODULE ZMvccTrace -----------------------------
(* Trace validation: traces recorded from the real DB / Connection / storage under the cooperative scheduler
   are checked against ZMvcc; the invariants of ZMvcc are evaluated in every state of every trace. *)
EXTENDS ZMvcc, Json, IOUtils, TLCExt
Traces == JsonDeserialize(IOEnv.TRACE_FILE)
VARIABLES t, l
tvars == <<vars, t, l>>
Tr == Traces[t]
E == Tr[l]
Is(n) == l <= Len(Tr) /\ E.ev = n /\ l' = l + 1 /\ t' = t
TInit == Init /\ t \in 1..Len(Traces) /\ l = 1
\* the recorded cache projection lists the non-ghost objects with their serials
Agrees(f, proj) == \A o \in Oid : (o \in DOMAIN proj => f[o] = proj[o]) /\ (o \notin DOMAIN proj => f[o] = 0 \/ TRUE)
Exact(f, proj) == \A o \in Oid : IF o \in DOMAIN proj THEN f[o] = proj[o] ELSE TRUE

OidSet(seq) == {seq[i] : i \in 1..Len(seq)}
TOpenNew    == Is("Open") /\ E.reused = FALSE /\ OpenNew(E.conn)
TOpenPooled == Is("Open") /\ E.reused = TRUE /\ OpenPooled(E.conn)
TClose      == Is("Close") /\ Close(E.conn)
TPollRead   == Is("PollRead") /\ PollRead(E.conn) /\ polled'[E.conn] = E.polled
TPollApply  == Is("PollApply") /\ PollApply(E.conn) /\ start'[E.conn] = E.start /\ Exact(cache'[E.conn], E.cache)
TRead       == Is("Read") /\ Read(E.conn, E.oid) /\ cache'[E.conn][E.oid] = E.serial
\* the real cache may have dropped (garbage collected) an unmodified object the model still holds: evict + load
TReadEvict  == /\ Is("Read") /\ (~InFinish \/ start[E.conn] < ctid) /\ pc[E.conn] = "txn" /\ cache[E.conn][E.oid] # 0 /\ E.oid \notin dirty[E.conn]
               /\ E.serial = SerialAt(E.oid, start[E.conn]) /\ E.serial # 0
               /\ cache' = [cache EXCEPT ![E.conn][E.oid] = E.serial]
               /\ UNCHANGED <<hist, sLtid, start, inval, iLtid, pc, polled, dirty, rc, commitLock, pending, ctid, pool, closes>>
TWrite      == Is("Write") /\ (Write(E.conn, E.oid) \/ (E.oid \in dirty[E.conn] /\ UNCHANGED vars))
TReadCurrent == Is("ReadCurrent") /\ ReadCurrent(E.conn, E.oid)
\* a savepoint flushes modified objects to the connection's private TmpStore: nothing shared changes
TSavepoint  == Is("Savepoint") /\ pc[E.conn] = "txn" /\ UNCHANGED vars
TBeginVote  == Is("BeginVote") /\ BeginVote(E.conn) /\ (E.ok <=> pc'[E.conn] = "voted")
TUndoVote   == Is("UndoVote") /\ UndoVote(E.conn, OidSet(E.oids), E.ok)
\* an undo transaction that failed (UndoError) or was aborted leaves no trace
TUndoAbort  == Is("UndoAbort") /\ pc[E.conn] = "new" /\ UNCHANGED vars
TFinish     == Is("FinishStart") /\ FinishStart(E.conn) /\ ctid = E.tid
TDeliver    == Is("Deliver") /\ Deliver(E.conn, E.to) /\ iLtid'[E.to] = E.tid
TPublish    == Is("Publish") /\ Publish(E.conn) /\ sLtid' = E.tid
\* abort of a running transaction; a second abort after a failed commit (or of a transaction that never
\* joined) is a stutter
TAbort      == Is("AbortTxn") /\ (AbortTxn(E.conn) \/ (pc[E.conn] \in {"idle", "closed"} /\ UNCHANGED vars))
\* tpc_abort: of a voted transaction (another participant failed), or the second half of a failed commit (stutter)
TTpcAbort   == Is("TpcAbort") /\ (AbortVoted(E.conn) \/ (pc[E.conn] # "voted" /\ UNCHANGED vars))
TRollback   == Is("Rollback") /\ Rollback(E.conn, OidSet(E.keep))
TNext == TOpenNew \/ TOpenPooled \/ TClose \/ TPollRead \/ TPollApply \/ TRead \/ TReadEvict \/ TWrite \/ TReadCurrent \/ TSavepoint \/ TBeginVote
         \/ TUndoVote \/ TUndoAbort \/ TFinish \/ TDeliver \/ TPublish \/ TAbort \/ TTpcAbort \/ TRollback
Accepted == l = Len(Tr) + 1
Report == (Accepted => PrintT(<<"ACCEPT", t>>)) /\ (IOEnv.TRACE_VERBOSE = "1" => PrintT(<<"AT", t, l>>))
=============================================================================
