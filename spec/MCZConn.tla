------------------------------ MODULE MCZConn ------------------------------
(* Model-checking companion of ZConn: constant expressions the generated configurations refer to. *)
EXTENDS ZConn
\* link shapes (the root is "r"): children of the root only / plus one level below
EdgesFlat == {<<Root, o>> : o \in Obj}
EdgesChain == EdgesFlat \cup {<<"a", "b">>} \cup (IF "c" \in Obj THEN {<<"a", "c">>, <<"b", "c">>} ELSE {})
\* blobs hang off the root only (a blob whose data went with an aborted savepoint is never linked from a live state)
EdgesBlob == EdgesFlat \cup {<<"a", "b">> : x \in {y \in {1} : "a" \in Obj \ Blobs /\ "b" \in Obj \ Blobs}}
\* objects committed under the root before the behaviour starts
PreNone == <<>>
PreA == <<"a">>
PreAB == <<"a", "b">>
=============================================================================
