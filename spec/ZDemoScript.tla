---------------------------- MODULE ZDemoScript -----------------------------
(***************************************************************************)
(* Scripted behaviours of ZDemo (as ZScript does for ZStorage): the        *)
(* harness enumerates families of call sequences (directed scenarios), TLC *)
(* evaluates each of them with the actions of the specification and so     *)
(* supplies the expected outcome, observation table and deviation record   *)
(* after every call.  Serials and tids are given symbolically:             *)
(*   s = -1: the current serial of the oid as the top storage reports it   *)
(*   s = -1-k (k >= 1): the tid of the k-th committed transaction of       *)
(*   base \o changes;  undo/k likewise (k < 0: counted from the end).      *)
(* Scripts is defined by the generated module MCDemoScripts.               *)
(***************************************************************************)
EXTENDS MCZDemo
CONSTANT Scripts
VARIABLES sid, pc, act,     \* act: the concrete call just made (symbolic serials resolved)
          todo              \* what is left of the script (TLC re-evaluates the constant Scripts on every reference)
svars == <<vars, sid, pc, act, todo>>
C1 == CHOOSE c \in Client : TRUE
E == Head(todo)
More == todo # <<>>
AllH == Cat(layers)
\* (k >= K: a concrete tid - every tid is at least K, no history has K transactions; used by recorded replays)
KTid(k) == IF k >= K THEN k
           ELSE IF k >= 1 /\ k <= Len(AllH) THEN AllH[k].tid
           ELSE IF k <= -1 /\ Len(AllH) + k + 1 >= 1 THEN AllH[Len(AllH) + k + 1].tid ELSE 0
CurSer(o) == LET l == QLoad(layers, Top, o) IN IF l.k = "rev" THEN l.serial ELSE 0
\* (a transaction that did not write the object does not name a serial of it: the current one is meant)
Ser(o, s) == IF s = -1 THEN CurSer(o)
             ELSE IF s <= -2 THEN (IF KTid(-s - 1) \in SerialsOf(o) THEN KTid(-s - 1) ELSE CurSer(o)) ELSE s
Adv == pc' = pc + 1 /\ sid' = sid /\ todo' = Tail(todo)

\* the client's side of the protocol: after a refused call it aborts (an inserted step), and what the
\* script still holds for that transaction is skipped
Failed == IF txn = NoTxn THEN FALSE ELSE txn.phase = "failed"
Idle == txn = NoTxn
Go == More /\ ~Failed
TxnCalls == {"store", "check", "undo", "vote", "finish", "abort"}

SInit == Init /\ sid \in 1..Len(Scripts) /\ todo = Scripts[sid] /\ pc = 1 /\ act = [a |-> "init"]
SAutoAbort == More /\ Failed /\ Abort(C1) /\ pc' = pc /\ sid' = sid /\ todo' = todo /\ act' = [a |-> "abort"]
SSkip == Go /\ Idle /\ E.a \in TxnCalls /\ UNCHANGED vars /\ Adv /\ act' = [a |-> "skip"]
SBegin == Go /\ E.a = "begin" /\ Begin(C1, E.m, E.clk) /\ Adv /\ act' = E
SStore == Go /\ ~Idle /\ E.a = "store" /\ Store(C1, E.o, Ser(E.o, E.s), E.d) /\ Adv /\ act' = [E EXCEPT !.s = Ser(E.o, E.s)]
SCheck == Go /\ ~Idle /\ E.a = "check" /\ CheckCurrent(C1, E.o, Ser(E.o, E.s)) /\ Adv /\ act' = [E EXCEPT !.s = Ser(E.o, E.s)]
SUndo == Go /\ ~Idle /\ E.a = "undo" /\ Undo(C1, KTid(E.k)) /\ Adv /\ act' = [E EXCEPT !.k = KTid(E.k)]
SVote == Go /\ ~Idle /\ E.a = "vote" /\ Vote(C1) /\ Adv /\ act' = E
SFinish == Go /\ ~Idle /\ E.a = "finish" /\ Finish(C1) /\ Adv /\ act' = E
SAbort == Go /\ ~Idle /\ E.a = "abort" /\ Abort(C1) /\ Adv /\ act' = E
SWrong == Go /\ E.a = "wrong" /\ Wrong(E.call) /\ Adv /\ act' = E
SNewOid == Go /\ E.a = "newoid" /\ NewOid(E.n) /\ Adv /\ act' = E
SPack == Go /\ E.a = "pack" /\ Pack(E.sec, E.g) /\ Adv /\ act' = E
SPush == Go /\ E.a = "push" /\ Push /\ Adv /\ act' = E
SPop == Go /\ E.a = "pop" /\ Pop /\ Adv /\ act' = E
SNext == SAutoAbort \/ SSkip \/ SBegin \/ SStore \/ SCheck \/ SUndo \/ SVote \/ SFinish \/ SAbort \/ SWrong
         \/ SNewOid \/ SPack \/ SPush \/ SPop
=============================================================================
