#!/venv/bin/python
"""Demonstrates that the trace specifications really bind the code: recorded traces are accepted as they are,
and rejected - at exactly the tampered event - once one logged field is corrupted or one event is removed."""
import copy
import os
import random
import sys

sys.path.insert(0, os.path.dirname(os.path.dirname(os.path.abspath(__file__))))
from zv import env  # noqa: E402

env.setup(os.environ.get('ZV_REPO', '/repo'))
from zv import clock, faultfs, tlc  # noqa: E402
from zv.checks import _storage as S, c02  # noqa: E402
from zv.drivers import crash, mvcc, storage as sd  # noqa: E402
from zv.runner import Ctx  # noqa: E402


def main():
    ctx = Ctx('SELFTEST', 'quick', 0, env.REPO)
    ok = True
    try:
        # --- ZMvccTrace ---
        rng = random.Random(1)
        res = [mvcc.scenario(('file', mvcc.gen_programs(rng, 2, 4), i, os.path.join(ctx.scratch, 'b%d' % i), {'stick': 0.5}))
               for i in range(12)]
        traces = [r['trace'] for r in res if any(e['ev'] == 'Deliver' for e in r['trace'])][:6]
        tampered = []
        for t in traces:
            a = copy.deepcopy(t)
            k = next(i for i, e in enumerate(a) if e['ev'] == 'Deliver')
            a[k]['tid'] += 1                                    # corrupt one logged field
            b = copy.deepcopy(t)
            k2 = next(i for i, e in enumerate(b) if e['ev'] == 'PollApply' and i > 2)
            del b[k2]                                           # drop one event (a removed hook)
            c = copy.deepcopy(t)
            k3 = next(i for i, e in enumerate(c) if e['ev'] == 'PollApply')
            c[k3]['start'] += 1                                 # a snapshot the code did not take
            tampered += [(a, k, 'at'), (b, k2, 'from'), (c, k3, 'at')]
        acc, rej, _ = tlc.validate_traces('ZMvccTrace', traces + [x[0] for x in tampered], os.path.join(ctx.scratch, 'tv1'),
                                          constants=c02.CONSTS)
        n = len(traces)
        good = all(i in acc for i in range(n))
        # a corrupted field is rejected at that very event; a removed event at the next step of that connection
        bad = all((n + j) in rej and (rej[n + j] == k if how == 'at' else rej[n + j] >= k) for j, (_, k, how) in enumerate(tampered))
        print('ZMvccTrace: %d recorded traces accepted: %s; %d tampered traces rejected exactly at the tampered event: %s' % (
            n, good, len(tampered), bad))
        ok = ok and good and bad
        # --- ZFileTrace ---
        clock.install()
        faultfs.install()
        c = sd.consts('file', Cls='MCCls', NOid=3, Metas=('m0',), MaxTxn=8, MaxRecs=3, MaxClock=2)
        files = S.simulate(ctx, 'b', c, num=6, depth=50, seed=3, next_='NextCommit')
        rs = [crash.run_behaviour((f, c, os.path.join(ctx.scratch, 'cr%d' % i), {'torn': 'sample'})) for i, f in enumerate(files)]
        traces = [r['events'] for r in rs if r['acks'] >= 1][:4]
        tampered = []
        for t in traces:
            a = copy.deepcopy(t)
            k = next(i for i, e in enumerate(a) if e['ev'] == 'Fsync')
            del a[k]                                            # the code "forgot" the fsync
            k_ack = next(i for i, e in enumerate(a) if e['ev'] == 'Ack')
            b = copy.deepcopy(t)
            kb = next(i for i, e in enumerate(b) if e['ev'] == 'Probe' and i > 10)
            b[kb]['n'] = [x + 1 for x in b[kb]['n']]            # a crash image that recovered one transaction more
            tampered += [(a, k_ack, 'at'), (b, kb, 'at')]
        acc, rej, _ = tlc.validate_traces('ZFileTrace', traces + [x[0] for x in tampered], os.path.join(ctx.scratch, 'tv2'),
                                          constants={'MaxTxn': 0, 'MaxChunk': 0})
        n = len(traces)
        good = all(i in acc for i in range(n))
        bad = all((n + j) in rej and rej[n + j] == k for j, (_, k, how) in enumerate(tampered))
        print('ZFileTrace: %d recorded traces accepted: %s; %d tampered traces rejected exactly at the tampered event: %s' % (
            n, good, len(tampered), bad))
        ok = ok and good and bad
    finally:
        ctx.cleanup()
    print('BINDING-SELFTEST', 'PASS' if ok else 'FAIL')
    return 0 if ok else 1


if __name__ == '__main__':
    sys.exit(main())
