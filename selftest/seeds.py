#!/venv/bin/python
"""Seeded-defect catalogue: confirm a change produced by an independent sub-agent and run checks against it.

  seeds.py confirm <src-dir> <seed-id> <property>   # src-dir holds patch.diff demo.py notes.md
  seeds.py run <seed-id> <check> [<check> ...]      # apply in a scratch worktree, run ./check --repo, report
  seeds.py matrix [tier]                            # run every seed against the checks listed in its meta.json

Scratch worktrees live under /tmp/sv and are removed straight after use.  /repo is never modified."""
import json
import os
import shutil
import subprocess
import sys
import time

ROOT = os.path.dirname(os.path.dirname(os.path.abspath(__file__)))
SEEDED = os.path.join(ROOT, 'seeded')
SUITE = ['/venv/bin/python', '-m', 'pytest', '-q', '-p', 'no:cacheprovider', '--timeout=900']


def sh(cmd, cwd=None, env=None, timeout=1800):
    e = dict(os.environ)
    if env:
        e.update(env)
    p = subprocess.run(cmd, cwd=cwd, env=e, stdout=subprocess.PIPE, stderr=subprocess.STDOUT, text=True, timeout=timeout)
    return p.returncode, p.stdout


def worktree(name):
    d = '/tmp/sv/%s-%d' % (name, os.getpid())
    if os.path.exists(d):
        sh(['git', '-C', '/repo', 'worktree', 'remove', '--force', d])
        shutil.rmtree(d, ignore_errors=True)
    os.makedirs('/tmp/sv', exist_ok=True)
    rc, out = sh(['git', '-C', '/repo', 'worktree', 'add', '-q', '--detach', d, 'HEAD'])
    if rc:
        raise RuntimeError(out)
    return d


def drop(d):
    sh(['git', '-C', '/repo', 'worktree', 'remove', '--force', d])
    shutil.rmtree(d, ignore_errors=True)
    sh(['git', '-C', '/repo', 'worktree', 'prune'])


def confirm(src, sid, prop):
    d = worktree('confirm-' + sid)
    env = {'PYTHONPATH': d + '/src', 'PYTHONDONTWRITEBYTECODE': '1'}
    meta = {'seed': sid, 'property': prop, 'ran': []}
    try:
        rc0, out0 = sh(['/venv/bin/python', os.path.join(src, 'demo.py')], cwd='/tmp', env=env, timeout=600)
        meta['ran'].append({'cmd': 'demo.py on unchanged tree', 'exit': rc0, 'tail': out0[-300:]})
        rc, out = sh(['git', '-C', d, 'apply', os.path.join(src, 'patch.diff')])
        if rc:
            raise RuntimeError('patch does not apply: ' + out)
        rcs, outs = sh(SUITE, cwd=d, env=env)
        tail = [line for line in outs.splitlines() if ' passed' in line or ' failed' in line][-1:]
        meta['ran'].append({'cmd': 'pinned suite with change', 'exit': rcs, 'tail': tail})
        rc1, out1 = sh(['/venv/bin/python', os.path.join(src, 'demo.py')], cwd='/tmp', env=env, timeout=600)
        meta['ran'].append({'cmd': 'demo.py with change', 'exit': rc1, 'tail': out1[-400:]})
        ok = rc0 == 0 and rcs == 0 and rc1 != 0 and tail and '137 passed' in tail[0]
        meta['confirmed'] = bool(ok)
        print(json.dumps(meta, indent=1))
        if ok:
            dst = os.path.join(SEEDED, sid)
            os.makedirs(dst, exist_ok=True)
            for f in ('patch.diff', 'demo.py', 'notes.md'):
                shutil.copy(os.path.join(src, f), dst)
            notes = open(os.path.join(src, 'notes.md')).read()
            meta['needs_to_manifest'] = notes[:1500]
            meta['checks'] = [prop]
            meta['detected_by'] = {}
            with open(os.path.join(dst, 'meta.json'), 'w') as f:
                json.dump(meta, f, indent=1)
        return ok
    finally:
        drop(d)


def run(sid, checks, tier='quick'):
    d = worktree('run-' + sid)
    res = {}
    try:
        rc, out = sh(['git', '-C', d, 'apply', os.path.join(SEEDED, sid, 'patch.diff')])
        if rc:
            # the seed was made against an earlier /repo HEAD (before later fix: commits): merge it
            rc, out2 = sh(['git', '-C', d, 'apply', '--3way', os.path.join(SEEDED, sid, 'patch.diff')])
            if rc or 'conflict' in out2.lower():
                print('%s: patch does not apply to the current tree (%s)' % (sid, (out + out2).strip().splitlines()[-1][:120]))
                return {}
        for c in checks:
            t0 = time.time()
            rc, out = sh([os.path.join(ROOT, 'check'), c, '--tier', tier, '--repo', d], cwd=ROOT, timeout=3600)
            lines = [line for line in out.splitlines() if line.startswith(('VIOLATION', 'KNOWN-FINDING', 'MACHINERY', '  signature', '  '))]
            res[c] = {'exit': rc, 'wall_s': round(time.time() - t0, 1), 'lines': lines[:8]}
            print('%s vs %s [%s]: exit %d  %s' % (sid, c, tier, rc, (lines[2][:160] if len(lines) > 2 else (lines[0][:160] if lines else ''))))
    finally:
        drop(d)
    return res


def matrix(tier='quick', only=None):
    rows = []
    for sid in sorted(os.listdir(SEEDED)):
        mp = os.path.join(SEEDED, sid, 'meta.json')
        if not os.path.exists(mp) or (only and sid not in only):
            continue
        meta = json.load(open(mp))
        res = run(sid, meta['checks'], tier)
        meta.setdefault('detected_by', {})
        for c, r in res.items():
            meta['detected_by'][c + ':' + tier] = {'exit': r['exit'], 'wall_s': r['wall_s'], 'first': r['lines'][:3]}
        with open(mp, 'w') as f:
            json.dump(meta, f, indent=1)
        rows.append((sid, {c: r['exit'] for c, r in res.items()}))
    for sid, r in rows:
        print(sid, r)


if __name__ == '__main__':
    cmd = sys.argv[1]
    if cmd == 'confirm':
        sys.exit(0 if confirm(sys.argv[2], sys.argv[3], sys.argv[4]) else 1)
    elif cmd == 'run':
        tier = os.environ.get('VERIF_TIER', 'quick')
        run(sys.argv[2], sys.argv[3:], tier)
    elif cmd == 'matrix':
        matrix(sys.argv[2] if len(sys.argv) > 2 else 'quick', set(sys.argv[3:]) or None)
