#!/bin/sh
# Nothing is compiled: the framework is Python + TLA+ sources run in place.  Verify the tools exist.
set -e
cd "$(dirname "$0")"
test -f /opt/veriftools/tla/tla2tools.jar
java -version >/dev/null 2>&1
/venv/bin/python -c "import zv.runner, zv.tlaparse, zv.tlc; import persistent, transaction, zodbpickle"
mkdir -p evidence replays
echo "zv ready"
