"""Replay of ZBlob behaviours (spec/ZBlob.tla) on real DB / Connection / Blob objects (spec -> code).

One real call per action of the specification:

  CreateBlob Rewrite Append_ ConsumeFile ModifyP   Blob() / blob.open('w'|'a') / blob.consumeFile / attribute
  ConsumeFail                                      blob.consumeFile(<a path that does not exist>): raises
  Savepoint Rollback AbortTxn                      transaction.savepoint() / savepoint.rollback() / abort()
  TpcBegin StoreOK|StoreFail Vote Finish           ONE transaction.commit(): the phases are observed from a
  ConnAbort TpcAbort                               second resource manager (Probe) that the transaction calls
                                                   right after the Connection in every phase, and that fails
                                                   where the behaviour aborts (a failing second resource is what
                                                   makes a real commit abort after the stores / after the vote)
  UBegin UStoreOK|UStoreFail ...                   DB.undo(id, txn) + the same commit
  OtherCommit                                      a second connection writes P / rewrites a blob and commits
  Pack                                             DB.pack(t)

After every action the projection of the real state

  files   {(oid, tid) -> (md5, read-only)} of the *.blob files (independent directory walk)
  old     the same for <blobs>.old
  dirty   storage.dirty_oids
  tmp     md5 of every file under <blobs>/tmp
  snap    bytes read through a fresh connection and through a historical connection per committed tid
  cview   bytes connection c1 itself shows for the blobs it touched
  iter    the storage's transaction iterator (tid, oids, data | undone creation)

is compared with the state TLC printed (files/old/dirty/leak/con.work/con.spfile/osnap/oview/oiter).
Nothing here computes an expected value; `viol` (the C13 verdict on a state) is TLC's as well."""
import base64
import gc
import hashlib
import os
import shutil
import stat
import tempfile

from .. import clock
from ..concretize import Tids, p64, u64
from ..tlaparse import MV, FrozenDict
from .storage import diff

ALIASES = {'Append_': 'Append', 'PackAtTid': 'Pack'}
CHAIN_START = ('TpcBegin', 'UBegin')
CHAIN_END = ('Finish', 'TpcAbort')
EDITS = ('CreateBlob', 'Rewrite', 'Append', 'ConsumeFile', 'ConsumeFail', 'ModifyP', 'OpenWrite', 'OpenRead', 'Unlink',
         'Relink')
ALL_ACTIONS = EDITS + ('Savepoint', 'Rollback', 'AbortTxn', 'TpcBegin', 'StoreOK', 'StoreFail', 'Vote', 'Finish',
                       'ConnAbort', 'TpcAbort', 'OtherCommit', 'UBegin', 'UStoreOK', 'UStoreFail', 'Pack',
                       'Wrong', 'OtherAbort', 'OtherFinish', 'Late', 'UStoreCopyFail', 'CloseAll', 'Boundary', 'StoreFault', 'PackDuring')
INLINE = ('Wrong', 'Late', 'PackDuring')          # calls made while a commit is in progress (from inside the Probe's callbacks)
P_OID = 1


def canon(name):
    """CreateBlobQ / CreateBlobM / Append_ -> CreateBlob / Append (a trailing Q or M marks a scheduling guard)."""
    name = ALIASES.get(name, name)
    if name not in ALL_ACTIONS and name[:-1] in ALL_ACTIONS + ('Append_',):
        name = name[:-1]
    return ALIASES.get(name, name)


def canon_args(name, args, atoms=('a',)):
    """the arguments of the guarded variants, in the form of the plain action (MCZBlob!A1 is the least atom)"""
    a = [norm(x) for x in args]
    if name == 'CreateBlobM':
        return [a[0], (min(atoms),)]
    if name == 'RewriteM':
        return [a[0], min(atoms)]
    return a


def norm(x, hashable=False):
    """parsed TLA value -> plain Python (MV -> str, sequences -> tuples, sets -> frozensets; a record that is a
    member of a set stays hashable)"""
    if isinstance(x, dict):
        d = {(str(k) if isinstance(k, MV) else norm(k, True)): norm(v, hashable) for k, v in x.items()}
        return FrozenDict(d) if hashable else d
    if isinstance(x, (tuple, list)):
        return tuple(norm(v, hashable) for v in x)
    if isinstance(x, (set, frozenset)):
        return frozenset(norm(v, True) for v in x)
    if isinstance(x, MV):
        return str(x)
    return x


class ProbeFailure(Exception):
    """raised by the second resource manager where the behaviour aborts"""


class Probe:
    """Resource manager that sorts after every Connection: transaction calls it right after the connection in
    each phase.  It records the projection of the real state there and fails in the phase the behaviour says."""

    def __init__(self, rp, fail_at, states):
        self.rp = rp
        self.fail_at = fail_at
        self.states = states          # phase -> the TLC state the projection taken there is compared with
        self.caps = {}
        self.inline = {}              # phase -> [(index in the chain, step)]: foreign calls / the other thread's turn
        self.icaps = {}               # index -> projection after that call
        self.iout = {}                # index -> (outcome, expected outcome)

    def sortKey(self):
        return '~~~~zv-probe'

    def _at(self, phase):
        if phase not in self.caps:
            self.caps[phase] = self.rp.project(self.states.get(phase) or self.states['any'], 'last')
            for k, st in self.inline.get(phase, ()):
                got = self.rp.step(st['name'], st['args'], None, st['state'])
                want = st['state']['res']['out']
                self.iout[k] = (got, 'ok' if st['name'] == 'PackDuring' and want in PACK_OK else want)
                self.icaps[k] = self.rp.project(st['state'], 'last')
        if self.fail_at == phase:
            raise ProbeFailure(phase)

    def tpc_begin(self, txn):
        self._at('tpc_begin')

    def commit(self, txn):
        self._at('commit')

    def tpc_vote(self, txn):
        self._at('tpc_vote')

    def tpc_finish(self, txn):
        pass

    def abort(self, txn):
        self._at('abort')

    def tpc_abort(self, txn):
        pass


class BlobReplayer:
    def __init__(self, consts, workdir, opts=None):
        self.flavour = consts['Flavour']
        self.keep_old = bool(consts.get('KeepOld'))
        self.spb_per_serial = bool(consts.get('SpbPerSerial', True))
        self.nblob = consts['NBlob']
        self.dir = workdir
        self.opts = opts or {}
        self.sizes = self.opts.get('sizes') or {'a': 3, 'b': 5, 'c': 7}
        self.T = Tids(1)
        self.oid = {}            # model blob -> real oid (bytes)
        self.b_of = {}           # real oid -> model blob
        self.handles = {}        # model blob -> Blob object of c1
        self.alloc = []          # oids handed to c1 since the last look
        self.sps = []
        self.files = {}          # model blob -> (mode, file object) the application keeps open
        self.ext = 0
        self._md5 = {}
        self.stray = 0
        self.tmp_seen = 0

    # ------------------------------------------------------------------ life cycle
    def open(self):
        import transaction
        import ZODB
        from ZODB.blob import BlobStorage
        from ZODB.FileStorage import FileStorage
        from ZODB.MappingStorage import MappingStorage

        from ..model_classes import VObj
        shutil.rmtree(self.dir, ignore_errors=True)
        os.makedirs(os.path.join(self.dir, 'systmp'))
        os.makedirs(os.path.join(self.dir, 'ext'))
        self._old_tmp = tempfile.tempdir
        tempfile.tempdir = os.path.join(self.dir, 'systmp')     # Blob() without a connection works there
        self.blob_dir = os.path.join(self.dir, 'blobs')
        clock.CLOCK.set(1)
        if self.flavour == 'mixin':
            self.st = FileStorage(os.path.join(self.dir, 'Data.fs'), blob_dir=self.blob_dir,
                                  pack_keep_old=self.keep_old)
        elif self.flavour == 'wrapmap':
            self.st = BlobStorage(self.blob_dir, MappingStorage())
        elif self.flavour == 'wrapfile':
            # the wrapper over an undo-capable storage without blob support of its own (BlobStorage.undo)
            self.st = BlobStorage(self.blob_dir, FileStorage(os.path.join(self.dir, 'Data.fs')))
        else:
            raise ValueError(self.flavour)
        self.db = ZODB.DB(self.st)                               # writes the root object: tid 1
        tm0 = transaction.TransactionManager()
        c = self.db.open(tm0)
        clock.CLOCK.set(2)
        c.root()['p'] = VObj('v1')
        tm0.commit()
        if u64(c.root()['p']._p_oid) != P_OID:
            raise RuntimeError('set-up: P got oid %r' % c.root()['p']._p_oid)
        c.close()
        self.tm = transaction.TransactionManager()
        self.c1 = self.db.open(self.tm)
        inner = self.c1.new_oid

        def new_oid():                                           # passive: remember what c1 was given
            o = inner()
            self.alloc.append(o)
            return o
        self.c1.new_oid = new_oid
        self.tm2 = transaction.TransactionManager()
        self.c2 = self.db.open(self.tm2)
        self.tmu = transaction.TransactionManager()
        self.tmo = transaction.TransactionManager()
        if self.st.dirty_oids != []:
            raise RuntimeError('set-up: dirty_oids not empty')

    def close(self):
        self._reconcile_files(())
        if getattr(self, '_th', None) is not None:
            try:
                self._late()
            except BaseException:
                pass
        try:
            for tm in (self.tm, self.tm2, self.tmu, self.tmo):
                try:
                    tm.abort()
                except Exception:
                    pass
            self.handles.clear()
            self.db.close()
        except Exception:
            pass
        tempfile.tempdir = self._old_tmp
        shutil.rmtree(self.dir, ignore_errors=True)

    # ------------------------------------------------------------------ concretisation
    def data(self, content):
        return b''.join((a.encode() * self.sizes.get(a, 3)) + b'\n' for a in content)

    def md5(self, content):
        content = tuple(content)
        if content and content[0] in ('absent', 'lost'):
            return content[0]
        h = self._md5.get(content)
        if h is None:
            h = self._md5[content] = hashlib.md5(self.data(content)).hexdigest()
        return h

    def handle(self, b):
        h = self.handles.get(b)
        if h is None:
            h = self.handles[b] = self.c1.get(self.oid[b])
        return h

    def _learn_oids(self, newb=()):
        """model blob <-> real oid: from the Blob objects that have one, and - for objects that a failed commit
        has disowned again - from the order in which the connection asked for oids (pickling order of the root
        = creation order = ascending model id)."""
        for b, h in self.handles.items():
            o = getattr(h, '_p_oid', None)
            if o is not None and b not in self.oid:
                self._bind(b, o)
        if self.alloc:
            fresh = [o for o in self.alloc if o not in self.b_of]
            pend = [b for b in sorted(newb) if b not in self.oid]
            for b, o in zip(pend, fresh):
                self._bind(b, o)
            self.alloc = []

    def _bind(self, b, o):
        self.oid[b] = o
        self.b_of[o] = b

    def _forget_unowned(self, con):
        """drop the Blob objects the connection has disowned (a rollback un-creates what came after the savepoint)"""
        ser = _fn(con['ser'])
        keep = set(con['newb']) | set(con['spnew']) | {b for b in self.handles if ser.get(b)}
        for b in list(self.handles):
            if b not in keep:
                del self.handles[b]
        gc.collect(1)

    # ------------------------------------------------------------------ projection
    def _walk_blobs(self, top):
        out = {}
        stray = 0
        if not os.path.isdir(top):
            return out, stray
        for path, dirs, names in os.walk(top):
            if path == top and 'tmp' in dirs:
                dirs.remove('tmp')
            for n in names:
                full = os.path.join(path, n)
                if not n.endswith('.blob'):
                    if not (path == top and n in ('.layout', '.removed')):
                        stray += 1
                    continue
                rel = os.path.relpath(path, top).split(os.sep)
                try:
                    oid = bytes(int(x[2:], 16) for x in rel)
                    tid = int(n[2:-5], 16).to_bytes(8, 'big')
                    if len(oid) != 8:
                        raise ValueError
                except ValueError:
                    stray += 1
                    continue
                st = os.lstat(full)
                with open(full, 'rb') as f:
                    h = hashlib.md5(f.read()).hexdigest()
                key = (self.b_of.get(oid, 'oid-' + oid.hex()), self.T.model(tid))
                out[key] = (h, not (stat.S_IMODE(st.st_mode) & 0o222))
        return out, stray

    def _read_blob(self, conn, oid):
        from ZODB.POSException import POSKeyError
        try:
            b = conn.get(oid)
        except (POSKeyError, KeyError):
            return 'absent'
        try:
            with b.open('r') as f:
                return hashlib.md5(f.read()).hexdigest()
        except (POSKeyError, KeyError) as ex:
            # (a ghost from the connection's cache is only loaded now: no record = absent; record without file = lost)
            return 'lost' if 'No blob file' in str(ex) else 'absent'

    def _read_row(self, conn):
        from ZODB.POSException import POSKeyError
        conn.cacheMinimize()          # (pooled connections: read the storage, not what an earlier read left in the cache)
        row = {}
        try:
            row[P_OID] = conn.get(p64(P_OID)).v
        except (POSKeyError, KeyError):
            row[P_OID] = 'absent'
        for b in range(2, self.nblob + 2):
            row[b] = self._read_blob(conn, self.oid[b]) if b in self.oid else 'absent'
        return row

    def read_snapshots(self, points):
        """{t: row} through historical connections (a point beyond the last commit: a fresh connection)."""
        out = {}
        last = self.T.model(self.db.lastTransaction())
        for t in points:
            if t > last:
                c = self.db.open(self.tmo)
            else:
                c = self.db.open(self.tmo, at=self.T.real(t))
            try:
                out[t] = self._read_row(c)
            finally:
                self.tmo.abort()
                c.close()
        return out

    def read_latest(self):
        c = self.db.open(self.tmo)
        try:
            return self._read_row(c)
        finally:
            self.tmo.abort()
            c.close()

    def project(self, state, full='all'):
        """The model-level state of the real objects.  `state` (the TLC state the projection will be compared
        with) only says which questions to ask: the snapshot points and the blobs c1 has touched."""
        self._learn_oids(self._newb)
        files, stray = self._walk_blobs(self.blob_dir)
        self.stray = max(self.stray, stray)
        tmp, sp = [], []
        tdir = os.path.join(self.blob_dir, 'tmp')
        for path, dirs, names in os.walk(tdir):
            for n in names:
                with open(os.path.join(path, n), 'rb') as f:
                    (tmp if path == tdir else sp).append(hashlib.md5(f.read()).hexdigest())
        self.tmp_seen = max(self.tmp_seen, len(tmp) + len(sp))
        real = {'files': files, 'tmp': tuple(sorted(tmp)), 'sp': tuple(sorted(sp)),
                'dirty': frozenset((self.b_of.get(o, 'oid-' + o.hex()), self.T.model(t)) for o, t in self.st.dirty_oids),
                'latest': self.read_latest()}
        if self.flavour == 'mixin':
            real['old'] = self._walk_blobs(self.blob_dir + '.old')[0]
        if full:
            pts = sorted(_fn(state['osnap']))
            # all snapshots where records or committed files can have changed; inside a commit the newest one
            # (historical connection at the last tid) next to the fresh connection
            real['snap'] = self.read_snapshots(pts if full == 'all' else pts[-1:])
            if full == 'all':
                real['iter'] = self.read_iter()
        real['cview'] = self.read_cview(sorted(_fn(state['oview'])))
        return real

    def read_cview(self, blobs):
        out = {}
        for b in blobs:
            try:
                if self.files.get(b, ('',))[0] == 'w' and not self.files[b][1].closed:
                    with open(self.files[b][1].name, 'rb') as f:     # (a second handle is refused while a writer is open)
                        out[b] = hashlib.md5(f.read()).hexdigest()
                    continue
                with self.handle(b).open('r') as f:
                    out[b] = hashlib.md5(f.read()).hexdigest()
            except Exception as ex:
                out[b] = 'raises ' + type(ex).__name__
        return out

    def read_iter(self):
        out = []
        for txn in self.st.iterator():
            recs = set()
            for r in txn:
                o = u64(r.oid)
                recs.add((o if o in (0, P_OID) else self.b_of.get(r.oid, 'oid-' + r.oid.hex()),
                          'zero' if r.data is None else 'data'))
            out.append({'tid': self.T.model(txn.tid), 'recs': frozenset(recs)})
        return tuple(out)

    # ------------------------------------------------------------------ expectation (from the TLC state)
    def expected(self, state, full):
        s = state
        con = s['con']
        files = _fn(s['files'])
        exp = {'files': {k: (self.md5(v['c']), v['ro']) for k, v in files.items()},
               'dirty': frozenset(s['dirty']),
               # working copies of blobs that belong to the connection, savepoint files; `leak`: files nobody owns
               # any more (whether such a file is still there depends on when Python frees the Blob object: a
               # stale weak-reference callback of the same object may remove it - not judged, DESIGN notes on C13)
               'tmp': (tuple(sorted(self.md5(c) for b, c in _fn(con['work']).items() if b not in con['newb'])),
                       tuple(sorted([self.md5(c) for c in s['leak']] + [self.md5(())] * s['aux'].get('utmp', 0)))),
               'sp': tuple(sorted(self.md5(c) for c in _fn(con['spfile']).values()))}
        if self.flavour == 'mixin':
            exp['old'] = {k: (self.md5(v['c']), v['ro']) for k, v in _fn(s['old']).items()}
        snap = {t: _row(r) for t, r in _fn(s['osnap']).items()}
        exp['latest'] = self._row_md5(snap[max(snap)])
        if full:
            exp['snap'] = {t: self._row_md5(r) for t, r in snap.items() if full == 'all' or t == max(snap)}
        if full == 'all':
            exp['iter'] = tuple({'tid': e['tid'], 'recs': frozenset(e['recs'])} for e in s['oiter'])
        exp['cview'] = {b: self.md5(c) for b, c in _fn(s['oview']).items()}
        return exp

    def _row_md5(self, row):
        return {o: (v[0] if o == P_OID else self.md5(v)) for o, v in row.items()}

    def compare(self, state, real):
        exp = self.expected(state, 'all' if 'iter' in real else 'snap' in real)
        out = []
        for k in ('files', 'dirty', 'old', 'latest', 'snap', 'iter', 'cview'):
            if k in exp:
                diff(k, exp[k], real.get(k), out)
        from collections import Counter
        owned, leak = Counter(exp['tmp'][0]), Counter(exp['tmp'][1])
        have = Counter(real['tmp'])
        if owned - have:
            out.append('tmp: working files missing: %s' % sorted((owned - have).elements()))
        if have - owned - leak:
            out.append('tmp: files the specification does not know: %s' % sorted((have - owned - leak).elements()))
        # savepoint files (tmp/savepoints*/): as the code is there is one per (oid, serial); a store that keeps one
        # per record may hold superseded ones while the transaction lasts
        want, got = Counter(exp['sp']), Counter(real['sp'])
        if want - got:
            out.append('tmp: savepoint files missing: %s' % sorted((want - got).elements()))
        if got - want and (self.spb_per_serial or not state['con']['spon']):
            out.append('tmp: savepoint files the specification does not know: %s' % sorted((got - want).elements()))
        self.unowned_now = sum((have - owned).values())
        self.leaks_seen = max(getattr(self, 'leaks_seen', 0), self.unowned_now)
        return out

    # ------------------------------------------------------------------ single actions
    def step(self, action, args, pre, post):
        """One action outside a commit chain.  -> outcome string"""
        from ZODB.blob import Blob
        a = action
        con0 = pre['con'] if pre else None
        self._newb = set(post['con']['newb'])
        if a in EDITS and con0 is not None and _is_clean(con0):
            self.tm.begin()                                   # Touch
            self.handles.clear()
        got = 'ok'
        try:
            if a == 'CreateBlob':
                b, c0 = args
                blob = Blob()
                with blob.open('w') as f:
                    f.write(self.data(c0))
                self.c1.root()['b%d' % b] = blob
                self.handles[b] = blob
            elif a == 'Rewrite':
                b, x = args
                with self.handle(b).open('w') as f:
                    f.write(self.data((x,)))
            elif a == 'Append':
                b, x = args
                with self.handle(b).open('a') as f:
                    f.write(self.data((x,)))
            elif a == 'ConsumeFile':
                b, x = args
                self.ext += 1
                path = os.path.join(self.dir, 'ext', 'f%d' % self.ext)
                with open(path, 'wb') as f:
                    f.write(self.data((x,)))
                self.handle(b).consumeFile(path)
            elif a == 'Unlink':
                del self.c1.root()['b%d' % args[0]]
            elif a == 'Relink':
                self.c1.root()['b%d' % args[0]] = self.handle(args[0])
            elif a == 'OpenWrite':
                f = self.handle(args[0]).open('w')
                self.files[args[0]] = ('w', f)
                f.write(self.data((args[1],)))
                f.flush()
            elif a == 'OpenRead':
                self.files[args[0]] = ('r', self.handle(args[0]).open('r'))
            elif a == 'CloseAll':
                self._reconcile_files(())
            elif a == 'Boundary':
                self.tm.begin()
            elif a == 'ConsumeFail':
                self.handle(args[0]).consumeFile(os.path.join(self.dir, 'ext', 'no-such-file'))
            elif a == 'ModifyP':
                self.c1.root()['p'].v = args[0]
            elif a == 'Savepoint':
                self.sps.append(self.tm.savepoint())
            elif a == 'Rollback':
                k = args[0]
                self.sps[k - 1].rollback()
                del self.sps[k:]
                self._forget_unowned(post['con'])
            elif a == 'AbortTxn':
                self.tm.abort()
                self._end_of_txn()
            elif a == 'OtherCommit':
                o, x = args
                self.tm2.begin()
                if o == P_OID:
                    self.c2.get(p64(P_OID)).v = x
                else:
                    with self.c2.get(self.oid[o]).open('w') as f:
                        f.write(self.data((x,)))
                clock.CLOCK.set(post['clk'])
                self.tm2.commit()
            elif a in ('OtherAbort', 'OtherFinish'):
                self._other_tpc(args[0], args[1], 'abort' if a == 'OtherAbort' else 'finish', post['clk'],
                                post['aux']['late'] != 'none')
            elif a == 'Late':
                self._late()
            elif a == 'Wrong':
                return self._wrong(args[0])
            elif a == 'PackDuring':
                # in a thread of its own: a pack that waits for the commit lock must not hang the replay
                import threading
                box = {}

                def run():
                    try:
                        self.db.pack(t=clock.T0 + args[0] + 0.5)
                    except BaseException as ex:
                        box['ex'] = ex
                th = threading.Thread(target=run, daemon=True)
                th.start()
                th.join(3)
                if th.is_alive():
                    self._waiting_pack = th
                    return 'blocked until the commit ends'
                if 'ex' in box:
                    raise box['ex']
            elif a == 'Pack':
                try:
                    self.db.pack(t=clock.T0 + args[0] + 0.5)
                finally:
                    self.tm.begin()
                    self.handles.clear()
            else:
                raise RuntimeError('replayer does not know action %s' % a)
        except Exception as ex:
            got = _exc_name(ex)
            self.last_exc = repr(ex)[:300]
        return got

    def _reconcile_files(self, keep):
        """drop the file objects the model no longer lists as open (closed by the application, or force-closed by
        an invalidation: closing once more is harmless)"""
        for b in list(self.files):
            if b not in keep:
                try:
                    self.files.pop(b)[1].close()
                except Exception:
                    pass

    # ------------------------------------------------------------------ foreign calls, the racing thread, faults
    def _wrong(self, m):
        """a 2PC call on the storage under test with a transaction that is not the one being committed"""
        from ZODB.Connection import TransactionMetaData
        from ZODB.POSException import StorageTransactionError
        t = TransactionMetaData()
        oid, z = p64(P_OID), b'\0' * 8
        try:
            if m == 'store':
                self.st.store(oid, z, b'foreign', '', t)
            elif m == 'storeBlob':
                self.ext += 1
                path = os.path.join(self.dir, 'ext', 'w%d' % self.ext)
                with open(path, 'wb') as f:
                    f.write(b'foreign')
                try:
                    self.st.storeBlob(oid, z, b'foreign', path, '', t)
                finally:
                    if os.path.exists(path):
                        os.remove(path)
            elif m == 'tpc_vote':
                self.st.tpc_vote(t)
            elif m == 'tpc_finish':
                self.st.tpc_finish(t)
            elif m == 'tpc_abort':
                self.st.tpc_abort(t)
            else:
                raise RuntimeError(m)
        except StorageTransactionError:
            return 'StorageTransactionError'
        except Exception as ex:
            self.last_exc = repr(ex)[:300]
            return _exc_name(ex)
        return 'ok'

    def _other_tpc(self, b, x, end, tid, late):
        """The second writer rewrites blob b and commits in a thread of its own; the commit is aborted by another
        participant whose vote fails (end = 'abort') or finishes.  late: the thread is stopped right after the
        wrapped storage's tpc_abort / tpc_finish returned (commit lock released) - between the two statements of
        BlobStorage.tpc_abort / tpc_finish - until the behaviour lets it go on (Late)."""
        import threading
        inner = getattr(self.st, '_BlobStorage__storage')
        meth = 'tpc_abort' if end == 'abort' else 'tpc_finish'
        orig = getattr(inner, meth)
        self._go, reached = threading.Event(), threading.Event()
        self._th_exc = None

        def hooked(*a, **k):
            r = orig(*a, **k)
            if late and threading.current_thread() is th:
                reached.set()
                self._go.wait(60)
            return r

        class FailVote:
            def sortKey(self):
                return '~~~~zv-failvote'

            def tpc_vote(self, txn):
                raise ProbeFailure('tpc_vote')

            def __getattr__(self, name):
                return lambda *a: None

        def run():
            try:
                txn = self.tm2.begin()
                with self.c2.get(self.oid[b]).open('w') as f:
                    f.write(self.data((x,)))
                if end == 'abort':
                    txn.join(FailVote())
                clock.CLOCK.set(tid)
                try:
                    self.tm2.commit()
                except ProbeFailure:
                    self.tm2.abort()
            except BaseException as ex:
                self._th_exc = ex
            finally:
                reached.set()
        setattr(inner, meth, hooked)
        self._unhook = lambda: delattr(inner, meth)
        th = self._th = threading.Thread(target=run, daemon=True)
        th.start()
        if not reached.wait(60):
            raise RuntimeError('the second writer did not get to its %s' % meth)
        if self._th_exc is not None:
            self._late()
        if not late:
            self._late()

    def _late(self):
        th = getattr(self, '_th', None)
        if th is None:
            raise RuntimeError('Late: no stopped thread')
        self._go.set()
        th.join(60)
        self._th = None
        self._unhook()
        if th.is_alive():
            raise RuntimeError('the second writer did not finish')
        if self._th_exc is not None:
            raise self._th_exc

    def _arm_copy_fault(self):
        """the next raw write to a file under the blob directory fails once (ENOSPC): the blob copy inside undo()"""
        from .. import faultfs
        ensure_faultfs()
        faultfs.reset(self.dir)
        faultfs.S.fail_filter = lambda e: e['op'] == 'write' and e['file'].startswith('blobs' + os.sep)
        faultfs.S.fail_at = 0
        self._armed = True

    def _arm_chmod_fault(self):
        """the next os.chmod made by ZODB.blob fails once (a file system without permission bits, EPERM): inside
        rename_or_copy_blob, after the file was moved to its committed name"""
        import errno
        from .. import faultfs
        ensure_faultfs()
        state = {'n': 0}

        def chmod(path, mode):
            state['n'] += 1
            if state['n'] == 1:
                raise OSError(errno.EIO, 'injected fault (zv C13)')
            return os.chmod(path, mode)
        faultfs.PROXY.chmod = chmod
        self._chmod_armed = True

    def _disarm_fault(self):
        if getattr(self, '_chmod_armed', False):
            from .. import faultfs
            del faultfs.PROXY.chmod
            self._chmod_armed = False
        if getattr(self, '_armed', False):
            from .. import faultfs
            self.fault_hits = faultfs.S.failed
            faultfs.S.fail_at = None
            faultfs.S.root = None
            faultfs.S.log = []
            self._armed = False

    def _end_of_txn(self):
        self.sps = []
        self.handles.clear()
        # A Blob object activated while a stale savepoint file shadowed its committed file (F3) keeps the path of
        # that file after the transaction; what an application would see of that depends on its cache.  c1 starts
        # every transaction with ghosts.
        self.c1.cacheMinimize()
        gc.collect(1)

    # ------------------------------------------------------------------ a commit, phase by phase
    def chain(self, steps):
        """steps: the actions of one two-phase commit, TpcBegin|UBegin ... Finish|TpcAbort.
        -> (outcome, {index in steps -> projection})"""
        from ZODB.POSException import ConflictError, UndoError
        allnames = [s['name'] for s in steps]
        names = [n for n in allnames if n not in INLINE]
        who = 'undo' if names[0] == 'UBegin' else 'c1'
        fail_at = None
        if names[-1] == 'TpcAbort':
            if names[1:] == ['ConnAbort', 'TpcAbort']:
                fail_at = 'tpc_begin'
            elif names[1] in ('StoreOK', 'UStoreOK') and names[2] == 'ConnAbort':
                fail_at = 'commit'
            elif names[1] in ('StoreOK', 'UStoreOK') and names[2] == 'Vote':
                fail_at = 'tpc_vote'
        phase_of = {'TpcBegin': 'tpc_begin', 'UBegin': 'tpc_begin', 'StoreOK': 'commit', 'UStoreOK': 'commit',
                    'Vote': 'tpc_vote', 'ConnAbort': 'abort'}
        states = {phase_of[s['name']]: s['state'] for s in steps if s['name'] in phase_of}
        states['any'] = steps[0]['state']
        probe = Probe(self, fail_at, states)
        cur = None
        for k, st in enumerate(steps):
            if st['name'] in phase_of:
                cur = phase_of[st['name']]
            elif st['name'] in INLINE:
                if cur is None or steps[k - 1]['name'] in ('StoreFail', 'UStoreFail', 'UStoreCopyFail', 'StoreFault'):
                    raise RuntimeError('%s after %s: no place to make the call from' % (st['name'], steps[k - 1]['name']))
                probe.inline.setdefault(cur, []).append((k, st))
            else:
                cur = None
        first = steps[0]['state']
        self._newb = set(first['con']['newb']) | set(first['con']['spnew'])
        if who == 'c1':
            tm = self.tm
            txn = tm.get()
        else:
            tm = self.tmu
            txn = tm.begin()
            self.db.undo(base64.encodebytes(self.T.real(steps[0]['args'][0])).rstrip(), txn)
        txn.join(probe)
        clock.CLOCK.set(first['txn']['tid'])
        got = 'ok'
        if 'UStoreCopyFail' in names:
            self._arm_copy_fault()
        if 'StoreFault' in names:
            self._arm_chmod_fault()
        try:
            tm.commit()
        except ProbeFailure as ex:
            got = 'probe:' + str(ex)
        except ConflictError:
            got = 'ConflictError'
        except UndoError:
            got = 'UndoError'
        except Exception as ex:
            got = _exc_name(ex)
            self.last_exc = repr(ex)[:300]
        finally:
            self._disarm_fault()
        if getattr(self, '_waiting_pack', None) is not None:
            self._waiting_pack.join(60)
            self._waiting_pack = None
        if got != 'ok':
            tm.abort()                       # what an application does after a failed commit
        if who == 'c1':
            self._end_of_txn()
        final = self.project(steps[-1]['state'])
        caps = dict(probe.icaps)
        self.inline_out = probe.iout
        for i, n in enumerate(allnames):
            if n in CHAIN_END:
                caps[i] = final
            elif n in phase_of and phase_of[n] in probe.caps:
                caps[i] = probe.caps[phase_of[n]]
        want = 'ok'
        if fail_at:
            want = 'probe:' + fail_at
        else:
            for st in steps:
                if st['name'] in ('StoreFail', 'UStoreFail', 'UStoreCopyFail', 'StoreFault'):
                    want = st['state']['res']['out']         # ConflictError | UndoError | KeyError | OSError
        return got, want, caps


def _exc_name(ex):
    from ZODB.POSException import POSKeyError
    if isinstance(ex, POSKeyError):
        return 'KeyError'
    return type(ex).__name__


def _fn(v):
    """a TLC function value as dict (the empty function prints as << >>; a function over 1..n as a tuple)"""
    if isinstance(v, dict):
        return v
    if isinstance(v, tuple):
        return {i + 1: x for i, x in enumerate(v)}
    raise TypeError(v)


def _row(r):
    return _fn(r)


def _is_clean(con):
    return (not con['reg'] and not _fn(con['work']) and not con['newb'] and not con['pval'] and not con['spon'])


FULL_AFTER = ('OtherCommit', 'Pack')
PACK_OK = ('ok', 'redundant', 'nothing-freed', 'same-time', 'empty')


def consts(flavour, NBlob=2, Atoms=('a', 'b'), MaxLen=2, MaxTid=7, MaxSp=2, KeepOld=False,
           AbortNeedsVote=True, NonUndoPack=True, SpbPerSerial=True, ForeignAbortCleans=True, LateBookkeeping=True,
           CopyFailUntracked=True, StoreFaultUntracked=True, PackIgnoresInFlight=True, StoreFailLeaks=True, UndoTempLeaks=True, PackWipesOidDir=True):
    return dict(Flavour=flavour, NBlob=NBlob, Atoms=tuple(Atoms), MaxLen=MaxLen, MaxTid=MaxTid, MaxSp=MaxSp,
                KeepOld=KeepOld, AbortNeedsVote=AbortNeedsVote, NonUndoPack=NonUndoPack, SpbPerSerial=SpbPerSerial,
                ForeignAbortCleans=ForeignAbortCleans, LateBookkeeping=LateBookkeeping, CopyFailUntracked=CopyFailUntracked,
                StoreFaultUntracked=StoreFaultUntracked, PackIgnoresInFlight=PackIgnoresInFlight, StoreFailLeaks=StoreFailLeaks,
                UndoTempLeaks=UndoTempLeaks, PackWipesOidDir=PackWipesOidDir)


def tla_consts(c):
    def b(x):
        return 'TRUE' if x else 'FALSE'
    return {'Flavour': '"%s"' % c['Flavour'], 'NBlob': c['NBlob'],
            'Atoms': '{' + ', '.join('"%s"' % a for a in c['Atoms']) + '}', 'MaxLen': c['MaxLen'],
            'MaxTid': c['MaxTid'], 'MaxSp': c['MaxSp'], 'KeepOld': b(c['KeepOld']),
            'AbortNeedsVote': b(c['AbortNeedsVote']), 'NonUndoPack': b(c['NonUndoPack']),
            'SpbPerSerial': b(c['SpbPerSerial']), 'ForeignAbortCleans': b(c.get('ForeignAbortCleans', True)),
            'LateBookkeeping': b(c.get('LateBookkeeping', True)), 'CopyFailUntracked': b(c.get('CopyFailUntracked', True)),
            'StoreFaultUntracked': b(c.get('StoreFaultUntracked', True)), 'PackIgnoresInFlight': b(c.get('PackIgnoresInFlight', True)),
            'StoreFailLeaks': b(c.get('StoreFailLeaks', True)), 'UndoTempLeaks': b(c.get('UndoTempLeaks', True)),
            'PackWipesOidDir': b(c.get('PackWipesOidDir', True))}


def load_behaviour(beh, atoms=('a',)):
    """-> list of steps {name, raw, args, state} with normalised values"""
    from .. import tlaparse
    if isinstance(beh, str):
        beh = tlaparse.parse_simulate_file(beh)
    out = []
    for s in beh:
        raw = s['action']
        out.append({'name': 'Init' if raw in ('Init', None) else canon(raw), 'raw': raw,
                    'args': canon_args(raw, s['args'] or [], atoms), 'state': norm(s['state'])})
    return out


def ensure_faultfs():
    """zv.faultfs substituted into the ZODB modules that do file I/O (pass-through unless a replay arms a fault)"""
    from .. import faultfs
    if not faultfs._installed:
        faultfs.install()
        faultfs.S.root = None
        no_fsync()


def no_fsync():
    """durability is not part of C13: FileStorage's module-global fsync (it tolerates None) is switched off for the
    replays - thousands of commits from 16 processes would otherwise wait for the disk"""
    from .. import env
    m = env.mod('ZODB.FileStorage.FileStorage')
    if not hasattr(m, 'fsync'):
        raise RuntimeError('ZODB.FileStorage.FileStorage has no global fsync any more')
    m.fsync = None


def replay_behaviour(job):
    """job = (behaviour file | parsed steps, consts, workdir, opts) -> result dict"""
    from collections import Counter
    beh, c, workdir, opts = job
    steps = load_behaviour(beh, c['Atoms'])
    rp = BlobReplayer(c, workdir, opts)
    res = {'steps': 0, 'mismatch': None, 'sig': [], 'actions': Counter(), 'viol': [], 'txns': 0, 'packs': 0,
           'tags': set(), 'stray': 0, 'tmp_seen': 0}

    def fmt(s):
        return '%s(%s)' % (s['name'], ','.join(_show(a) for a in s['args']))

    def mismatch(i, what, detail):
        res['mismatch'] = {'step': i, 'action': steps[i]['name'], 'args': [_show(a) for a in steps[i]['args']],
                           'what': what, 'detail': detail[:4], 'prefix': [fmt(s) for s in steps[:i + 1]],
                           'phase': steps[i]['state']['txn']['phase'], 'who': steps[i]['state']['txn']['who']}

    def corrupted(i):
        """a CURRENT committed revision has lost its blob file (reported): what the calls after that do to the
        corrupted database is not compared"""
        st = steps[i]['state']
        snap = _fn(st['osnap'])
        last = _fn(snap[max(snap)]) if snap else {}
        return (any(v['kind'].startswith('file-removed-by-') for v in st['viol']) or
                any(tuple(v) == ('lost',) for v in last.values()))

    def note_viol(i):
        for v in steps[i]['state']['viol']:
            if v['inv'] == 'NothingLeftInTmp' and not getattr(rp, 'unowned_now', 0):
                continue                  # (the file is not there - any more: see expected())
            key = (v['inv'], v['kind'])
            if key not in res['tags']:
                res['tags'].add(key)
                res['viol'].append({'inv': v['inv'], 'kind': v['kind'], 'step': i, 'action': steps[i]['name'],
                                    'prefix': [fmt(s) for s in steps[:i + 1]]})
    try:
        rp.open()
        i = 0
        n = len(steps)
        while i < n and res['mismatch'] is None:
            s = steps[i]
            name = s['name']
            if name == 'Init':
                rp._newb = set()
                mm = rp.compare(s['state'], rp.project(s['state']))
                if mm:
                    mismatch(i, 'set-up', mm)
                    break
                res['steps'] += 1
                i += 1
                continue
            if name in CHAIN_START:
                j = i
                while j < n and steps[j]['name'] not in CHAIN_END:
                    j += 1
                if j >= n:
                    break                                   # the behaviour ends inside a commit: stop before it
                ch = steps[i:j + 1]
                got, want, caps = rp.chain(ch)
                for k, st in enumerate(ch):
                    res['sig'].append(fmt(st))
                    res['actions'][st['name']] += 1
                if got != want:
                    k = next((k for k, st in enumerate(ch) if st['name'] in ('StoreOK', 'StoreFail', 'UStoreOK', 'UStoreFail')), 0)
                    mismatch(i + k, 'outcome', ['commit: spec %s, implementation %s %s' % (want, got, getattr(rp, 'last_exc', ''))])
                    break
                for k, st in enumerate(ch):
                    io = rp.inline_out.get(k)
                    if io is not None and io[0] != io[1]:
                        mismatch(i + k, 'outcome', ['%s: spec %s, implementation %s %s' % (fmt(st), io[1], io[0], getattr(rp, 'last_exc', ''))])
                        break
                    if k in caps:
                        mm = rp.compare(st['state'], caps[k])
                        if mm:
                            mismatch(i + k, _what(mm), mm)
                            break
                    res['steps'] += 1
                    note_viol(i + k)
                if ch[-1]['name'] == 'Finish':
                    res['txns'] += 1
                i = j + 1
                if res['mismatch'] is None and corrupted(j):
                    break
                continue
            res['sig'].append(fmt(s))
            res['actions'][name] += 1
            got = rp.step(name, s['args'], steps[i - 1]['state'], s['state'])
            rp._reconcile_files(set(s['state']['con']['hw']) | set(s['state']['con']['hr']))
            want = s['state']['res']['out']
            if name == 'Pack' and want in PACK_OK:
                want = 'ok'
            if got != want:
                mismatch(i, 'outcome', ['%s: spec %s, implementation %s %s' % (fmt(s), want, got, getattr(rp, 'last_exc', ''))])
                break
            mm = rp.compare(s['state'], rp.project(s['state'], 'all' if name in FULL_AFTER else False))
            if mm:
                mismatch(i, _what(mm), mm)
                break
            note_viol(i)
            res['steps'] += 1
            if corrupted(i):
                break
            if name == 'OtherCommit':
                res['txns'] += 1
            if name == 'Pack':
                res['packs'] += 1
            i += 1
        res['stray'] = rp.stray
        res['tmp_seen'] = rp.tmp_seen
    finally:
        rp.close()
    res['actions'] = dict(res['actions'])
    res['tags'] = sorted(res['tags'])
    return res


def _what(mm):
    return mm[0].split('[')[0].split(':')[0]


def _show(a):
    if isinstance(a, tuple):
        return '<<' + ','.join(str(x) for x in a) + '>>'
    return str(a)
