"""C03/C04 schedules: two or three committer threads on one storage (file, mapping, demo) under the cooperative
scheduler.  The commit lock must serialise them: afterwards TLC evaluates the serial equivalent - the same
transactions in the order in which their tpc_finish returned - and the storage must answer every query like it
(so transaction ids must increase in that order whatever the interleaving of tpc_begin calls)."""
import os
import shutil

from .. import clock, sched
from ..concretize import p64, z64
from . import packconc, scripts as sc, storage as sd


def run(job):
    kind, ncommit, seed, workdir, kw = job
    sched.install()
    sched.S = None
    from .. import faultfs
    faultfs.YIELD_IO = False
    faultfs.S.enabled = False
    c = sd.consts('file' if kind == 'file' else 'mapping', NOid=6, MaxTxn=20, MaxRecs=5, MaxClock=8, AtomVals=('v1', 'v2'),
                  RefSets='NoRefs', Cls='MCClsPlain')
    rc = dict(c, Cls=sd.cls_map(c))
    rp = sd.StorageReplayer('file' if kind == 'file' else 'mapping', rc, workdir, {})
    out = {'kind': kind, 'seed': seed, 'errors': {}, 'commits': [], 'outcome': None, 'obs': None, 'finish_order': []}
    try:
        rp.open()
        clock.CLOCK.set(1)
        if kind.startswith('demo'):
            from ZODB.DemoStorage import DemoStorage
            from ZODB.MappingStorage import MappingStorage
            if kind == 'demo':
                rp.st = DemoStorage()
            else:
                # a base with history; changes in a MappingStorage or a FileStorage
                base = MappingStorage()
                t = rp._txn()
                base.tpc_begin(t)
                base.store(p64(5), z64, rp.data(5, {'v': ('v1',), 'refs': frozenset()}), '', t)
                base.tpc_vote(t)
                out['finish_order'].append((rp.tids.model(base.tpc_finish(t)), 5, 'v1'))
                changes = None
                if kind == 'demo-file':
                    from ZODB.FileStorage import FileStorage
                    os.makedirs(workdir, exist_ok=True)
                    changes = FileStorage(os.path.join(workdir, 'changes.fs'))
                rp.st = DemoStorage(base=base, changes=changes)
        st = rp.st
        Sc = sched.S = sched.Sched(seed, **(kw or {}))

        def committer(i, n):
            def body():
                ser = z64
                oid = 1 + i
                for k in range(n):
                    t = rp._txn()
                    st.tpc_begin(t)
                    val = 'v1' if k % 2 == 0 else 'v2'
                    st.store(p64(oid), ser, rp.data(oid, {'v': (val,), 'refs': frozenset()}), '', t)
                    st.tpc_vote(t)
                    tid = st.tpc_finish(t)
                    ser = tid
                    out['finish_order'].append((rp.tids.model(tid), oid, val))
            return body
        for i, n in enumerate(ncommit):
            Sc.spawn('committer%d' % i, committer(i, n))
        out['outcome'] = Sc.go(timeout=60)
        sched.S = None
        out['errors'] = {k: '%s: %s' % (type(v).__name__, str(v)[:200]) for k, v in Sc.errors.items()}
        out['switches'] = sum(1 for a, b in zip(Sc.choices, Sc.choices[1:]) if a != b)
        if out['outcome'] == 'ok' and not out['errors']:
            try:
                out['obs'] = packconc.observe(rp)
                out['last'] = rp.tids.model(st.lastTransaction())
            except Exception as ex:
                out['errors']['final-queries'] = '%s: %s' % (type(ex).__name__, str(ex)[:160])
    finally:
        sched.S = None
        try:
            rp.st.close()
        except Exception:
            pass
        shutil.rmtree(workdir, ignore_errors=True)
    return out


def script_for(out):
    s = []
    for tid, oid, val in out['finish_order']:           # the order in which the commits returned
        s += sc.commit([(oid, val, ())], clk=1)
    return s


def judge(out, beh):
    v = []
    if len([s for s in beh if s['action'] == 'Finish']) != len(out['finish_order']):
        v.append(({'kind': 'commit-sched', 'what': 'script-not-evaluated'}, 'the serial equivalent could not be evaluated to its end'))
        return v
    final = beh[-1]['state']
    mo = packconc._filtered(sd.norm(final['obs']), sd.norm(final['hist']))
    real = out['obs']
    want_tids = [t['tid'] for t in sd.norm(final['hist'])]
    got_tids = [t for t, o, val in out['finish_order']]
    if got_tids != want_tids:
        v.append(({'kind': 'commit-sched', 'what': 'tids-not-in-commit-order', 'storage': out['kind']},
                  '%s: transactions returned from tpc_finish in the order %r but a serial execution in that order gives %r' % (
                      out['kind'], got_tids, want_tids)))
        return v
    mo.pop('linv', None)
    mo.pop('riter', None)
    for k in ('itf', 'itt', 'ulw'):
        mo.pop(k, None)
    if out['kind'].startswith('demo'):
        # len(DemoStorage) is len(changes) by definition (ZDemo models it so); not a statement about the merged view
        mo.pop('len', None)
        real.pop('len', None)
    if out['kind'] != 'file':
        mo.pop('ulog', None)
        real.pop('ulog', None)
        mo['iter'] = tuple(dict(t, recs=tuple(sorted(t['recs'], key=lambda x: x['oid']))) for t in mo['iter'])
    for key in ('lb', 'ser'):
        real[key] = {o: {t: a for t, a in real[key][o].items() if t in dict(mo[key].get(o, {}))} for o in real[key]}
        mo[key] = {o: {t: a for t, a in dict(row).items() if t in real[key].get(o, {})} for o, row in mo[key].items()}
    mm = []
    sd.diff('obs', mo, real, mm)
    if mm:
        v.append(({'kind': 'commit-sched', 'what': 'final-state', 'storage': out['kind']},
                  '%s: state after concurrent commits differs from the serial execution in finish order: %s' % (out['kind'], '; '.join(mm[:3]))))
    return v
