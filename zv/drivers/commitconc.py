"""C03/C04 schedules: two or three committer threads on one storage (file, mapping, demo) under the cooperative
scheduler.  The commit lock must serialise them: afterwards TLC evaluates the serial equivalent - the same
transactions in the order in which their tpc_finish returned - and the storage must answer every query like it
(so transaction ids must increase in that order whatever the interleaving of tpc_begin calls)."""
import os
import shutil

from .. import clock, sched
from ..concretize import p64, z64
from . import packconc, scripts as sc, storage as sd


def run(job):
    kind, ncommit, seed, workdir, kw = job
    sched.install()
    sched.S = None
    from .. import faultfs
    faultfs.YIELD_IO = False
    faultfs.S.enabled = False
    c = sd.consts('file' if kind == 'file' else 'mapping', NOid=6, MaxTxn=20, MaxRecs=5, MaxClock=8, AtomVals=('v1', 'v2'),
                  RefSets='NoRefs', Cls='MCClsPlain')
    rc = dict(c, Cls=sd.cls_map(c))
    rp = sd.StorageReplayer('file' if kind == 'file' else 'mapping', rc, workdir, {})
    out = {'kind': kind, 'seed': seed, 'errors': {}, 'commits': [], 'outcome': None, 'obs': None, 'finish_order': []}
    try:
        rp.open()
        clock.CLOCK.set(1)
        if kind.startswith('demo'):
            from ZODB.DemoStorage import DemoStorage
            from ZODB.MappingStorage import MappingStorage
            if kind == 'demo':
                rp.st = DemoStorage()
            else:
                # a base with history; changes in a MappingStorage or a FileStorage
                base = MappingStorage()
                t = rp._txn()
                base.tpc_begin(t)
                base.store(p64(5), z64, rp.data(5, {'v': ('v1',), 'refs': frozenset()}), '', t)
                base.tpc_vote(t)
                out['finish_order'].append((rp.tids.model(base.tpc_finish(t)), 5, 'v1'))
                changes = None
                if kind == 'demo-file':
                    from ZODB.FileStorage import FileStorage
                    os.makedirs(workdir, exist_ok=True)
                    changes = FileStorage(os.path.join(workdir, 'changes.fs'))
                rp.st = DemoStorage(base=base, changes=changes)
        st = rp.st
        kw = dict(kw or {})
        if 'plan' in kw:
            Sc = sched.S = sched.Plan(kw['plan'], kw['order'])
        else:
            Sc = sched.S = sched.Sched(seed, **kw)

        def committer(i, n):
            def body():
                ser = z64
                oid = 1 + i
                for k in range(n):
                    t = rp._txn()
                    st.tpc_begin(t)
                    val = 'v1' if k % 2 == 0 else 'v2'
                    st.store(p64(oid), ser, rp.data(oid, {'v': (val,), 'refs': frozenset()}), '', t)
                    st.tpc_vote(t)
                    tid = st.tpc_finish(t)
                    ser = tid
                    out['finish_order'].append((rp.tids.model(tid), oid, val))
            return body
        for i, n in enumerate(ncommit):
            Sc.spawn('committer%d' % i, committer(i, n))
        out['outcome'] = Sc.go(timeout=60)
        sched.S = None
        out['errors'] = {k: '%s: %s' % (type(v).__name__, str(v)[:200]) for k, v in Sc.errors.items()}
        out['switches'] = sum(1 for a, b in zip(Sc.choices, Sc.choices[1:]) if a != b)
        out['yields'] = dict(getattr(Sc, 'yields', {}))
        if out['outcome'] == 'ok' and not out['errors']:
            try:
                out['obs'] = packconc.observe(rp)
                out['last'] = rp.tids.model(st.lastTransaction())
            except Exception as ex:
                out['errors']['final-queries'] = '%s: %s' % (type(ex).__name__, str(ex)[:160])
    finally:
        sched.S = None
        try:
            rp.st.close()
        except Exception:
            pass
        shutil.rmtree(workdir, ignore_errors=True)
    return out


def script_for(out):
    s = []
    for tid, oid, val in out['finish_order']:           # the order in which the commits returned
        s += sc.commit([(oid, val, ())], clk=1)
    return s


def judge(out, beh):
    v = []
    if len([s for s in beh if s['action'] == 'Finish']) != len(out['finish_order']):
        v.append(({'kind': 'commit-sched', 'what': 'script-not-evaluated'}, 'the serial equivalent could not be evaluated to its end'))
        return v
    final = beh[-1]['state']
    mo = packconc._filtered(sd.norm(final['obs']), sd.norm(final['hist']))
    real = out['obs']
    want_tids = [t['tid'] for t in sd.norm(final['hist'])]
    got_tids = [t for t, o, val in out['finish_order']]
    if got_tids != want_tids:
        v.append(({'kind': 'commit-sched', 'what': 'tids-not-in-commit-order', 'storage': out['kind']},
                  '%s: transactions returned from tpc_finish in the order %r but a serial execution in that order gives %r' % (
                      out['kind'], got_tids, want_tids)))
        return v
    mo.pop('linv', None)
    mo.pop('riter', None)
    for k in ('itf', 'itt', 'ulw'):
        mo.pop(k, None)
    if out['kind'].startswith('demo'):
        # len(DemoStorage) is len(changes) by definition (ZDemo models it so); not a statement about the merged view
        mo.pop('len', None)
        real.pop('len', None)
    if out['kind'] != 'file':
        mo.pop('ulog', None)
        real.pop('ulog', None)
        mo['iter'] = tuple(dict(t, recs=tuple(sorted(t['recs'], key=lambda x: x['oid']))) for t in mo['iter'])
    for key in ('lb', 'ser'):
        real[key] = {o: {t: a for t, a in real[key][o].items() if t in dict(mo[key].get(o, {}))} for o in real[key]}
        mo[key] = {o: {t: a for t, a in dict(row).items() if t in real[key].get(o, {})} for o, row in mo[key].items()}
    mm = []
    sd.diff('obs', mo, real, mm)
    if mm:
        v.append(({'kind': 'commit-sched', 'what': 'final-state', 'storage': out['kind']},
                  '%s: state after concurrent commits differs from the serial execution in finish order: %s' % (out['kind'], '; '.join(mm[:3]))))
    return v


def explore(ctx, kinds, nrandom, tag):
    """seeded random schedules plus systematic single-preemption sweeps (every yield point of every committer, the
    others running to completion) on each storage kind; judged against the TLC-evaluated serial execution in finish
    order.  Returns the coverage record; violations are reported through ctx."""
    import json
    import random
    from .. import par
    rng = random.Random(ctx.seed * 19 + 4)
    jobs = []
    for i in range(nrandom):
        kind = kinds[i % len(kinds)]
        jobs.append((kind, [rng.randint(1, 3) for _ in range(rng.choice((2, 2, 3)))], ctx.seed * 7000 + i,
                     os.path.join(ctx.scratch, '%s-%d' % (tag, i)), {'stick': (0.2, 0.5, 0.8)[(i // len(kinds)) % 3]}))
    nplan = 0
    for kind in kinds:
        for ncommit in ([2, 1], [1, 2, 1]):
            names = ['committer%d' % i for i in range(len(ncommit))]
            cal = run((kind, ncommit, 0, os.path.join(ctx.scratch, '%s-cal' % tag), {'plan': [], 'order': names}))
            for victim in names:
                others = [n for n in names if n != victim]
                ks = list(range(1, cal['yields'].get(victim, 0) + 2))
                cap = 12 if ctx.quick else 200
                if len(ks) > cap:
                    ks = sorted({1 + (i * (len(ks) - 1)) // (cap - 1) for i in range(cap)})
                for k in ks:
                    jobs.append((kind, ncommit, 0, os.path.join(ctx.scratch, '%s-p%d' % (tag, len(jobs))),
                                 {'plan': [(victim, k)], 'order': others + [victim]}))
                    nplan += 1
    sres = par.pmap(run, jobs, chunksize=4)
    good = []
    for r in sres:
        if r['outcome'] != 'ok':
            ctx.violation({'kind': 'commit-sched', 'what': r['outcome'], 'storage': r['kind']},
                          '%s: scheduler outcome %s (seed %d)' % (r['kind'], r['outcome'], r['seed']), replay=r)
        for th, err in r['errors'].items():
            ctx.violation({'kind': 'commit-sched', 'what': 'thread-error', 'storage': r['kind'], 'error': err.split(':')[0]},
                          '%s: thread %s raised %s (seed %d)' % (r['kind'], th, err, r['seed']), replay=r)
        if r['outcome'] == 'ok' and not r['errors']:
            good.append(r)
    nuniq = 0
    for model, sel in (('file', [r for r in good if r['kind'] == 'file']), ('mapping', [r for r in good if r['kind'] != 'file'])):
        if not sel:
            continue
        c = sd.consts(model, NOid=6, MaxTxn=20, MaxRecs=5, MaxClock=8, AtomVals=('v1', 'v2'), RefSets='NoRefs', Cls='MCClsPlain')
        keyed = [json.dumps(script_for(r), sort_keys=True) for r in sel]
        uniq = sorted(set(keyed))
        nuniq += len(uniq)
        bykey = dict(zip(uniq, sc.evaluate(ctx, '%s-%s' % (tag, model), [json.loads(k) for k in uniq], c)))
        for r, k in zip(sel, keyed):
            for sig, desc in judge(r, bykey[k]):
                ctx.violation(sig, '%s (seed %d)' % (desc, r['seed']), replay={'kind': r['kind'], 'seed': r['seed'], 'order': r['finish_order']})
    cov = {'run': len(sres), 'judged': len(good), 'systematic_preemption_runs': nplan, 'distinct_serial_equivalents': nuniq,
           'with_3_switches': sum(1 for r in good if r.get('switches', 0) >= 3)}
    if not ctx.violations and cov['with_3_switches'] < nrandom // 3:
        raise RuntimeError('vacuous run: committer schedules hardly interleave (%r)' % cov)
    return cov
