"""Replayer for spec/ZConn.tla: one real call per action on a real ZODB.DB / Connection, projection of the
real objects and of the connection's bookkeeping into the shape of the specification state, comparison with
the state TLC printed.

Nothing here knows what a Connection *should* do: the expected state always comes from TLC.  Python only
 - concretises (model object -> PersistentMapping / PersistentList / zv.model_classes.VObj / Blob; model value
   -> string; failure alternative -> a real conflict committed by a second connection, a harness resource
   manager joined to the same transaction that raises in a chosen phase, an unpicklable value),
 - projects (per object _p_jar/_p_oid/_p_changed/_p_serial/state read from __dict__ without activating;
   _registered_objects/_added/_creating/_modified/_needs_to_join/opened; the MVCC snapshot; TmpStore position,
   index, creating, savepoint blob files; the state tuples of the live savepoints; what a load would return
   right now; what a second connection sees; the records of the last storage transaction),
 - compares.

Observation points inside transaction.commit(): a harness resource manager sorted after the connection is
called right after the connection's tpc_begin / commit / tpc_vote; the connection's `_readCurrent` dict is
replaced by a dict subclass whose pop() - the last statement of _store_objects' loop body before the
savepoint-only branch - reports "one object stored"."""
import io
import os
import shutil

import transaction
import ZODB
from persistent.list import PersistentList
from persistent.mapping import PersistentMapping
from ZODB.POSException import ConflictError, ConnectionStateError, POSKeyError, ReadConflictError
from ZODB.utils import oid_repr, p64, u64, z64
from zodbpickle import pickle as zpickle

from ..model_classes import VObj

ROOT = 'r'
GHOST = {'v': '-', 'kids': ()}
ABSENT = {'v': 'absent', 'kids': ()}
UNLOADABLE = {'v': 'unloadable', 'kids': ()}
LOST = {'v': 'lost', 'kids': ()}
BLOBREC = {'v': 'blobrec', 'kids': ()}
DEVIATIONS = ('AliasCreating', 'SpBlobByName', 'InvalidateDoomed', 'LeakUnstored', 'AddBeforeJoin', 'ImportNotCreating')
COMMIT_END = ('Finish', 'FinishThenFail', 'FailBegun', 'StoreRaises', 'StoreConflict', 'CommitSpConflict', 'CommitSpRaises',
              'CommitSpStoreRaises', 'FailStored', 'FailVoted')
FAILURES = ('FailBeforeBegin', 'FailBegun', 'StoreRaises', 'StoreConflict', 'CommitSpConflict', 'CommitSpRaises', 'FailStored',
            'FailVoted', 'FinishThenFail', 'SavepointRaises', 'CommitSpStoreRaises', 'BeginFails', 'AddWhileFailed', 'ModifyWhileFailed')
IDLE_FAILURES = ('FailBeforeBegin', 'BeginFails')      # failing commits that are one action: the caller's abort follows
WATCHDOG_S = 30
# which deviation of the code makes a clause of `mon` possible (the design, all four cleared, satisfies every clause)
CLAUSE_DEVIATION = {'state-lost': 'InvalidateDoomed', 'owned-uncommitted': 'LeakUnstored',
                    'rollback-owner': 'AliasCreating', 'rollback-value': 'SpBlobByName'}


class Injected(Exception):
    """Raised by the harness resource manager / the unpicklable value."""


class Unpicklable:
    def __reduce__(self):
        raise Injected('unpicklable value')


POISON_KEY = '~poison'


# ------------------------------------------------------------------ constants of a configuration
PRE = {(): 'PreNone', ('a',): 'PreA', ('a', 'b'): 'PreAB'}


def consts(Obj=('a', 'b'), Blobs=(), Val=('v0', 'v1'), Edges='EdgesFlat', Pre=(), MaxSp=0, MaxCommit=1, MaxOther=0,
           MaxAct=3, MaxTail=1, Ops=('add', 'own', 'rm'), AliasCreating=False, SpBlobByName=False, InvalidateDoomed=False,
           LeakUnstored=False, AddBeforeJoin=False, ImportNotCreating=False):
    return dict(Obj=tuple(Obj), Blobs=tuple(Blobs), Val=tuple(Val), Edges=Edges, Pre=tuple(Pre), MaxSp=MaxSp,
                MaxCommit=MaxCommit, MaxOther=MaxOther, MaxAct=MaxAct, MaxTail=MaxTail, Ops=tuple(Ops),
                AliasCreating=AliasCreating, SpBlobByName=SpBlobByName, InvalidateDoomed=InvalidateDoomed,
                LeakUnstored=LeakUnstored, AddBeforeJoin=AddBeforeJoin, ImportNotCreating=ImportNotCreating)


def tla_consts(c):
    def s(xs):
        return '{' + ', '.join('"%s"' % x for x in xs) + '}'

    def b(x):
        return 'TRUE' if x else 'FALSE'
    return {'Obj': s(c['Obj']), 'Root': '"%s"' % ROOT, 'Blobs': s(c['Blobs']), 'Val': s(c['Val']), 'Edges': '<- ' + c['Edges'],
            'Pre': '<- ' + PRE[tuple(c['Pre'])], 'MaxSp': c['MaxSp'], 'MaxCommit': c['MaxCommit'], 'MaxOther': c['MaxOther'],
            'MaxAct': c['MaxAct'], 'MaxTail': c['MaxTail'], 'Ops': s(c['Ops']),
            'AliasCreating': b(c['AliasCreating']), 'SpBlobByName': b(c['SpBlobByName']),
            'InvalidateDoomed': b(c['InvalidateDoomed']), 'LeakUnstored': b(c['LeakUnstored']),
            'AddBeforeJoin': b(c.get('AddBeforeJoin')), 'ImportNotCreating': b(c.get('ImportNotCreating'))}


# ------------------------------------------------------------------ concretisation of objects
class Ref:
    """A persistent reference met while decoding a record without the connection."""

    def __init__(self, ref):
        if isinstance(ref, tuple):
            ref = ref[0]
        elif isinstance(ref, list):
            ref = ref[1][0]
        self.oid = bytes(ref)


def decode(data):
    """record -> (class, state) with references as Ref (no ZODB.serialize, no cache side effects)."""
    u = zpickle.Unpickler(io.BytesIO(data))
    u.persistent_load = Ref
    meta = u.load()
    state = u.load()
    cls = meta[0] if isinstance(meta, tuple) else meta
    return cls, state


class Shape:
    """How a model state [v, kids] lives in an object of one class."""
    name = None

    def new(self, v):
        raise NotImplementedError

    def read(self, d):
        """__dict__-like state -> (v, [children]) ; children are objects or Ref"""
        raise NotImplementedError


class MapShape(Shape):
    name = 'map'

    def new(self, v):
        m = PersistentMapping()
        m['v'] = v
        return m

    def set_v(self, o, v):
        o['v'] = v

    def link(self, o, key, child):
        o['k:' + key] = child

    def unlink(self, o, key, child):
        del o['k:' + key]

    def read(self, d):
        data = d['data']
        return data.get('v'), [x for k, x in data.items() if k.startswith('k:')]

    def poison(self, o):
        o.__dict__['data'][POISON_KEY] = Unpicklable()

    def unpoison(self, o):
        d = o.__dict__.get('data')
        if d is not None:
            d.pop(POISON_KEY, None)


class ListShape(Shape):
    name = 'list'

    def new(self, v):
        return PersistentList([v])

    def set_v(self, o, v):
        o[0] = v

    def link(self, o, key, child):
        o.append(child)

    def unlink(self, o, key, child):
        for i, x in enumerate(o.data):
            if x is child:
                del o[i]
                return
        raise KeyError(key)

    def read(self, d):
        data = d['data']
        return data[0], [x for x in data[1:] if not isinstance(x, Unpicklable)]

    def poison(self, o):
        o.__dict__['data'].append(Unpicklable())

    def unpoison(self, o):
        d = o.__dict__.get('data')
        if d is not None:
            d[:] = [x for x in d if not isinstance(x, Unpicklable)]


class VObjShape(Shape):
    name = 'vobj'

    def new(self, v):
        return VObj(v)

    def set_v(self, o, v):
        o.v = v

    def link(self, o, key, child):
        o.refs = list(o.refs) + [child]

    def unlink(self, o, key, child):
        o.refs = [x for x in o.refs if x is not child]

    def read(self, d):
        return d.get('v'), list(d.get('refs', ()))

    def poison(self, o):
        o.__dict__['zz_poison'] = Unpicklable()

    def unpoison(self, o):
        o.__dict__.pop('zz_poison', None)


class BlobShape(Shape):
    name = 'blob'

    def new(self, v):
        from ZODB.blob import Blob
        return Blob(v.encode())

    def set_v(self, o, v):
        with o.open('w') as f:
            f.write(v.encode())


SHAPES = {'map': MapShape(), 'list': ListShape(), 'vobj': VObjShape(), 'blob': BlobShape()}


def shape_of_class(cls):
    from ZODB.blob import Blob
    if cls is PersistentMapping:
        return SHAPES['map']
    if cls is PersistentList:
        return SHAPES['list']
    if cls is Blob:
        return SHAPES['blob']
    return SHAPES['vobj']


# ------------------------------------------------------------------ harness resource manager
class _NoopSavepoint:
    def rollback(self):
        pass


class RM:
    """A resource manager joined to the connection's transaction: observes and, when told, fails."""

    def __init__(self, key):
        self.key = key
        self.fail = None
        self.hooks = {}

    def sortKey(self):
        return self.key

    def _at(self, phase):
        cb = self.hooks.get(phase)
        if cb is not None:
            cb()
        if self.fail == phase:
            raise Injected('resource manager %r fails in %s' % (self.key, phase))

    def tpc_begin(self, txn):
        self._at('tpc_begin')

    def commit(self, txn):
        self._at('commit')

    def tpc_vote(self, txn):
        self._at('tpc_vote')

    def tpc_finish(self, txn):
        self._at('tpc_finish')

    def tpc_abort(self, txn):
        pass

    def abort(self, txn):
        pass

    def savepoint(self):
        return _NoopSavepoint()


BEHAVIOUR_S = 240          # no behaviour of the quick or thorough tier takes a tenth of this


class Blocked(BaseException):
    """a call that must return did not (a commit lock left held by an earlier failed commit)"""


class deadline:
    """watchdog around a real call (main thread of the process): SIGALRM interrupts a blocked lock.acquire()"""

    def __init__(self, what, seconds=None):
        self.what = what
        self.seconds = seconds or WATCHDOG_S

    def _fire(self, *_a):
        raise Blocked(self.what)

    def __enter__(self):
        import signal
        import threading
        self.armed = threading.current_thread() is threading.main_thread()
        if self.armed:
            self.old = signal.signal(signal.SIGALRM, self._fire)
            signal.setitimer(signal.ITIMER_REAL, self.seconds)

    def __exit__(self, et, ev, tb):
        import signal
        if self.armed:
            signal.setitimer(signal.ITIMER_REAL, 0)
            signal.signal(signal.SIGALRM, self.old)
        if et is Blocked:
            raise Mismatch('call.blocked', 'returns', '%s blocked for more than %ss' % (self.what, self.seconds))
        return False


_EXPORT = {}


def export_bytes(v):
    """an export file (ZEXP) holding one VObj with value v, made by a throw-away database"""
    if v not in _EXPORT:
        from ZODB.MappingStorage import MappingStorage
        db = ZODB.DB(MappingStorage())
        tm = transaction.TransactionManager()
        c = db.open(tm)
        m = SHAPES['vobj'].new(v)
        c.root()['x'] = m
        tm.commit()
        f = io.BytesIO()
        c.exportFile(m._p_oid, f)
        _EXPORT[v] = f.getvalue()
        c.close()
        db.close()
    return _EXPORT[v]


class HookDict(dict):
    """Connection._readCurrent with a tap on pop(): `self._readCurrent.pop(oid, None)` runs right after
    `self._cache[oid] = obj` in _store_objects."""
    tap = None

    def pop(self, *a):
        r = dict.pop(self, *a)
        if self.tap is not None:
            self.tap()
        return r


# ------------------------------------------------------------------ the replayer
class Mismatch(Exception):
    def __init__(self, where, spec, impl):
        Exception.__init__(self, '%s: spec=%r impl=%r' % (where, spec, impl))
        self.where, self.spec, self.impl = where, spec, impl


def norm_state(st):
    """a model St record as parsed -> {'v':..,'kids':tuple}"""
    return {'v': str(st['v']), 'kids': tuple(str(k) for k in st['kids'])}


class ConnReplayer:
    def __init__(self, c, kind, workdir, opts):
        self.c = c
        self.kind = kind
        self.workdir = workdir
        self.opts = opts
        self.names = (ROOT,) + tuple(c['Obj'])
        os.makedirs(workdir, exist_ok=True)
        self.storage = self._make_storage()
        self.db = ZODB.DB(self.storage)
        self.tm1 = transaction.TransactionManager()
        self.tm2 = transaction.TransactionManager()
        self.c1 = self.db.open(self.tm1)
        self.c2 = self.db.open(self.tm2)
        root = self.c1.root()
        root['v'] = c['Val'][0]
        shapes = dict(opts.get('shapes') or {})
        if 'mwf' in c['Ops']:
            # an assignment that cannot register must change nothing: true of attribute assignment (persistent's
            # setattr registers first), not of the containers (they mutate .data first - the persistent package's affair)
            shapes = {n: 'vobj' for n in c['Obj']}
        self.shape = {ROOT: SHAPES['map']}
        self.objs = {ROOT: root}
        for n in c['Obj']:
            sh = SHAPES['blob'] if n in c['Blobs'] else SHAPES[shapes.get(n, 'map')]
            self.shape[n] = sh
            self.objs[n] = sh.new(c['Val'][0])
        for n in c['Pre']:
            self.shape[ROOT].link(root, n, self.objs[n])
        self.tm1.commit()
        self.tids = [self.storage.lastTransaction()]
        for n in (ROOT,) + tuple(c['Pre']):
            self.objs[n]._p_invalidate()
        self.by_id = {id(o): n for n, o in self.objs.items()}
        self.oidnames = {z64: ROOT}
        self.sps = []
        self.tmpstores = []            # (TmpStore, file, blob dir) ever seen
        self.rm_before = RM('\x00zv-before')
        self.rm_after = RM('\x7fzv-after')
        if not (self.rm_before.key < self.c1.sortKey() < self.rm_after.key):
            raise RuntimeError('harness resource managers do not sort around the connection: %r' % self.c1.sortKey())
        if not isinstance(getattr(self.c1, '_readCurrent', None), dict):
            raise RuntimeError('Connection._readCurrent is not a dict: the store tap cannot be installed')
        self.c1._readCurrent = HookDict(self.c1._readCurrent)
        self.snaps = []
        self.calls = {}
        self.last_exc = None
        self.in_commit = False

    def _make_storage(self):
        blobs = bool(self.c['Blobs'])
        if self.kind == 'mapping':
            from ZODB.MappingStorage import MappingStorage
            if blobs:
                raise RuntimeError('MappingStorage has no blob support')
            return MappingStorage()
        if self.kind == 'file':
            from ZODB.FileStorage import FileStorage
            return FileStorage(os.path.join(self.workdir, 'Data.fs'),
                               blob_dir=os.path.join(self.workdir, 'blobs') if blobs else None)
        if self.kind == 'demo':
            from ZODB.DemoStorage import DemoStorage
            from ZODB.MappingStorage import MappingStorage
            base = MappingStorage()
            if self.opts.get('demo_base_file'):
                from ZODB.FileStorage import FileStorage
                base = FileStorage(os.path.join(self.workdir, 'Base.fs'),
                                   blob_dir=os.path.join(self.workdir, 'baseblobs') if blobs else None)
            return DemoStorage(base=base)
        raise ValueError(self.kind)

    def close(self):
        try:
            self.tm1.abort()
            self.tm2.abort()
        except Exception:
            pass
        try:
            self.db.close()
        except Exception:
            pass
        shutil.rmtree(self.workdir, ignore_errors=True)

    def count(self, what):
        self.calls[what] = self.calls.get(what, 0) + 1

    # -------------------------------------------------------------- names
    def name_of(self, x):
        n = self.by_id.get(id(x))
        if n is not None:
            return n
        oid = x.oid if isinstance(x, Ref) else getattr(x, '_p_oid', None)
        n = self.oidnames.get(oid)
        if n is None:
            return '?%s' % (oid_repr(oid) if oid else type(x).__name__)
        # another instance standing for a model object: fine for a Ref (decoded record), wrong in memory
        return n if isinstance(x, Ref) else n + "'"

    def rank(self, tid):
        if tid is None or tid == z64:
            return 0
        try:
            return self.tids.index(tid) + 1
        except ValueError:
            return 'tid?%s' % u64(tid)

    def learn_oids(self):
        for n, o in self.objs.items():
            oid = o._p_oid
            if oid is not None:
                self.oidnames.setdefault(oid, n)

    # -------------------------------------------------------------- states of objects
    def mem_state(self, n):
        o = self.objs[n]
        sh = self.shape[n]
        if o._p_changed is None:
            return dict(GHOST)
        if sh.name == 'blob':
            fn = o._p_blob_uncommitted or o._p_blob_committed
            if not fn or not os.path.exists(fn):
                return {'v': 'nofile', 'kids': ()}
            with open(fn, 'rb') as f:
                return {'v': f.read().decode(), 'kids': ()}
        try:
            v, kids = sh.read(o.__dict__)
        except (KeyError, IndexError):
            return {'v': 'nostate', 'kids': ()}
        return {'v': v, 'kids': tuple(self.name_of(k) for k in kids)}

    def rec_state(self, data):
        cls, state = decode(data)
        sh = shape_of_class(cls)
        if sh.name == 'blob':
            return dict(BLOBREC)
        v, kids = sh.read(state)
        return {'v': v, 'kids': tuple(self.name_of(k) for k in kids)}

    def load_state(self, n):
        """what Connection.setstate would install now (no side effect on the object or the cache)"""
        o = self.objs[n]
        st = self.c1._storage
        try:
            data, serial = st.load(o._p_oid)
        except (POSKeyError, ReadConflictError, KeyError):
            return dict(UNLOADABLE)
        if self.shape[n].name == 'blob':
            try:
                fn = st.loadBlob(o._p_oid, serial)
                with open(fn, 'rb') as f:
                    return {'v': f.read().decode(), 'kids': ()}
            except (POSKeyError, KeyError, OSError):
                return dict(UNLOADABLE)
        return self.rec_state(data)

    def seen(self, n):
        o = self.objs[n]
        if o._p_changed is not None:
            return self.mem_state(n)
        if o._p_jar is None:
            return dict(LOST)
        return self.load_state(n)

    def public(self, n):
        """the state of n as a second connection sees it after a sync"""
        oid = self.objs[n]._p_oid
        if oid is None:
            return dict(ABSENT)
        try:
            o2 = self.c2.get(oid)
            o2._p_activate()
        except (POSKeyError, ReadConflictError, KeyError):
            return dict(ABSENT)
        sh = shape_of_class(type(o2))
        if sh.name == 'blob':
            with o2.open('r') as f:
                return {'v': f.read().decode(), 'kids': ()}
        v, kids = sh.read(o2.__dict__)
        return {'v': v, 'kids': tuple(self.oidnames.get(k._p_oid, '?%s' % oid_repr(k._p_oid)) for k in kids)}

    # -------------------------------------------------------------- the savepoint store
    def _tmp_records(self, ts, upto):
        """[(pos, oid, serial, data)] of the records in the TmpStore file below `upto`"""
        f = ts._file
        keep = f.tell()
        out = []
        pos = 0
        try:
            while pos < upto:
                f.seek(pos)
                h = f.read(8)
                if len(h) < 8:
                    break
                ol = u64(h)
                if ol > 64:
                    # not a record of the savepoint store (oids are 8 bytes): the file is damaged
                    raise Mismatch('tmp.file', 'well-formed records', 'oid length %d at position %d' % (ol, pos))
                oid = f.read(ol)
                h2 = f.read(16)
                if len(h2) < 16:
                    raise Mismatch('tmp.file', 'well-formed records', 'record cut short at position %d' % pos)
                size = u64(h2[8:])
                if size > (1 << 24):
                    raise Mismatch('tmp.file', 'well-formed records', 'data length %d at position %d' % (size, pos))
                data = f.read(size)
                out.append((pos, oid, h2[:8], data))
                pos += 8 + ol + 16 + size
        finally:
            f.seek(keep)
        return out

    def _project_tmp_state(self, ts, position, index, creating):
        recs = self._tmp_records(ts, max(position, ts.position))
        bypos = {r[0]: r for r in recs}
        below = [r for r in recs if r[0] < position]
        idx = {}
        for oid, pos in index.items():
            r = bypos.get(pos)
            idx[self.oidnames.get(oid, '?%s' % oid_repr(oid))] = self.rec_state(r[3]) if r and r[1] == oid else {'v': 'badpos', 'kids': ()}
        cre = {self.oidnames.get(oid, '?%s' % oid_repr(oid)): ('i' if flag else 'e') for oid, flag in creating.items()}
        exact = sum(1 for r in below) if (not below or below[-1][0] + 8 + len(below[-1][1]) + 16 + len(below[-1][3]) == position) else 'pos?%d' % position
        return {'pos': exact if position else 0, 'index': idx, 'cre': cre}

    def project_tmp(self):
        ts = self.c1._savepoint_storage
        if ts is None:
            left = []
            for t, f, _d in self.tmpstores:
                if not f.closed:
                    left.append('file')
            for t, _f, d in self.tmpstores:
                d = d or t._blob_dir
                if d and os.path.exists(d):
                    left.append('blobdir')
            return {'on': False, 'pos': 0, 'index': {}, 'cre': {}, 'alias': 0, 'blob': {}, 'left': tuple(left)}
        if not any(t is ts for t, _f, _d in self.tmpstores):
            self.tmpstores.append([ts, ts._file, ts._blob_dir])
        for ent in self.tmpstores:
            if ent[0] is ts and ts._blob_dir:
                ent[2] = ts._blob_dir
        p = self._project_tmp_state(ts, ts.position, ts.index, ts.creating)
        p['on'] = True
        p['left'] = ()
        alias = 0
        for k, sp in enumerate(self.sps):
            dm = self._dm_savepoint(sp)
            if dm is not None and hasattr(dm, 'state') and dm.state[2] is ts.creating:
                alias = k + 1
        p['alias'] = alias
        blob = {}
        if ts._blob_dir and os.path.isdir(ts._blob_dir):
            for fn in os.listdir(ts._blob_dir):
                for n, o in self.objs.items():
                    if o._p_oid is not None and fn.startswith(oid_repr(o._p_oid) + '-'):
                        with open(os.path.join(ts._blob_dir, fn), 'rb') as f:
                            blob[n] = f.read().decode()
        p['blob'] = blob
        return p

    def _dm_savepoint(self, sp):
        for s in getattr(sp, '_savepoints', ()):
            if getattr(s, 'datamanager', None) is self.c1:
                return s
        return None

    def project_sps(self):
        out = []
        ts = self.c1._savepoint_storage
        for sp in self.sps:
            dm = self._dm_savepoint(sp)
            ent = {'valid': bool(sp.valid)}
            if dm is not None and hasattr(dm, 'state'):
                ent['kind'] = 'tmp' if ts is not None else 'tmp-without-store'
                if ts is not None:
                    ent.update(self._project_tmp_state(ts, *dm.state))
            else:
                ent['kind'] = 'abort'
            out.append(ent)
        return out

    # -------------------------------------------------------------- projection
    def project(self, pub=True):
        self.learn_oids()
        c1 = self.c1
        ob = {}
        for n in self.names:
            o = self.objs[n]
            jar, oid = o._p_jar, o._p_oid
            if (jar is None) != (oid is None):
                own = 'jar-only' if oid is None else 'oid-only'
            elif jar is not None and jar is not c1:
                own = 'foreign'
            else:
                own = jar is not None
            ch = o._p_changed
            flag = 'ghost' if ch is None else ('changed' if ch else 'clean')
            ob[n] = {'own': own, 'cached': oid is not None and c1._cache.get(oid) is o, 'flag': flag,
                     'serial': 0 if ch is None else self.rank(o._p_serial), 'st': self.mem_state(n)}
        inst = c1._normal_storage
        start = getattr(inst, '_start', None)
        cn = {'reg': tuple(self.name_of(o) for o in c1._registered_objects),
              'added': frozenset(self.name_of(o) for o in c1._added.values()),
              'creating': {self.oidnames.get(oid, '?%s' % oid_repr(oid)): ('i' if f else 'e') for oid, f in c1._creating.items()},
              'modified': frozenset(self.oidnames.get(oid, '?%s' % oid_repr(oid)) for oid in c1._modified),
              'joined': not c1._needs_to_join, 'opened': c1.opened is not None,
              'start': self.rank(p64(u64(start) - 1)) if start else 'nostart'}
        p = {'ob': ob, 'cn': cn, 'tmp': self.project_tmp(), 'sps': self.project_sps(),
             'seen': {n: self.seen(n) for n in self.names}}
        if pub:
            self.tm2.begin()
            p['pub'] = {n: self.public(n) for n in self.names}
        if not self.in_commit:
            # outside a commit nobody holds the storage's commit lock (a failed commit must have given it back)
            lock = getattr(self.storage, '_commit_lock', None)
            if lock is not None and hasattr(lock, 'acquire'):
                if lock.acquire(False):
                    lock.release()
                    p['lock'] = 'free'
                else:
                    p['lock'] = 'held'
        return p

    def last_txn(self):
        """records of the last storage transaction: {name: state}"""
        out = {}
        for t in self.storage.iterator(self.tids[-1]):
            for r in t:
                n = self.oidnames.get(r.oid, '?%s' % oid_repr(r.oid))
                out[n] = self.rec_state(r.data)
            break
        return out

    # -------------------------------------------------------------- comparison with a TLC state
    def compare(self, st, p, hist_grew=False):
        """raise Mismatch at the first field where the projection differs from the printed state"""
        def eq(where, spec, impl):
            if spec != impl:
                raise Mismatch(where, spec, impl)
        blobs = set(self.c['Blobs'])
        for n in self.names:
            so, io_ = st['ob'][n], p['ob'][n]
            eq('ob.own', bool(so['own']), io_['own'])
            eq('ob.flag', str(so['flag']), io_['flag'])
            eq('ob.cached', bool(so['cached']), io_['cached'])
            eq('ob.serial', so['serial'], io_['serial'])
            if n in blobs and not so['own']:
                continue        # the data of a disowned blob went to the store for good: outside the model
            eq('ob.st', norm_state(so['st']), io_['st'])
        sc, ic = st['cn'], p['cn']
        eq('cn.joined', bool(sc['joined']), ic['joined'])
        eq('cn.opened', bool(sc['opened']), ic['opened'])
        eq('cn.reg', tuple(str(x) for x in sc['reg']), ic['reg'])
        eq('cn.added', frozenset(str(x) for x in sc['added']), ic['added'])
        eq('cn.creating', {str(k): str(v) for k, v in sc['creating'].items() if v != '-'}, ic['creating'])
        eq('cn.modified', frozenset(str(x) for x in sc['modified']), ic['modified'])
        eq('cn.start', sc['start'], ic['start'])
        stp, itp = st['tmp'], p['tmp']
        eq('tmp.on', bool(stp['on']), itp['on'])
        eq('tmp.left', (), itp['left'])
        if stp['on']:
            self._cmp_tmp('tmp', stp, itp, eq)
            eq('tmp.alias', stp['alias'], itp['alias'])
            if self.c['SpBlobByName']:
                eq('tmp.blob', {str(k): str(v) for k, v in stp['blob'].items() if v != '-'}, itp['blob'])
        ssp, isp = st['sps'], p['sps']
        eq('sps.len', len(ssp), len(isp))
        for k, (a, b) in enumerate(zip(ssp, isp)):
            eq('sps.valid', True, b['valid'])
            eq('sps.kind', str(a['kind']), b['kind'])
            if a['kind'] == 'tmp':
                self._cmp_tmp('sps', a, b, eq)
        for n in self.names:
            if n in blobs and not st['ob'][n]['own']:
                continue
            eq('obs.seen', norm_state(st['obs']['seen'][n]), p['seen'][n])
        if 'pub' in p:
            for n in self.names:
                eq('obs.pub', norm_state(st['obs']['pub'][n]), p['pub'][n])
        if 'lock' in p:
            eq('storage.commit_lock', 'free', p['lock'])
        if hist_grew:
            w = st['hist'][-1]['w']
            want = {str(n): (dict(BLOBREC) if str(n) in blobs else norm_state(s)) for n, s in w.items() if s['v'] != 'absent'}
            eq('hist.last', want, self.last_txn())

    @staticmethod
    def _cmp_tmp(pre, s, i, eq):
        eq(pre + '.pos', s['pos'], i['pos'])
        eq(pre + '.index', {str(k): norm_state(v) for k, v in s['index'].items() if v['v'] != 'absent'}, i['index'])
        eq(pre + '.cre', {str(k): str(v) for k, v in s['cre'].items() if v != '-'}, i['cre'])

    # -------------------------------------------------------------- actions
    def do(self, action, args, st):
        """perform one action outside a commit; returns the projection"""
        a = [str(x) if not isinstance(x, int) else x for x in args]
        self.count(action)
        getattr(self, 'do_' + action)(*a, st=st)
        return self.project()

    def do_Modify(self, o, v, st):
        self.shape[o].set_v(self.objs[o], v)

    def do_Link(self, p, o, st):
        self.shape[p].link(self.objs[p], o, self.objs[o])

    def do_Unlink(self, p, o, st):
        self.shape[p].unlink(self.objs[p], o, self.objs[o])

    def do_Load(self, o, st):
        self.objs[o]._p_activate()

    def do_AddExplicit(self, o, st):
        self.c1.add(self.objs[o])

    def do_Savepoint(self, st):
        self.sps.append(self.tm1.savepoint())

    def do_SavepointRaises(self, o, st):
        """transaction.savepoint() raising part-way (an unpicklable value in o), then the caller's abort()"""
        self.shape[o].poison(self.objs[o])
        dead = self._drop_savepoints()
        try:
            try:
                self.tm1.savepoint()
            except Injected as e:
                self.last_exc = e
            else:
                raise Mismatch('savepoint.outcome', 'raises', 'returned')
        finally:
            self.shape[o].unpoison(self.objs[o])
        self.tm1.abort()
        self._check_dead(dead)

    def do_Rollback(self, k, st):
        self.sps[k - 1].rollback()
        dead = self.sps[k:]
        del self.sps[k:]
        for sp in dead:
            if sp.valid:
                raise Mismatch('sps.invalidated', False, True)

    def _drop_savepoints(self):
        dead, self.sps = self.sps, []
        return dead

    @staticmethod
    def _check_dead(dead):
        for sp in dead:
            if sp.valid:
                raise Mismatch('sps.invalidated', False, True)

    def do_Abort(self, st):
        dead = self._drop_savepoints()
        self.tm1.abort()
        self._check_dead(dead)

    def do_Close(self, st):
        refused = bool(st['cn']['opened'])
        try:
            self.c1.close()
        except ConnectionStateError:
            if not refused:
                raise Mismatch('close.outcome', 'closed', 'ConnectionStateError')
        else:
            if refused:
                raise Mismatch('close.outcome', 'ConnectionStateError', 'closed')

    def do_Reopen(self, st):
        c = self.db.open(self.tm1)
        if c is not self.c1:
            raise RuntimeError('the pool handed out another connection')

    def do_OtherCommit(self, o, st):
        self.tm2.begin()
        o2 = self.c2.get(self.objs[o]._p_oid)
        shape_of_class(type(o2)).set_v(o2, 'vo')
        with deadline('commit of the second connection'):
            self.tm2.commit()
        self.tids.append(self.storage.lastTransaction())

    def _join_rms(self):
        txn = self.tm1.get()
        for rm in (self.rm_before, self.rm_after):
            rm.fail = None
            rm.hooks = {}
            txn.join(rm)
        return txn

    def do_FailBeforeBegin(self, st):
        self._join_rms()
        self.rm_before.fail = 'tpc_begin'
        self._commit_expect_failure()

    def _commit_expect_failure(self, also=()):
        dead = self._drop_savepoints()
        try:
            with deadline('commit'):
                self.tm1.commit()
        except (Injected, ConflictError) + tuple(also) as e:
            self.last_exc = e
        else:
            raise Mismatch('commit.outcome', 'raises', 'returned')
        self._check_dead(dead)

    def do_BeginFails(self, st):
        """the storage refuses tpc_begin: a transaction description longer than 65535 bytes (FileStorage)"""
        from ZODB.POSException import StorageError
        if self.kind != 'file':
            raise RuntimeError('BeginFails needs a storage that refuses long metadata (file), not %s' % self.kind)
        self._join_rms()
        self.tm1.get().note('x' * 70000)
        self._commit_expect_failure(also=(StorageError,))
        if not isinstance(self.last_exc, StorageError):
            raise Mismatch('commit.outcome', 'StorageError', type(self.last_exc).__name__)

    def do_AddWhileFailed(self, o, st):
        """a failing commit, Connection.add(o) before the abort, then the abort"""
        from transaction.interfaces import TransactionFailedError
        self._join_rms()
        self.rm_before.fail = 'tpc_begin'
        self._commit_expect_failure()
        try:
            self.c1.add(self.objs[o])
        except TransactionFailedError:
            pass
        else:
            raise Mismatch('add.outcome', 'TransactionFailedError', 'returned')
        self.tm1.abort()

    def do_ModifyWhileFailed(self, o, v, st):
        """a commit of the (unjoined) connection's transaction fails, an attribute assignment before the abort, the abort"""
        from transaction.interfaces import TransactionFailedError
        if not self.c1._needs_to_join:
            raise Mismatch('cn.joined', False, True)
        self._join_rms()
        self.rm_before.fail = 'tpc_begin'
        self._commit_expect_failure()
        try:
            self.shape[o].set_v(self.objs[o], v)
        except TransactionFailedError:
            pass
        else:
            raise Mismatch('assignment.outcome', 'TransactionFailedError', 'returned')
        self.tm1.abort()

    def do_ImportInTxn(self, o, st):
        """Connection.importFile of a one-object export; the returned object takes the place of model object o"""
        got = self.c1.importFile(io.BytesIO(export_bytes(self.c['Val'][0])))
        if got is None:
            raise Mismatch('import.outcome', 'an object', None)
        self.by_id.pop(id(self.objs[o]), None)
        self.objs[o] = got
        self.shape[o] = SHAPES['vobj']
        self.by_id[id(got)] = o

    def after_failure(self):
        """the caller's duty after a failed commit; a stutter for the specification"""
        self.tm1.abort()

    # -------------------------------------------------------------- a whole commit
    def do_commit(self, steps):
        """steps = the actions from Begin to the action that ends the commit.  One transaction.commit();
        returns [(step index, projection)] for the observable steps."""
        names = [s['action'] for s in steps]
        end = names[-1]
        for n in names:
            self.count(n)
        self._join_rms()
        alt = bool(self.opts.get('alt_rm'))
        self.snaps = []
        rma, rmb = self.rm_after, self.rm_before

        def snap(tag):
            def cb():
                self.snaps.append((tag, self.project()))
            return cb
        rma.hooks = {'tpc_begin': snap('Begin'), 'commit': snap('Stored'), 'tpc_vote': snap('Vote')}
        stepwise = not any(n in names for n in ('CommitSp', 'CommitSpConflict', 'CommitSpRaises', 'CommitSpStoreRaises'))
        poisoned = None
        if end == 'FailBegun':
            if alt:
                rmb.fail = 'commit'
            else:
                rma.fail = 'tpc_begin'
        elif end == 'FailStored':
            if alt:
                rmb.fail = 'tpc_vote'
            else:
                rma.fail = 'commit'
        elif end == 'FailVoted':
            if alt:
                rmb.fail = 'tpc_finish'
            else:
                rma.fail = 'tpc_vote'
        elif end == 'FinishThenFail':
            rma.fail = 'tpc_finish'
        elif end in ('StoreRaises', 'CommitSpRaises'):
            poisoned = str(steps[-1]['args'][0])
            self.shape[poisoned].poison(self.objs[poisoned])
        if stepwise:
            self.c1._readCurrent.tap = snap('Store')
        inst = self.c1._normal_storage
        if end == 'CommitSpStoreRaises':
            # the real storage's store() fails for the record of one object: the k-th store of the copy loop
            victim = self.objs[str(steps[-1]['args'][0])]       # (a new object gets its oid inside commit())
            real_store = inst.store

            def failing_store(oid, *a, **kw):
                if oid == victim._p_oid:
                    raise Injected('storage error at the record of %s' % oid_repr(oid))
                return real_store(oid, *a, **kw)
            inst.store = failing_store
        dead = self._drop_savepoints()
        self.in_commit = True
        try:
            if end == 'Finish':
                with deadline('commit'):
                    self.tm1.commit()
                self.tids.append(self.storage.lastTransaction())
            else:
                try:
                    with deadline('commit'):
                        self.tm1.commit()
                except Injected as e:
                    self.last_exc = e
                    if end in ('StoreConflict', 'CommitSpConflict'):
                        raise Mismatch('commit.outcome', 'ConflictError', 'Injected')
                except ConflictError as e:
                    self.last_exc = e
                    if end not in ('StoreConflict', 'CommitSpConflict'):
                        raise Mismatch('commit.outcome', end, 'ConflictError %s' % e)
                else:
                    raise Mismatch('commit.outcome', end, 'returned')
                if end == 'FinishThenFail':
                    self.tids.append(self.storage.lastTransaction())
        except Mismatch:
            raise
        except Exception as e:
            raise Mismatch('commit.outcome', end, '%s: %s' % (type(e).__name__, e))
        finally:
            self.in_commit = False
            self.c1._readCurrent.tap = None
            inst.__dict__.pop('store', None)
            if poisoned is not None:
                self.shape[poisoned].unpoison(self.objs[poisoned])
        self._check_dead(dead)
        # match the observations with the steps
        out = []
        obs = list(self.snaps)
        for i, n in enumerate(names[:-1]):
            tag = 'Stored' if n == 'CommitSp' else n
            if not obs or obs[0][0] != tag:
                raise Mismatch('commit.phases', names, [t for t, _p in self.snaps])
            out.append((i, obs.pop(0)[1]))
        if end == 'Finish':
            pass
        elif any(t == 'Store' for t, _p in obs):
            raise Mismatch('commit.phases', names, [t for t, _p in self.snaps])
        out.append((len(names) - 1, self.project()))
        return out


# ------------------------------------------------------------------ running a path
def split_label(lab):
    import re
    from .. import tlaparse
    m = re.match(r'^(\w+)(?:\((.*)\))?$', lab, re.S)
    if not m:
        raise RuntimeError('cannot read transition label %r' % lab)
    return m.group(1), tlaparse._split_args(m.group(2))


def clauses(st):
    return {(str(m['clause']), str(m['obj'])) for m in st['obs']['mon']}


def role(st, o):
    """what the object was to the connection in this state (for violation signatures)"""
    cn, x = st['cn'], st['ob'][o]
    r = []
    if o in {str(a) for a in cn['added']}:
        r.append('added')
    if cn['creating'].get(o, '-') != '-':
        r.append('creating')
    if st['tmp']['on'] and st['tmp']['cre'].get(o, '-') != '-':
        r.append('savepoint-created')
    if o in {str(a) for a in cn['reg']}:
        r.append('registered')
    if x['own'] and not x['cached'] and 'added' not in r:
        r.append('uncached')
    if not x['own']:
        r.append('unowned')
    if (x['own'] and st['tmp']['on'] and st['tmp']['index'][o]['v'] != 'absent' and st['tmp']['cre'].get(o, '-') == '-'
            and st['obs']['pub'][o]['v'] == 'absent'):
        r.append('imported')          # written into the savepoint store by importFile, in no creating map
    return '+'.join(r) or 'plain'


def run_path(rp, steps, result, strict=True):
    """steps: [{'action','args','state'}] starting after Init.  Fills result; returns True when the real code
    followed the path to its end."""
    i = 0
    n = len(steps)
    prev = result.get('init_state')
    hist_len = len(prev['hist']) if prev else 1
    blobs = set(rp.c['Blobs'])

    def check(k, proj):
        nonlocal prev, hist_len
        s = steps[k]
        st = s['state']
        grew = len(st['hist']) > hist_len
        hist_len = len(st['hist'])
        try:
            rp.compare(st, proj, hist_grew=grew)
        except Mismatch as m:
            result['mismatch'] = {'step': k, 'action': s['action'], 'args': [str(a) for a in s['args']], 'where': m.where,
                                  'spec': m.spec, 'impl': m.impl, 'role': _role_for(prev, s), 'prefix': result['sig'][:]}
            return False
        result['steps'] += 1
        result['actions'][s['action']] = result['actions'].get(s['action'], 0) + 1
        new = clauses(st) - (clauses(prev) if prev else set())
        for cl, o in sorted(new):
            result['monitor'].append({'step': k, 'action': s['action'], 'clause': cl, 'obj': o, 'blob': o in blobs,
                                      'role': role(prev, o) if prev else 'plain', 'prefix': result['sig'][:]})
        prev = st
        return True

    def _role_for(pst, s):
        if not pst or not s['args']:
            return ''
        o = str(s['args'][-1])
        return role(pst, o) if o in pst['ob'] else ''

    while i < n:
        s = steps[i]
        act = s['action']
        try:
            if act == 'Begin':
                j = i
                while j < n and steps[j]['action'] not in COMMIT_END:
                    j += 1
                if j >= n:          # a behaviour cut inside a commit (simulation depth): the rest is not replayed
                    result['truncated'] = True
                    return True
                seg = steps[i:j + 1]
                for x in seg:
                    result['sig'].append(label(x))
                obs = rp.do_commit(seg)
                for k, proj in obs:
                    if not check(i + k, proj):
                        return False
                if seg[-1]['action'] != 'Finish':
                    rp.after_failure()
                    try:
                        rp.compare(seg[-1]['state'], rp.project())
                    except Mismatch as m:
                        result['mismatch'] = {'step': j, 'action': 'AbortAfter' + seg[-1]['action'], 'args': [], 'where': m.where,
                                              'spec': m.spec, 'impl': m.impl, 'role': '', 'prefix': result['sig'][:]}
                        return False
                i = j + 1
                continue
            result['sig'].append(label(s))
            proj = rp.do(act, s['args'], s['state'])
            if not check(i, proj):
                return False
            if act in IDLE_FAILURES:
                rp.after_failure()
                rp.compare(s['state'], rp.project())
        except Mismatch as m:
            result['mismatch'] = {'step': i, 'action': act, 'args': [str(a) for a in s['args']], 'where': m.where,
                                  'spec': m.spec, 'impl': m.impl, 'role': _role_for(prev, s), 'prefix': result['sig'][:]}
            return False
        except (Injected, ConflictError, POSKeyError, ConnectionStateError, AssertionError, KeyError, AttributeError,
                TypeError, ValueError) as e:
            if not strict:
                raise
            result['mismatch'] = {'step': i, 'action': act, 'args': [str(a) for a in s['args']], 'where': 'call.outcome',
                                  'spec': 'ok', 'impl': '%s: %s' % (type(e).__name__, str(e)[:200]), 'role': _role_for(prev, s),
                                  'prefix': result['sig'][:]}
            return False
        i += 1
    return True


def label(s):
    return '%s(%s)' % (s['action'], ','.join(str(a) for a in s['args'])) if s['args'] else s['action']


def new_result():
    return {'steps': 0, 'actions': {}, 'monitor': [], 'mismatch': None, 'sig': [], 'calls': {}}


def replay_path(job):
    """job = (steps incl. the initial state as steps[0], consts, kind, workdir, opts) -> result"""
    from ZODB.POSException import POSError
    steps, c, kind, workdir, opts = job
    res = new_result()
    res['kind'] = kind
    res['opts'] = opts
    try:
        rp = ConnReplayer(c, kind, workdir, opts)
    except (POSError, AssertionError, KeyError, AttributeError, TypeError, ValueError, IndexError) as e:
        # the set-up (open, create the root's value and the pre-committed objects, commit) is real code too
        shutil.rmtree(workdir, ignore_errors=True)
        res['mismatch'] = {'step': 0, 'action': 'Init', 'args': [], 'where': 'setup.outcome', 'spec': 'ok',
                           'impl': '%s: %s' % (type(e).__name__, str(e)[:160]), 'role': '', 'prefix': []}
        return res
    res['init_state'] = steps[0]['state']
    try:
        try:
            rp.compare(steps[0]['state'], rp.project())
        except Mismatch as m:
            res['mismatch'] = {'step': 0, 'action': 'Init', 'args': [], 'where': m.where, 'spec': m.spec, 'impl': m.impl,
                               'role': '', 'prefix': []}
        else:
            # a watchdog for the whole behaviour, independent of the per-call SIGALRM deadlines (which cancel each
            # other when nested): a timer thread sends a real SIGUSR1 to the main thread, whose handler raises
            import signal
            import threading

            def _usr1(*_a):
                raise Blocked('the behaviour')
            armed = threading.current_thread() is threading.main_thread()
            if armed:
                old = signal.signal(signal.SIGUSR1, _usr1)
                timer = threading.Timer(BEHAVIOUR_S, lambda: signal.pthread_kill(threading.main_thread().ident, signal.SIGUSR1))
                timer.daemon = True
                timer.start()
            try:
                res['completed'] = run_path(rp, steps[1:], res)
            except Blocked:
                res['mismatch'] = {'step': len(res.get('sig', ())), 'action': 'behaviour', 'args': [], 'where': 'call.blocked',
                                   'spec': 'returns', 'impl': 'the behaviour did not finish within %ss' % BEHAVIOUR_S,
                                   'role': '', 'prefix': list(res.get('sig', ()))[-20:]}
            finally:
                if armed:
                    timer.cancel()
                    signal.signal(signal.SIGUSR1, old)
    finally:
        res['calls'] = rp.calls
        try:
            rp.close()
        except Blocked:
            pass
    res.pop('init_state')
    return res
