"""Replay of ZFsIndex (spec/ZFsIndex.tla) on the real ZODB.fsIndex.fsIndex (spec -> code).

TLC supplies
  * the state graph of the specification (``-dump dot,actionlabels``): one edge = one call on the
    real class (Set / Del / Clear / Update / Save / Load), the node it leads to carries the outcome
    of the call (`res`) and the index content (`idx`);
  * one printed observation table per index content (``ObsPrinted``): the answer of every query
    (len, keys, items, values, get, in, minKey/maxKey without and with a bound for every key of the
    universe) according to the flat ordered-map MEANING, and the answers of the two TRANSCRIPTIONS
    of the code's minKey/maxKey case analysis (as the code is / repaired).

Python only concretises (model prefix/suffix -> 6+2 bytes, values/positions -> integers < 2**48),
performs the calls and compares.  Nothing here computes an expected answer."""
import collections
import os
import random
import re
import struct

from .. import par, tlaparse

LOOKUP = (KeyError, ValueError)          # "no such key" family of a sorted dictionary (DESIGN, C19 note)
MAXPOS = 2 ** 48 - 1
P_FIRST = b'\0' * 6
P_LAST = b'\xff' * 6
MUTATORS = ('Set', 'Del', 'Clear', 'Update', 'Save', 'Load')


def p6(n):
    return struct.pack('>Q', n)[2:]


def s2(n):
    return struct.pack('>H', n)


# --------------------------------------------------------------------------------------------
# concretisation profiles
# --------------------------------------------------------------------------------------------

def _spread(rng, n, lo, hi, near):
    """n distinct ascending integers in [lo, hi]: the two ends plus interior points, preferring
    values next to the ends, next to byte boundaries and next to each other."""
    if n == 1:
        return [lo]
    out = {lo, hi}
    cands = [c for c in near if lo < c < hi]
    rng.shuffle(cands)
    while len(out) < n:
        if cands and rng.random() < 0.7:
            out.add(cands.pop())
        else:
            c = rng.randint(lo + 1, hi - 1)
            out.add(c)
            if len(out) < n and lo < c + 1 < hi and rng.random() < 0.5:
                out.add(c + 1)             # an adjacent pair: prefix+1 is a real neighbour
    return sorted(out)[:n] if len(out) == n else sorted(out)[:n - 1] + [hi]


def make_profile(kind, NP, NS, NV, NPos, seed):
    """kind: ends | dense | top | interior.  -> dict (JSON-able: hex strings and ints)."""
    rng = random.Random('%s/%d/%d/%d' % (kind, NP, NS, seed))
    pmax, smax = 2 ** 48 - 1, 0xffff
    pnear = [1, 2, 0xff, 0x100, 0xffff, 0x10000, 2 ** 40, 2 ** 47, pmax - 1, pmax - 2, pmax - 0xff]
    snear = [1, 2, 0x7f, 0x80, 0xff, 0x100, 0x7fff, 0x8000, smax - 1, smax - 2]
    if kind == 'ends':
        pf = _spread(rng, NP, 0, pmax, pnear)
        sf = _spread(rng, NS, 0, smax, snear)
        vals = [MAXPOS, 0, 1, 2 ** 32]
        poss = [0, 1, MAXPOS, 2 ** 31]
    elif kind == 'dense':                  # what a young database looks like: ids counted up from zero
        pf = list(range(NP))
        sf = list(range(smax - NS + 1, smax + 1))
        vals = [0, 4, 2 ** 32 + 5, MAXPOS]
        poss = [4, 0, 2 ** 40, MAXPOS]
    elif kind == 'top':
        pf = list(range(pmax - NP + 1, pmax + 1))
        sf = list(range(NS))
        vals = [1, MAXPOS, 0, 2 ** 24]
        poss = [MAXPOS, 1, 0, 2 ** 33]
    elif kind == 'interior':
        pf = _spread(rng, NP + 2, 0, pmax, pnear)[1:-1]
        sf = _spread(rng, NS + 2, 0, smax, snear)[1:-1]
        vals = [rng.randint(0, MAXPOS) for _ in range(4)]
        poss = [rng.randint(0, MAXPOS) for _ in range(4)]
    else:
        raise ValueError(kind)
    if len(set(pf)) != NP or len(set(sf)) != NS or sorted(pf) != pf or sorted(sf) != sf:
        raise RuntimeError('profile %s: bad concretisation %r %r' % (kind, pf, sf))
    while len(vals) < NV:
        vals.append(rng.randint(0, MAXPOS))
    while len(poss) < NPos:
        poss.append(rng.randint(0, MAXPOS))
    vals = vals[:NV]
    if len(set(vals)) != NV:
        raise RuntimeError('values must be distinct')
    return {'kind': kind, 'seed': seed, 'prefixes': [p6(p).hex() for p in pf], 'suffixes': [s2(s).hex() for s in sf],
            'vals': vals, 'poss': poss[:NPos],
            'first_is_zero': pf[0] == 0, 'last_is_max': pf[-1] == pmax,
            'update_with': ('dict', 'fsIndex', 'ordered')[(seed + len(kind)) % 3]}


def consumer_profile(prof):
    """The same concretisation with the largest suffix below ffff, so that record_iternext's own
    `oid + 1` stays inside 8 bytes (that arithmetic is not the index's business)."""
    q = dict(prof)
    sf = [int(s, 16) for s in prof['suffixes']]
    sf[-1] = min(sf[-1], 0xfffe)
    for i in range(len(sf) - 2, -1, -1):
        sf[i] = min(sf[i], sf[i + 1] - 1)
    q['suffixes'] = [s2(s).hex() for s in sf]
    if len(set(q['suffixes'])) != len(sf) or sorted(sf) != sf:
        raise RuntimeError('consumer profile not order preserving')
    return q


# --------------------------------------------------------------------------------------------
# what TLC produced: graph + observation tables
# --------------------------------------------------------------------------------------------

_NODE = re.compile(r'^(-?\d+) \[label="((?:[^"\\]|\\.)*)"(?:,tooltip="(?:[^"\\]|\\.)*")?(,style = filled)?(?:,tooltip="(?:[^"\\]|\\.)*")?\];?\s*$')
_EDGE = re.compile(r'^(-?\d+) -> (-?\d+) \[label="([A-Za-z_]\w*)(?:\(([^"]*)\))?"')
_UNESC = re.compile(r'\\(.)', re.S)


def _unescape(s):
    return _UNESC.sub(lambda m: {'n': '\n', '"': '"', '\\': '\\'}.get(m.group(1), m.group(1)), s)


def _fn(v):
    """A TLA+ function as printed (record-like dict, or tuple when the domain is 1..n) -> dict."""
    if isinstance(v, tuple):
        return {i + 1: x for i, x in enumerate(v)}
    return dict(v)


def norm_data(v):
    return {p: {s: x for s, x in _fn(b).items()} for p, b in _fn(v).items()}


def _parse_nodes(lines):
    out = []
    for nid, label in lines:
        st = tlaparse.parse_state_block(_unescape(label))
        idx = st['idx']
        keys = sorted(idx)
        out.append((nid, tuple(idx[k] for k in keys), norm_data(st['data']), st['file']['pos'],
                    str(st['res']['out']), st['res']['pos']))
    return out


def _parse_obs(lines):
    out = []
    for ln in lines:
        v = tlaparse.parse_value(_unescape(ln[1:-1]))
        out.append(v)
    return out


class Graph:
    """nodes[i] = (idxseq, filepos, out, pos); adj[i] = [(action, args, j)], canonically ordered."""

    def __init__(self):
        self.nodes = []
        self.adj = []
        self.init = 0
        self.obs = {}
        self.upd = []
        self.consts = {}
        self.edge_count = 0

    def key_of(self, n):            # 1-based rank -> (p, s)
        NS = self.consts['NS']
        return ((n - 1) // NS, (n - 1) % NS)

    def num(self, p, s):
        return p * self.consts['NS'] + s + 1


def load_graph(dot_path, tlc_output, consts):
    """Parse the dump and the printed tables; every inconsistency is a machinery failure."""
    node_lines, edges, init_id = [], [], None
    with open(dot_path) as f:
        for line in f:
            if ' -> ' in line[:48]:
                m = _EDGE.match(line)
                if not m:
                    raise RuntimeError('unparsable edge line: %r' % line[:200])
                args = tuple(int(x) for x in m.group(4).split(',')) if m.group(4) else ()
                edges.append((m.group(1), m.group(2), m.group(3), args))
                continue
            m = _NODE.match(line)
            if m:
                node_lines.append((m.group(1), m.group(2)))
                if m.group(3):
                    init_id = m.group(1)
    if init_id is None or not node_lines:
        raise RuntimeError('no initial state in %s' % dot_path)
    obs_lines, upd = [], None
    for ln in tlc_output.splitlines():
        ln = ln.strip()
        if ln.startswith('"<<\\"OBS\\"') and ln.endswith('"'):
            obs_lines.append(ln)
        elif ln.startswith('"<<\\"UPD\\"') and ln.endswith('"'):
            upd = tlaparse.parse_value(_unescape(ln[1:-1]))[1]
    if upd is None:
        raise RuntimeError('TLC did not print the update() mappings')
    parsed = []
    for chunk in par.pmap(_parse_nodes, par.chunks(node_lines, 32)):
        parsed.extend(chunk)
    obs_vals = []
    for chunk in par.pmap(_parse_obs, par.chunks(obs_lines, 32)):
        obs_vals.extend(chunk)
    g = Graph()
    g.consts = dict(consts)
    g.upd = [tuple(tuple(k) for k in ks) for ks in upd]
    NK = consts['NP'] * consts['NS']
    datas = {}
    for tag, idxseq, data, obs in obs_vals:
        idxseq = tuple(idxseq)
        if len(idxseq) != NK:
            raise RuntimeError('OBS line with %d keys, expected %d' % (len(idxseq), NK))
        if idxseq in g.obs and g.obs[idxseq] != obs:
            raise RuntimeError('two different observation tables printed for one index content')
        g.obs[idxseq] = obs
        datas[idxseq] = norm_data(data)
    # canonical numbering, independent of TLC's fingerprints and worker scheduling
    parsed.sort(key=lambda t: (t[1], t[3], t[4], t[5]))
    num = {}
    for i, (nid, idxseq, data, fpos, out, pos) in enumerate(parsed):
        if idxseq not in g.obs:
            raise RuntimeError('no observation table printed for index content %r' % (idxseq,))
        if data != datas[idxseq]:
            raise RuntimeError('state with idx %r has data %r, table was printed for %r' % (idxseq, data, datas[idxseq]))
        num[nid] = i
        g.nodes.append((idxseq, fpos, out, pos))
    if len(num) != len(parsed):
        raise RuntimeError('duplicate node ids in dump')
    g.adj = [[] for _ in g.nodes]
    for a, b, act, args in edges:
        if a not in num:
            raise RuntimeError('edge from unknown node')
        if b not in num:
            continue                # successor outside the CONSTRAINT of the configuration: not explored
        g.adj[num[a]].append((act, args, num[b]))
    for lst in g.adj:
        lst.sort()
        for i in range(1, len(lst)):
            if lst[i][:2] == lst[i - 1][:2] and lst[i][2] != lst[i - 1][2]:
                raise RuntimeError('specification is not deterministic per call: %r' % (lst[i][:2],))
    g.adj = [sorted(set(lst)) for lst in g.adj]
    g.edge_count = sum(len(x) for x in g.adj)
    g.init = num[init_id]
    return g


def bfs_paths(g):
    """Shortest call sequence from the initial state to every state (parent pointers)."""
    parent = {g.init: None}
    dq = collections.deque([g.init])
    while dq:
        a = dq.popleft()
        for act, args, b in g.adj[a]:
            if b not in parent:
                parent[b] = (a, act, args)
                dq.append(b)
    if len(parent) != len(g.nodes):
        raise RuntimeError('dumped graph: %d of %d states reachable' % (len(parent), len(g.nodes)))
    return parent


def path_to(parent, n):
    ops = []
    while parent[n] is not None:
        a, act, args = parent[n]
        ops.append((act, args, n))
        n = a
    ops.reverse()
    return ops


# --------------------------------------------------------------------------------------------
# the replayer
# --------------------------------------------------------------------------------------------

_SENT = object()


def _exc_name(e):
    t = type(e)
    return t.__name__ if t.__module__ == 'builtins' else '%s.%s' % (t.__module__, t.__name__)


def _call(fn, *a):
    try:
        return ('val', fn(*a))
    except Exception as e:      # noqa - the class of whatever was raised is the observation
        return ('exc', e)


def _show(r):
    if r[0] == 'exc':
        return 'raises %s' % _exc_name(r[1])
    v = r[1]
    return v.hex() if isinstance(v, bytes) else repr(v)


class Replayer:
    def __init__(self, g, prof, workdir, tag='0'):
        from ZODB.fsIndex import fsIndex
        self.cls = fsIndex
        self.g = g
        self.prof = prof
        self.pf = [bytes.fromhex(x) for x in prof['prefixes']]
        self.sf = [bytes.fromhex(x) for x in prof['suffixes']]
        self.vals = prof['vals']
        self.poss = prof['poss']
        NK = g.consts['NP'] * g.consts['NS']
        self.keys = [None] + [self.key(*g.key_of(n)) for n in range(1, NK + 1)]     # 1-based
        self.kp = [None] + [g.key_of(n)[0] for n in range(1, NK + 1)]
        self.path = os.path.join(workdir, 'index-%s-%d' % (tag, os.getpid()))
        self.tables = {}
        # does the TLC run's case analysis (prefix +/- 1 leaving the 48-bit range) apply to this concretisation?
        self.transcribed = (bool(g.consts['FirstIsZero']) == prof['first_is_zero'] and
                            bool(g.consts['LastIsMax']) == prof['last_is_max'])
        self.queries = 0
        self.agree = {'as_code': 0, 'repaired': 0, 'bound_queries': 0}
        self.ncalls = 0
        self.cov = collections.Counter()
        self.reset()

    def key(self, p, s):
        return self.pf[p] + self.sf[s]

    def reset(self):
        self.ncalls += 1
        self.ix = self.cls() if self.ncalls % 2 else self.cls({})
        return self

    # ---- expected answers, concretised from the table TLC printed ----
    def _tr(self, t):
        """<<"key", p, s>> | <<"none"|exception, -1, -1>>  ->  ('key', bytes) | ('none',) | ('exc', name)"""
        if t[0] == 'key':
            return ('key', self.key(t[1], t[2]))
        if t[0] == 'none':
            return ('none',)
        return ('exc', str(t[0]))

    def table(self, idxseq):
        tb = self.tables.get(idxseq)
        if tb is None:
            o = self.g.obs[idxseq]
            v = lambda m: self.vals[m - 1]
            tb = {
                'len': o['len'],
                'keys': [self.key(p, s) for p, s in o['keys']],
                'items': [(self.key(p, s), v(m)) for p, s, m in o['items']],
                'values': [v(m) for m in o['values']],
                'get': [None] + [None if m == 0 else v(m) for m in o['get']],
                'has': [None] + [bool(b) for b in o['has']],
                'min': self._tr(o['min']), 'max': self._tr(o['max']),
                'minGE': [None] + [self._tr(t) for t in o['minGE']],
                'maxLE': [None] + [self._tr(t) for t in o['maxLE']],
                'minT': self._tr(o['minT']), 'maxT': self._tr(o['maxT']),
                'minGEC': [None] + [self._tr(t) for t in o['minGEC']],
                'maxLEC': [None] + [self._tr(t) for t in o['maxLEC']],
                'minGER': [None] + [self._tr(t) for t in o['minGER']],
                'maxLER': [None] + [self._tr(t) for t in o['maxLER']],
                'prefixes': {p for p, s in o['keys']},
            }
            if not isinstance(tb['len'], int) or isinstance(tb['len'], bool):
                raise RuntimeError('bad table')
            self.tables[idxseq] = tb
        return tb

    # ---- comparison helpers ----
    @staticmethod
    def _kind(r):
        if r[0] == 'val':
            return 'value'
        return 'lookup_error' if isinstance(r[1], LOOKUP) else _exc_name(r[1])

    def _edge(self, n, present):
        if not present:
            return 'none'
        p = self.keys[n][:6]
        return 'first_prefix' if p == P_FIRST else 'last_prefix' if p == P_LAST else 'none'

    def _bound(self, out, op, n, exp, r, tb):
        """one minKey/maxKey answer against the meaning.  exp: ('key', b) | ('none',)"""
        self.queries += 1
        self.cov['bounded' if n is not None else 'unbounded'] += 1
        if n is not None and self.kp[n] not in tb['prefixes']:
            self.cov['bounded_prefix_absent'] += 1
        if exp[0] != 'key':
            self.cov['no_answer'] += 1
        if exp[0] == 'key':
            ok = r[0] == 'val' and r[1] == exp[1]
        else:
            ok = r[0] == 'exc' and isinstance(r[1], LOOKUP)
        if ok:
            return
        present = n is not None and self.kp[n] in tb['prefixes']
        sig = {'op': op, 'bound': n is not None,
               'expected': 'value' if exp[0] == 'key' else 'lookup_error', 'got': self._kind(r)}
        if n is not None:
            sig['prefix_present'] = present
            sig['edge'] = self._edge(n, present)
        out.append({'sig': sig, 'query': '%s(%s)' % (op, '' if n is None else self.keys[n].hex()),
                    'expected': exp[1].hex() if exp[0] == 'key' else 'no such key (ValueError/KeyError)',
                    'got': _show(r), 'state': False})

    def _transcription(self, colC, colR, r):
        """bookkeeping only: which transcription does the code follow?"""
        if not self.transcribed:
            return
        got = ('key', r[1]) if r[0] == 'val' else ('exc', 'ValueError' if isinstance(r[1], LOOKUP) else _exc_name(r[1]))
        self.agree['bound_queries'] += 1
        for name, col in (('as_code', colC), ('repaired', colR)):
            c = ('exc', 'ValueError') if col[0] == 'exc' and col[1] in ('ValueError', 'KeyError') else col
            if c == got:
                self.agree[name] += 1

    def _state(self, out, op, what, exp, got, n=None):
        """anything but minKey/maxKey: outcome of a call (op = the call) or answer of a query (op = the query)"""
        self.queries += 1
        if exp == got:
            return
        kind = lambda v: v[7:] if isinstance(v, str) and v.startswith('raises ') else \
            'absent' if v is None or v is _SENT or v is False else 'lookup_error' if v == 'lookup_error' else 'value'
        if what in ('outcome', 'pos', 'result', 'return'):
            sig = {'op': op, 'what': what}
            if what == 'outcome':
                sig.update(expected=exp, got=got)
        else:
            sig = {'op': what, 'expected': kind(exp), 'got': kind(got)}
        out.append({'sig': sig, 'query': what if n is None else '%s(%s)' % (what, self.keys[n].hex()),
                    'expected': _fmt(exp), 'got': _fmt(got), 'state': True})

    # ---- every query of the class against the table of `idxseq` ----
    def observe(self, idxseq, op='observe'):
        out = []
        ix = self.ix
        tb = self.table(idxseq)
        st = lambda what, exp, r, n=None: self._state(out, op, what, exp, _val(r), n)
        st('len', tb['len'], _call(len, ix))
        st('keys', tb['keys'], _call(ix.keys))
        st('iter', tb['keys'], _call(lambda: list(iter(ix))))
        st('iterkeys', tb['keys'], _call(lambda: list(ix.iterkeys())))
        st('items', tb['items'], _call(ix.items))
        st('iteritems', tb['items'], _call(lambda: list(ix.iteritems())))
        st('values', tb['values'], _call(ix.values))
        st('itervalues', tb['values'], _call(lambda: list(ix.itervalues())))
        for n in range(1, len(self.keys)):
            k = self.keys[n]
            e = tb['get'][n]
            st('get', e, _call(ix.get, k), n)
            st('get_default', _SENT if e is None else e, _call(ix.get, k, _SENT), n)
            st('in', tb['has'][n], _call(ix.__contains__, k), n)
            st('has_key', tb['has'][n], _call(ix.has_key, k), n)
            r = _call(ix.__getitem__, k)
            if e is None:
                self._state(out, op, 'getitem', 'lookup_error', self._kind(r) if r[0] == 'exc' else r[1], n)
            else:
                st('getitem', e, r, n)
        r = _call(ix.minKey)
        self._bound(out, 'minKey', None, tb['min'], r, tb)
        r = _call(ix.maxKey)
        self._bound(out, 'maxKey', None, tb['max'], r, tb)
        for n in range(1, len(self.keys)):
            k = self.keys[n]
            r = _call(ix.minKey, k)
            self._bound(out, 'minKey', n, tb['minGE'][n], r, tb)
            self._transcription(tb['minGEC'][n], tb['minGER'][n], r)
            r = _call(ix.maxKey, k)
            self._bound(out, 'maxKey', n, tb['maxLE'][n], r, tb)
            self._transcription(tb['maxLEC'][n], tb['maxLER'][n], r)
        return out

    # ---- one call ----
    def apply(self, action, args):
        """the real call only -> ('val', x) | ('exc', e)"""
        ix = self.ix
        self.ncalls += 1
        if action == 'Set':
            p, s, v = args
            return _call(ix.__setitem__, self.key(p, s), self.vals[v - 1])
        if action == 'Del':
            p, s = args
            return _call(ix.__delitem__, self.key(p, s))
        if action == 'Clear':
            return _call(ix.clear)
        if action == 'Update':
            u, v = args
            d = {self.key(p, s): self.vals[v - 1] for p, s in self.g.upd[u - 1]}
            how = self.prof.get('update_with', 'dict')
            if how == 'fsIndex':
                other = self.cls()
                for k, x in d.items():
                    other[k] = x
                d = other
            elif how == 'ordered':
                d = collections.OrderedDict(sorted(d.items(), reverse=True))     # a mapping iterating downwards
            return _call(ix.update, d)
        if action == 'Save':
            return _call(ix.save, self.poss[args[0] - 1], self.path)
        if action == 'Load':
            r = _call(self.cls.load, self.path)
            try:
                os.remove(self.path)
            except OSError:
                pass
            return r
        raise RuntimeError('unknown action %s' % action)

    def step(self, action, args, node):
        """call + outcome + every query, against the state `node` the specification reaches"""
        idxseq, fpos, exp_out, exp_pos = self.g.nodes[node]
        out = []
        r = self.apply(action, args)
        if action == 'Load' and r[0] == 'val':
            info = r[1]
            if not isinstance(info, dict) or not isinstance(info.get('index'), self.cls):
                self._state(out, 'Load', 'result', 'dict(pos, index)', repr(type(info)))
            else:
                self._state(out, 'Load', 'pos', self.poss[exp_pos - 1], info.get('pos'))
                self.ix = info['index']
            got = 'ok'
        else:
            got = 'ok' if r[0] == 'val' else self._kind(r)
        want = 'ok' if exp_out == 'ok' else 'lookup_error'
        self._state(out, action, 'outcome', want, got)
        if action in ('Save', 'Set', 'Del', 'Clear', 'Update') and r[0] == 'val' and r[1] is not None:
            self._state(out, action, 'return', None, r[1])
        out.extend(self.observe(idxseq, op=action))
        return out

    def rebuild(self, ops):
        """bring a fresh index to a state by calls only (no observation)"""
        self.reset()
        for act, args, node in ops:
            r = self.apply(act, args)
            if act == 'Load' and r[0] == 'val' and isinstance(r[1], dict) and 'index' in r[1]:
                self.ix = r[1]['index']


def _val(r):
    return r[1] if r[0] == 'val' else 'raises %s' % _exc_name(r[1])


def _fmt(v):
    if v is _SENT:
        return '<default>'
    if isinstance(v, bytes):
        return v.hex()
    if isinstance(v, (list, tuple)):
        return '[' + ', '.join(_fmt(x) for x in v) + ']'
    return repr(v)


def fmt_ops(ops):
    return ['%s(%s)' % (a, ','.join(str(x) for x in args)) for a, args, *_ in ops]


# --------------------------------------------------------------------------------------------
# jobs (run in forked workers; the graph is inherited through the module global)
# --------------------------------------------------------------------------------------------

_G = {}


def publish(name, g, parent):
    _G[name] = (g, parent)


class _Acc:
    """per-signature bookkeeping: count + the example with the shortest call sequence"""

    def __init__(self):
        self.by_sig = {}

    def add(self, mm, ops, prof):
        k = tuple(sorted(mm['sig'].items()))
        ent = self.by_sig.get(k)
        if ent is None:
            ent = self.by_sig[k] = {'sig': mm['sig'], 'count': 0, 'example': None}
        ent['count'] += 1
        ex = ent['example']
        if ex is None or (len(ops), fmt_ops(ops), mm['query']) < (len(ex['ops']), ex['ops'], ex['query']):
            ent['example'] = {'ops': fmt_ops(ops), 'query': mm['query'], 'expected': mm['expected'],
                              'got': mm['got'], 'profile': prof['kind']}

    def merge(self, other):
        for k, e in other.items():
            mine = self.by_sig.get(k)
            if mine is None:
                self.by_sig[k] = e
                continue
            mine['count'] += e['count']
            a, b = mine['example'], e['example']
            if (len(b['ops']), b['ops'], b['query']) < (len(a['ops']), a['ops'], a['query']):
                mine['example'] = b


def edges_job(job):
    """Every edge leaving the states `srcs`: rebuild the source state by its shortest call sequence,
    make the call, compare outcome and all queries."""
    name, prof, srcs, workdir = job
    g, parent = _G[name]
    rp = Replayer(g, prof, workdir)
    acc = _Acc()
    actions = collections.Counter()
    steps = 0
    for src in srcs:
        pre = path_to(parent, src)
        for act, args, dst in g.adj[src]:
            rp.rebuild(pre)
            mms = rp.step(act, args, dst)
            steps += 1
            actions[act] += 1
            if g.nodes[dst][2] != 'ok':
                actions[act + ':' + g.nodes[dst][2]] += 1
            for mm in mms:
                acc.add(mm, pre + [(act, args, dst)], prof)
    return {'steps': steps, 'actions': dict(actions), 'mism': acc.by_sig, 'queries': rp.queries, 'agree': rp.agree,
            'cov': dict(rp.cov)}


def walk_job(job):
    """One long seeded walk through the graph on ONE real object (history effects: buckets created,
    emptied and created again, loaded indexes mutated further), every query after every call."""
    name, prof, seed, length, workdir = job
    g, parent = _G[name]
    rng = random.Random(seed)
    rp = Replayer(g, prof, workdir, tag='w%d' % seed)
    acc = _Acc()
    actions = collections.Counter()
    cur = g.init
    ops = []
    seen = set()
    steps = 0
    maxlen = 0
    for _ in range(length):
        out = g.adj[cur]
        if not out:
            break
        # calls that change the index are preferred over failing deletes / overwriting sets
        moving = [e for e in out if g.nodes[e[2]][0] != g.nodes[cur][0] or e[0] in ('Save', 'Load')]
        act, args, dst = rng.choice(moving if moving and rng.random() < 0.8 else out)
        if act == 'Clear' and rng.random() < 0.7:
            continue
        mms = rp.step(act, args, dst)
        ops.append((act, args, dst))
        steps += 1
        actions[act] += 1
        seen.add(dst)
        maxlen = max(maxlen, g.obs[g.nodes[dst][0]]['len'])
        desync = False
        for mm in mms:
            acc.add(mm, ops, prof)
            desync = desync or mm['state']
        cur = dst
        if desync or len(ops) >= 400:        # keep call sequences replayable; after a divergence start afresh
            rp.reset()
            cur = g.init
            ops = []
    return {'steps': steps, 'actions': dict(actions), 'mism': acc.by_sig, 'queries': rp.queries, 'agree': rp.agree, 'cov': dict(rp.cov),
            'states_seen': len(seen), 'maxlen': maxlen}


def run_ops(g, prof, ops, workdir):
    """Follow a call sequence given as [(action, args)] from the initial state (replay files, TLC
    counterexamples).  -> (mismatches with step numbers, final node)"""
    rp = Replayer(g, prof, workdir, tag='r')
    cur = g.init
    res = []
    done = []
    for i, (act, args) in enumerate(ops):
        nxt = [e for e in g.adj[cur] if e[0] == act and tuple(e[1]) == tuple(args)]
        if len(nxt) != 1:
            raise RuntimeError('call %s%r is not a transition of the specification at step %d' % (act, tuple(args), i))
        act, args, dst = nxt[0]
        done.append((act, args, dst))
        for mm in rp.step(act, args, dst):
            res.append((i, mm, list(done)))
        cur = dst
    return res, cur, rp


# --------------------------------------------------------------------------------------------
# the consumer: FileStorage.record_iternext over sparse oids
# --------------------------------------------------------------------------------------------

def consumer_job(job):
    """For each index content: a FileStorage holding one object per key; record_iternext(next) for
    next = None and every key of the universe, and the whole iteration from None.  Expected oid =
    the table's min / minGE, expected successor = the next element of the table's `keys`."""
    name, prof, idxseqs, workdir = job
    g, parent = _G[name]
    from ZODB.FileStorage import FileStorage
    from ZODB.Connection import TransactionMetaData
    from ZODB.utils import z64
    import shutil
    rp = Replayer(g, prof, workdir, tag='c')
    acc = _Acc()
    calls = 0
    for j, idxseq in enumerate(idxseqs):
        tb = rp.table(idxseq)
        d = os.path.join(workdir, 'fs-%d-%d' % (os.getpid(), j))
        os.makedirs(d)
        st = FileStorage(os.path.join(d, 'Data.fs'))
        try:
            if tb['keys']:
                t = TransactionMetaData()
                st.tpc_begin(t)
                for k in tb['keys']:
                    st.store(k, z64, b'record of ' + k, '', t)
                st.tpc_vote(t)
                st.tpc_finish(t)
            ops = [('Set', (p, s, 1), 0) for p, s in g.obs[idxseq]['keys']]
            succ = {k: (tb['keys'][i + 1] if i + 1 < len(tb['keys']) else None) for i, k in enumerate(tb['keys'])}

            def judge(n, r):
                exp = tb['min'] if n is None else tb['minGE'][n]
                got_oid = ('val', r[1][0]) if r[0] == 'val' else r
                before = len(out)
                rp._bound(out, 'minKey', n, exp, got_oid, tb)
                if len(out) == before and r[0] == 'val':
                    oid, tid, data, nxt = r[1]
                    e2 = succ[oid]
                    if nxt != e2:
                        # next_oid = index.minKey(oid + 1): a bounded query whose prefix is present unless oid+1 carries
                        sig = {'op': 'minKey', 'bound': True, 'prefix_present': True,
                               'edge': 'last_prefix' if oid[:6] == P_LAST else 'first_prefix' if oid[:6] == P_FIRST else 'none',
                               'expected': 'value' if e2 is not None else 'lookup_error',
                               'got': 'value' if nxt is not None else 'lookup_error'}
                        out.append({'sig': sig, 'query': 'minKey(%s+1)' % oid.hex(), 'expected': _fmt(e2), 'got': _fmt(nxt),
                                    'state': False})
                    if data != b'record of ' + oid:
                        out.append({'sig': {'op': 'record_iternext', 'what': 'data'}, 'query': 'data of %s' % oid.hex(),
                                    'expected': 'record of ' + oid.hex(), 'got': repr(data)[:60], 'state': True})
                for mm in out[before:]:
                    mm['query'] = 'record_iternext(%s) -> %s' % ('None' if n is None else rp.keys[n].hex(), mm['query'])
                    mm['sig'] = dict(mm['sig'], via='record_iternext')

            out = []
            for n in [None] + list(range(1, len(rp.keys))):
                r = _call(st.record_iternext, None if n is None else rp.keys[n])
                calls += 1
                judge(n, r)
            # the loop every client of record_iternext runs
            got, nxt, guard = [], None, 0
            if tb['keys']:
                while guard <= len(tb['keys']) + 1:
                    guard += 1
                    r = _call(st.record_iternext, nxt)
                    calls += 1
                    if r[0] == 'exc':
                        got.append('raises ' + _exc_name(r[1]))
                        break
                    got.append(r[1][0])
                    nxt = r[1][3]
                    if nxt is None:
                        break
                if got != tb['keys']:
                    last = got[len(tb['keys']) - 1] if len(got) >= len(tb['keys']) and got[:len(tb['keys'])] == tb['keys'] else None
                    if last is not None:       # ran past the end: the successor query of the last key answered
                        sig = {'op': 'minKey', 'bound': True, 'prefix_present': True, 'via': 'record_iternext',
                               'edge': 'last_prefix' if last[:6] == P_LAST else 'first_prefix' if last[:6] == P_FIRST else 'none',
                               'expected': 'lookup_error', 'got': 'value'}
                    else:
                        sig = {'op': 'record_iternext', 'what': 'iteration'}
                    out.append({'sig': sig, 'query': 'iteration by record_iternext from None', 'expected': _fmt(tb['keys']),
                                'got': _fmt(got), 'state': False})
            for mm in out:
                acc.add(mm, ops, prof)
        finally:
            st.close()
            shutil.rmtree(d, ignore_errors=True)
    return {'mism': acc.by_sig, 'calls': calls, 'storages': len(idxseqs)}
