"""Directed scenarios for ZBlob: the harness writes call sequences, TLC (spec/ZBlobScript.tla) evaluates them with
the actions of the specification and supplies the state after every call; a call the specification does not
enable is skipped by TLC, so nothing here knows the state.  The behaviours are replayed like simulated ones."""
import os
import re
import subprocess
import time

from .. import tlaparse, tlc
from . import blob as bd

JVM_PROPS = ()
JVM_ENV = {'JAVA_TOOL_OPTIONS': '-XX:ParallelGCThreads=2 -XX:CICompilerCount=2'}

# ---- macro operations -> script entries ---------------------------------------------------------------------


def create(c=('a',)):
    return [{'a': 'CreateBlob', 'b': 0, 'c': tuple(c)}]


def rewrite(b, x='a'):
    return [{'a': 'Rewrite', 'b': b, 'x': x}]


def append(b, x='a'):
    return [{'a': 'Append', 'b': b, 'x': x}]


def consume(b, x='a'):
    return [{'a': 'ConsumeFile', 'b': b, 'x': x}]


def consume_fail(b):
    """consumeFile with a source that does not exist"""
    return [{'a': 'ConsumeFail', 'b': b}]


def unlink(b):
    """del root['b<n>']"""
    return [{'a': 'Unlink', 'b': b}]


def relink(b):
    """root['b<n>'] = the Blob object c1 still holds"""
    return [{'a': 'Relink', 'b': b}]


def open_write(b, x='a'):
    """blob.open('w'), write, and the handle stays open"""
    return [{'a': 'OpenWrite', 'b': b, 'x': x}]


def open_read(b):
    return [{'a': 'OpenRead', 'b': b}]


def close_all():
    return [{'a': 'CloseAll'}]


def boundary():
    """transaction.begin() in c1 while it has no changes"""
    return [{'a': 'Boundary'}]


def modify_p(v='v2'):
    return [{'a': 'ModifyP', 'v': v}]


def savepoint():
    return [{'a': 'Savepoint'}]


def rollback(k=1):
    return [{'a': 'Rollback', 'k': k}]


def abort_txn():
    return [{'a': 'AbortTxn'}]


def other(o, x):
    return [{'a': 'OtherCommit', 'o': o, 'x': x}]


def wrong(m):
    """a 2PC call with a foreign transaction (store | storeBlob | tpc_vote | tpc_finish | tpc_abort); enabled while a
    commit is in progress"""
    return [{'a': 'Wrong', 'm': m}]


def other_tpc(b, x, end):
    """the second writer's commit of a rewrite of blob b, aborted or finished, its bookkeeping still to come"""
    return [{'a': 'OtherAbort' if end == 'abort' else 'OtherFinish', 'b': b, 'x': x}]


def late():
    return [{'a': 'Late'}]


def pack(T=0):
    """T <= 0: at the tid of the (last + T)-th committed transaction; T >= 1: at that second"""
    return [{'a': 'Pack', 'T': T}]


_TAIL = [{'a': 'ConnAbort'}, {'a': 'TpcAbort'}]      # skipped unless the commit is still open


def commit(end='finish', begin=None, at=None):
    """a two-phase commit that ends at `end`: finish | begin (abort right after tpc_begin) | store (abort after the
    stores) | vote (abort after the vote).  Whatever the stores yield, the transaction is closed afterwards.
    at: {'begin' | 'store' | 'vote': [entries]} - calls made while the commit is at that phase (wrong(), late())."""
    at = at or {}
    s = [begin or {'a': 'TpcBegin'}] + list(at.get('begin', ()))
    if end == 'begin':
        return s + _TAIL
    s += [{'a': 'Store'}] + list(at.get('store', ()))
    if end == 'store':
        return s + _TAIL
    s += [{'a': 'Vote'}] + list(at.get('vote', ()))
    if end == 'vote':
        return s + [{'a': 'TpcAbort'}] + _TAIL
    return s + [{'a': 'Finish'}] + _TAIL


def undo(t=0, end='finish', at=None):
    return commit(end, begin={'a': 'UBegin', 't': t}, at=at)


def commit_fault():
    """a commit whose first storeBlob meets a failing os.chmod; the transaction is aborted"""
    return [{'a': 'TpcBegin'}, {'a': 'StoreFault'}] + _TAIL


def pack_during(T=0):
    """db.pack while the commit is in progress (use inside commit(at=...))"""
    return [{'a': 'PackDuring', 'T': T}]


def undo_copy_fail(t=0):
    """an undo whose first blob copy meets a failing write; the transaction is aborted"""
    return [{'a': 'UBegin', 't': t}, {'a': 'UStoreCopyFail'}] + _TAIL


# ---- rendering ----------------------------------------------------------------------------------------------
def _tla(v):
    if isinstance(v, bool):
        return 'TRUE' if v else 'FALSE'
    if isinstance(v, int):
        return str(v)
    if isinstance(v, str):
        return '"%s"' % v
    if isinstance(v, (tuple, list)):
        return '<<' + ', '.join(_tla(x) for x in v) + '>>'
    if isinstance(v, dict):
        return '[' + ', '.join('%s |-> %s' % (k, _tla(x)) for k, x in v.items()) + ']'
    raise TypeError(v)


def render(scripts):
    body = ',\n'.join('  << ' + ', '.join(_tla(e) for e in sc) + ' >>' for sc in scripts)
    return '---- MODULE ZBlobScriptData ----\nEXTENDS Integers\nTheScripts == <<\n%s\n>>\n====\n' % body


_NODE = re.compile(r'^(-?\d+) \[label="((?:[^"\\]|\\.)*)"(?:,tooltip="(?:[^"\\]|\\.)*")?(,style = filled)?\]')
_EDGE = re.compile(r'^(-?\d+) -> (-?\d+) \[label="([^"]*)"')
_ARGS = {'CreateBlob': ('b', 'c'), 'Rewrite': ('b', 'x'), 'Append': ('b', 'x'), 'ConsumeFile': ('b', 'x'), 'ConsumeFail': ('b',),
         'ModifyP': ('v',), 'Rollback': ('k',), 'OtherCommit': ('o', 'x'), 'UBegin': ('t',), 'Pack': ('T',),
         'Wrong': ('m',), 'PackDuring': ('T',), 'OpenWrite': ('b', 'x'), 'OpenRead': ('b',), 'Unlink': ('b',), 'Relink': ('b',), 'OtherAbort': ('b', 'x'), 'OtherFinish': ('b', 'x')}


def evaluate(scripts, c, workdir, timeout=600, workers=1):
    """Run TLC over the scripts.  -> ([behaviour per script], TLC summary dict).  A behaviour is a list of steps
    {action, args, state}; skipped calls do not appear."""
    os.makedirs(workdir, exist_ok=True)
    tlc._prepare('ZBlobScript', workdir)
    with open(os.path.join(workdir, 'ZBlobScriptData.tla'), 'w') as f:
        f.write(render(scripts))
    k = dict(bd.tla_consts(c))
    cfg = os.path.join(workdir, 'scripts.cfg')
    tlc.write_cfg(cfg, constants=k, init='SInit', next_='SNext')
    dot = os.path.join(workdir, 'g.dot')
    cmd = tlc._java_cmd(JVM_PROPS) + ['-workers', str(workers), '-metadir', os.path.join(workdir, 'meta'), '-noGenerateSpecTE',
                             '-dump', 'dot,actionlabels', dot, '-config', cfg, os.path.join(workdir, 'ZBlobScript.tla')]
    e = dict(os.environ)
    e.update(JVM_ENV)
    t0 = time.time()
    p = subprocess.run(cmd, cwd=workdir, env=e, stdout=subprocess.PIPE, stderr=subprocess.STDOUT, text=True, timeout=timeout)
    wall = time.time() - t0
    if 'Model checking completed. No error has been found' not in p.stdout:
        raise tlc.TLCError('script evaluation failed:\n' + p.stdout[-3000:])
    m = None
    for m in tlc._RE_STATS.finditer(p.stdout):
        pass
    summary = {'ok': True, 'violation': None, 'states_generated': int(m.group(1)) if m else 0,
               'distinct': int(m.group(2)) if m else 0, 'depth': 0, 'wall_s': round(wall, 2)}
    nodes, succ = {}, {}
    with open(dot) as f:
        for line in f:
            m = _EDGE.match(line)
            if m:
                succ[m.group(1)] = m.group(2)
                continue
            m = _NODE.match(line)
            if m:
                txt = m.group(2).replace('\\n', '\n').replace('\\"', '"').replace('\\\\', '\\')
                nodes[m.group(1)] = (tlaparse.parse_state_block(txt), bool(m.group(3)))
    os.remove(dot)
    behs = {}
    for nid, (st, initial) in nodes.items():
        if not initial:
            continue
        steps = []
        cur = nid
        while cur is not None:
            s = nodes[cur][0]
            act = bd.norm(s['act'])
            if act['a'] != 'Skip':
                steps.append({'action': act['a'], 'args': [act[x] for x in _ARGS.get(act['a'], ())], 'state': s})
            cur = succ.get(cur)
        if int(s['pc']) != len(scripts[int(s['sid']) - 1]) + 1:
            raise tlc.TLCError('script %d stopped at entry %d of %d (a call neither enabled nor skipped): %r' % (
                int(s['sid']), int(s['pc']), len(scripts[int(s['sid']) - 1]), scripts[int(s['sid']) - 1][int(s['pc']) - 1]))
        behs[int(s['sid'])] = steps
    return [behs[i + 1] for i in range(len(scripts))], summary
