"""C08 schedules: one packer with committers, a reader and (sometimes) a second packer on a real FileStorage,
real threads under the cooperative scheduler (switches at lock operations: commit lock hand-over of the packer,
storage lock, reader pool).  Oracle: the commits are put into the order of their tids and TLC evaluates the
script  <initial commits> <concurrent commits> pack(T)  (ZScript over ZStorage); the storage left by the run -
in memory and after reopen - must answer every query like that, and everything a reader saw must be a revision
of the unpacked history."""
import os
import random
import shutil

from .. import clock, concretize as cz, sched
from ..concretize import p64, u64, z64
from . import scripts as sc, storage as sd


def make(rng):
    """scenario description: initial commits (oid 0 root referencing 1..2, garbage oid 3), pack second, concurrent work"""
    init = [[(0, 'v1', (1, 2)), (1, 'v1', ()), (2, 'v1', ()), (3, 'v1', ())],     # second 1
            [(1, 'v2', ()), (3, 'v2', ())],                                      # second 2
            [(2, 'v2', ())]]                                                     # second 3 (after the pack time 2)
    if rng.random() < 0.5:
        init.append([(1, 'v1', ())])
    # before / between the initial commits, or "to now" (at or after the last one present when the pack starts)
    packsec = rng.choice((1, 2, 2, len(init), len(init)))
    gc = rng.random() < 0.7
    committers = []
    for i in range(rng.randint(1, 2)):
        committers.append({'oid': 4 + i, 'n': rng.randint(1, 3), 'touch': rng.choice((None, 1, 2))})
    return {'init': init, 'packsec': packsec, 'gc': gc, 'committers': committers, 'reader': rng.randint(2, 6),
            'second_packer': rng.random() < 0.3, 'third_packer': rng.random() < 0.15,
            'lister': rng.choice((0, 0, 1, 2)), 'reader2': rng.random() < 0.4, 'pad': rng.choice((0, 0, 9000))}


def run(job):
    scen, seed, workdir, kw = job
    from ZODB.FileStorage import FileStorage
    from ZODB.FileStorage.FileStorage import FileStorageError
    from ZODB.POSException import UndoError
    from ZODB.serialize import referencesf
    sched.install()
    sched.S = None
    from .. import faultfs
    if kw and kw.get('yield_io'):
        # file-I/O granularity: every raw read/write on the data and .pack files is a yield point as well
        faultfs.install()
        faultfs.reset(workdir)
        faultfs.YIELD_IO = True
    else:
        faultfs.YIELD_IO = False
        faultfs.S.enabled = False
    kw = {k: v for k, v in (kw or {}).items() if k != 'yield_io'}
    plan = kw.pop('plan', None)
    order = kw.pop('order', None)
    c = sd.consts('file', NOid=6, MaxTxn=20, MaxRecs=5, MaxClock=8, AtomVals=('v1', 'v2'), RefSets='AllRefs', Cls='MCClsPlain')
    rc = dict(c, Cls=sd.cls_map(c))
    rp = sd.StorageReplayer('file', rc, workdir, dict({'fs_kw': {'blob_dir': os.path.join(workdir, 'blobs')}} if scen.get('blob_dir') else {},
                                                      pad=scen.get('pad', 0)))
    out = {'scen': scen, 'seed': seed, 'errors': {}, 'reads': [], 'commits': [], 'outcome': None, 'obs': None, 'obs_reopen': None,
           'pack_outcomes': []}
    try:
        rp.open()
        st = rp.st
        serial = {}
        # an admitted pack runs the storage's packer: record when (packs must never run side by side)
        default_packer = st.packer
        out['pack_windows'] = []

        def traced_packer(storage, referencesf_, stop, gc_):
            me = sched.S.me() if sched.S is not None else 'main'
            out['pack_windows'].append(('admitted', me))
            try:
                return default_packer(storage, referencesf_, stop, gc_)
            finally:
                out['pack_windows'].append(('done', me))
        st.packer = traced_packer

        def commit(stores, clk):
            clock.CLOCK.set(clk)
            t = rp._txn()
            st.tpc_begin(t)
            for o, v, refs in stores:
                st.store(p64(o), serial.get(o, z64), rp.data(o, {'v': (v,), 'refs': frozenset(refs)}), '', t)
            st.tpc_vote(t)
            tid = st.tpc_finish(t)
            for o, v, refs in stores:
                serial[o] = tid
            return tid
        for i, stores in enumerate(scen['init']):
            out['commits'].append((rp.tids.model(commit(stores, i + 1)), [list(s) for s in stores], i + 1))
        clk_now = len(scen['init']) + 1
        clock.CLOCK.set(clk_now)
        if plan is not None:
            Sc = sched.S = sched.Plan(plan, order)
        else:
            Sc = sched.S = sched.Sched(seed, **(kw or {}))

        def packer(name):
            def body():
                try:
                    st.pack(clock.T0 + scen['packsec'] + 0.5, referencesf, gc=scen['gc'])
                    out['pack_outcomes'].append((name, 'returned'))
                except FileStorageError as ex:
                    out['pack_outcomes'].append((name, 'FileStorageError:' + str(ex)[:40]))
            return body

        def committer(spec):
            def body():
                ser = z64
                for k in range(spec['n']):
                    t = rp._txn()
                    st.tpc_begin(t)
                    stores = [(spec['oid'], 'v1' if k % 2 == 0 else 'v2', ())]
                    st.store(p64(spec['oid']), ser, rp.data(spec['oid'], {'v': (stores[0][1],), 'refs': frozenset()}), '', t)
                    st.tpc_vote(t)
                    tid = st.tpc_finish(t)
                    ser = tid
                    out['commits'].append((rp.tids.model(tid), [list(s) for s in stores], clk_now))
            return body

        def reader():
            r = random.Random(seed)
            for _ in range(scen['reader']):
                o = r.choice((0, 1, 2, 4, 5))
                try:
                    if _ % 2:
                        data, s = st.load(p64(o), '')
                    else:
                        x = st.loadBefore(p64(o), b'\x7f' + b'\xff' * 7)
                        if x is None:
                            raise KeyError(o)
                        data, s = x[0], x[1]
                    out['reads'].append((o, rp.tids.model(s), sd.norm(cz.datum_of(data))['v']))
                except KeyError:
                    out['reads'].append((o, None, None))
                Sc.yield_('reader')
        def lister():
            # a reader of the other kind: iteration, undo log, last invalidations (no loads)
            for k in range(scen.get('lister', 0)):
                tids = [rp.tids.model(t.tid) for t in st.iterator()]
                if tids != sorted(tids) or len(set(tids)) != len(tids):
                    raise AssertionError('iterator listed %r' % (tids,))
                out['listed'].append(tids)
                Sc.yield_('lister')
                try:
                    st.undoLog(0, 30)
                except UndoError as ex:
                    # the storage refuses the undo log while it is being packed, by design ("Undo is currently
                    # disabled for database maintenance"): a refusal, not a failure
                    if 'disabled for database maintenance' not in str(ex):
                        raise
                Sc.yield_('lister')
                st.lastInvalidations(3)
                Sc.yield_('lister')
        out['listed'] = []
        if scen.get('lister'):
            Sc.spawn('lister', lister)
        Sc.spawn('packer', packer('packer'))
        for i, spec in enumerate(scen['committers']):
            Sc.spawn('committer%d' % i, committer(spec))
        Sc.spawn('reader', reader)
        if scen.get('reader2'):
            Sc.spawn('reader2', reader)          # two loads in flight: more than one file in the read pool
        if scen['second_packer']:
            Sc.spawn('packer2', packer('packer2'))
        if scen.get('third_packer'):
            Sc.spawn('packer3', packer('packer3'))
        out['outcome'] = Sc.go(timeout=60)
        sched.S = None
        out['errors'] = {k: '%s: %s' % (type(v).__name__, str(v)[:200]) for k, v in Sc.errors.items()}
        out['switches'] = sum(1 for a, b in zip(Sc.choices, Sc.choices[1:]) if a != b)
        out['yields'] = dict(getattr(Sc, 'yields', {}))
        if out['outcome'] == 'ok' and not out['errors']:
            try:
                out['obs'] = observe(rp)
                # ... and through every other file of the read pool (a pooled file left open on the pre-pack file
                # is only reached while the ones above it are in use)
                with st._files.get():
                    o2 = observe(rp)
                    with st._files.get():
                        o3 = observe(rp)
                if o2 != out['obs'] or o3 != out['obs']:
                    out['errors']['final-queries'] = 'AssertionError: a pooled read file answers differently from the first one'
                st.close()
                rp.open(create=False)
                out['obs_reopen'] = observe(rp)
            except Exception as ex:        # the storage left by the run cannot even be queried: an outcome, not a crash
                out['errors']['final-queries'] = '%s: %s' % (type(ex).__name__, str(ex)[:160])
    finally:
        sched.S = None
        faultfs.YIELD_IO = False
        rp.close()
    return out


def observe(rp):
    """everything the storage answers, keyed by model tids derived from what it lists"""
    st = rp.st
    tids = [rp.tids.model(t.tid) for t in st.iterator()]
    bounds = sorted({0, 1} | {x for t in tids for x in (t - 1, t, t + 1)})
    skel = {'lb': {o: {b: None for b in bounds} for o in range(rp.noid)},
            'ser': {o: {t: None for t in tids} for o in range(rp.noid)}}
    return rp.observe(skel)


def script_for(out):
    """the serial equivalent: all commits in tid order, then the pack"""
    s = []
    for tid, stores, clk in sorted(out['commits'], key=lambda x: x[0]):
        s += sc.commit([tuple(x[:2]) + (tuple(x[2]),) for x in stores], clk=clk)
    s += sc.pack(out['scen']['packsec'], out['scen']['gc'])
    return s


def judge(out, beh):
    """compare with the TLC-evaluated serial equivalent; returns list of (signature, description)"""
    v = []
    final = beh[-1]['state']
    hist = sd.norm(final['hist'])
    mo_full = sd.norm(final['obs'])
    # the state before the pack: everything a reader may have seen
    prepack = None
    for stp in beh:
        if stp['action'] == 'Pack':
            break
        prepack = stp['state']
    unpacked = sd.norm(prepack['obs'])
    if beh[-1]['action'] != 'Pack':
        v.append(({'kind': 'sched', 'what': 'script-not-evaluated'}, 'the serial equivalent could not be evaluated to its end by TLC'))
        return v
    running = None
    for what, who in out.get('pack_windows', ()):
        if what == 'admitted':
            if running is not None:
                v.append(({'kind': 'sched', 'what': 'packs-side-by-side'},
                          'the pack requested by %s was admitted while the pack of %s was still running' % (who, running)))
                break
            running = who
        elif who == running:
            running = None
    for o, s, val in out['reads']:
        if s is None:
            if unpacked['cur'].get(o, {}).get('k') == 'rev' and o in (0, 1, 2):
                v.append(({'kind': 'sched', 'what': 'reader-error'}, 'reader got KeyError for object %d which exists in every state' % o))
            continue
        row = unpacked['ser'].get(o, {})
        if s not in dict(row) or dict(row)[s].get('k') != 'rev' or tuple(dict(row)[s]['d']['v']) != tuple(val):
            v.append(({'kind': 'sched', 'what': 'reader-wrong-state'}, 'reader saw object %d serial %r value %r: not a committed revision' % (o, s, val)))
    rp = sd.StorageReplayer('file', {'K': 32, 'NOid': 6, 'Cls': {}}, '/nonexistent', {})
    for label in ('obs', 'obs_reopen'):
        real = out[label]
        if real is None:
            continue
        rp.st = None
        mo = _filtered(mo_full, hist)
        mm = []
        real2 = {k: real[k] for k in real}
        # restrict the real observation to the questions the filtered model table answers
        for key in ('lb', 'ser'):
            real2[key] = {o: {t: a for t, a in real[key][o].items() if t in dict(mo[key].get(o, {}))} for o in real[key]}
            mo[key] = {o: {t: a for t, a in dict(row).items() if t in real[key].get(o, {})} for o, row in mo[key].items()}
        missing = [t['tid'] for t in hist if t['tid'] not in [x['tid'] for x in real['iter']]]
        if missing:
            what = 'commit-lost'
        else:
            what = 'final-state'
        mo['last'] = real2['last']          # _ltid is not recomputed by a pack (see ZStorage.ltid)
        mo.pop('linv', None)
        mo.pop('riter', None)
        for k in ('itf', 'itt', 'ulw'):
            mo.pop(k, None)
        sd.diff('obs', mo, real2, mm)
        if mm:
            v.append(({'kind': 'sched', 'what': what, 'when': 'in-memory' if label == 'obs' else 'after-reopen'},
                      '%s state differs from pack(serial history): %s' % (label, '; '.join(mm[:3]))))
    return v


def _filtered(mo, hist):
    vis = {}
    for t in hist:
        for r in t['recs']:
            x = vis.setdefault(r['oid'], {'p': None, 'u': set()})
            if t['status'] == 'p':
                x['p'] = t['tid']
            else:
                x['u'].add(t['tid'])
    visible = {o: (x['u'] | ({x['p']} if x['p'] is not None else set())) for o, x in vis.items()}
    mo = dict(mo)
    if any(t['status'] == 'p' for t in hist):
        mo['lb'] = {o: {t: a for t, a in dict(row).items() if not (a['k'] == 'rev' and a['serial'] not in visible.get(o, ()))}
                    for o, row in mo['lb'].items()}
        mo['ser'] = {o: {t: a for t, a in dict(row).items() if a['k'] != 'rev' or t in visible.get(o, ())} for o, row in mo['ser'].items()}
        mo['revs'] = {o: tuple(t for t in row if t in visible.get(o, ())) for o, row in mo['revs'].items()}
    else:
        mo['lb'] = {o: dict(row) for o, row in mo['lb'].items()}
        mo['ser'] = {o: dict(row) for o, row in mo['ser'].items()}
    return mo
