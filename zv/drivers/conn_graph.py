"""The state graph TLC dumped for ZConn (`-dump dot,actionlabels`) and a plan that replays its transitions.

The real state (objects in memory, a Connection, a storage) cannot be checkpointed, so the plan is a set of
*tours*: paths from the initial state.  A tour follows transitions that no tour has taken yet for as long as
it can, walks over a few already covered ones to the nearest state that still has untaken transitions when
it gets stuck, and ends (outside a commit) when nothing untaken is near or it is long enough; the next tour
starts with the shortest path to the shallowest state with untaken transitions.  Every transition of the
graph is in at least one tour (or, with a budget, a seeded sample of them)."""
import collections
import os
import random
import re

from .. import tlaparse
from . import conn as cd

_NODE = re.compile(r'^(-?\d+) \[label="((?:[^"\\]|\\.)*)"')
_EDGE = re.compile(r'^(-?\d+) -> (-?\d+) \[label="((?:[^"\\]|\\.)*)"')
_ESC = re.compile(r'\\(.)')
_PC = re.compile(r'pc \|-> \\"(\w+)\\"')

CURRENT = None       # the graph the forked replay workers read (set before par.pmap)
TOURS = None


def _unescape(s):
    return _ESC.sub(lambda m: '\n' if m.group(1) == 'n' else m.group(1), s)


class Graph:
    def __init__(self):
        self.raw = {}        # node id -> escaped label
        self.out = {}        # node id -> [(label, dst)]
        self.init = None
        self.nedges = 0
        self._parsed = collections.OrderedDict()

    def state(self, n):
        s = self._parsed.get(n)
        if s is None:
            s = tlaparse.parse_state_block(_unescape(self.raw[n]))
            self._parsed[n] = s
            if len(self._parsed) > 6000:
                self._parsed.popitem(last=False)
        return s

    def idle(self, n):
        m = _PC.search(self.raw[n])
        if not m:
            raise RuntimeError('state without pc: %s' % self.raw[n][:200])
        return m.group(1) == 'idle'


def load(path):
    g = Graph()
    seen = set()
    with open(path) as f:
        for line in f:
            if not line or line[0] not in '-0123456789':
                continue
            m = _EDGE.match(line)
            if m:
                a, b, lab = int(m.group(1)), int(m.group(2)), _unescape(m.group(3))
                if (a, b, lab) not in seen:
                    seen.add((a, b, lab))
                    g.out.setdefault(a, []).append((lab, b))
                    g.nedges += 1
                continue
            m = _NODE.match(line)
            if m:
                n = int(m.group(1))
                if n not in g.raw:
                    g.raw[n] = m.group(2)
                    if g.init is None:
                        g.init = n
    if g.init is None:
        raise RuntimeError('no state in %s' % path)
    for n in g.raw:
        g.out.setdefault(n, [])
    for a, es in g.out.items():
        if a not in g.raw:
            raise RuntimeError('edge from unknown state %s' % a)
        es.sort()
        for _lab, b in es:
            if b not in g.raw:
                raise RuntimeError('edge to unknown state %s' % b)
    return g


def plan(g, seed, cap=250, budget=None, near=8):
    """-> (tours, stats); a tour is [(label, node)], starting at the successor of the initial state"""
    rng = random.Random(seed)
    order = sorted(g.out)                      # fingerprints are stable for a fixed -fp: the plan depends on the seed only
    untaken = {}
    for n in order:
        es = list(range(len(g.out[n])))
        rng.shuffle(es)
        # transitions into states without successors are taken last (pop() takes from the end): a tour ends there
        es.sort(key=lambda i: 0 if not g.out[g.out[n][i][1]] else 1)
        untaken[n] = es
    # shortest-path tree from the initial state
    parent = {g.init: None}
    depth = {g.init: 0}
    q = collections.deque([g.init])
    while q:
        u = q.popleft()
        for lab, v in g.out[u]:
            if v not in parent:
                parent[v] = (u, lab)
                depth[v] = depth[u] + 1
                q.append(v)
    if len(parent) != len(g.raw):
        raise RuntimeError('%d states of the dump are not reachable from the initial one' % (len(g.raw) - len(parent)))
    by_depth = sorted(order, key=lambda n: (depth[n], n))
    ptr = 0
    remaining = g.nedges
    tours = []
    steps = 0

    def prefix(u):
        p = []
        while parent[u] is not None:
            pu, lab = parent[u]
            p.append((lab, u))
            u = pu
        p.reverse()
        return p

    def nearest(u):
        """path over taken transitions to the nearest state with untaken ones, within `near` steps"""
        seen = {u: None}
        frontier = [u]
        for _d in range(near):
            nxt = []
            for x in frontier:
                for lab, v in g.out[x]:
                    if v in seen:
                        continue
                    seen[v] = (x, lab)
                    if untaken[v]:
                        p = []
                        while seen[v] is not None:
                            px, pl = seen[v]
                            p.append((pl, v))
                            v = px
                        p.reverse()
                        return p
                    nxt.append(v)
            frontier = nxt
            if not frontier or len(seen) > 3000:
                break
        return None

    def to_idle(u):
        seen = {u: None}
        q2 = collections.deque([u])
        while q2:
            x = q2.popleft()
            if g.idle(x):
                p = []
                while seen[x] is not None:
                    px, pl = seen[x]
                    p.append((pl, x))
                    x = px
                p.reverse()
                return p
            for lab, v in g.out[x]:
                if v not in seen:
                    seen[v] = (x, lab)
                    q2.append(v)
        raise RuntimeError('a commit that cannot end')

    while remaining > 0 and (budget is None or steps < budget):
        while ptr < len(by_depth) and not untaken[by_depth[ptr]]:
            ptr += 1
        if ptr >= len(by_depth):
            break
        cur = by_depth[ptr]
        tour = prefix(cur)
        while True:
            es = untaken[cur]
            if es:
                lab, v = g.out[cur][es.pop()]
                remaining -= 1
                tour.append((lab, v))
                cur = v
            else:
                p = nearest(cur)
                if p is None:
                    break
                tour.extend(p)
                cur = p[-1][1]
            if len(tour) >= cap and g.idle(cur):
                break
        if not g.idle(cur):
            for lab, v in to_idle(cur):
                # transitions walked to get out of a commit count as taken when they were not
                idx = [i for i in untaken[cur] if g.out[cur][i] == (lab, v)]
                if idx:
                    untaken[cur].remove(idx[0])
                    remaining -= 1
                tour.append((lab, v))
                cur = v
        tours.append(tour)
        steps += len(tour)
    stats = {'states': len(g.raw), 'transitions': g.nedges, 'transitions_planned': g.nedges - remaining, 'tours': len(tours),
             'tour_steps': steps, 'sampled': remaining > 0, 'max_depth': max(depth.values())}
    return tours, stats


def replay_tours(job):
    """(list of tour indices, consts, workdir, [opts per tour]) -> list of results; runs in a forked worker"""
    idxs, c, workdir, optlist = job
    g = CURRENT
    out = []
    init = g.state(g.init)
    for ti, opts in zip(idxs, optlist):
        tour = TOURS[ti]
        steps = [{'action': 'Init', 'args': [], 'state': init}]
        for lab, n in tour:
            a, args = cd.split_label(lab)
            steps.append({'action': a, 'args': args, 'state': g.state(n)})
        r = cd.replay_path((steps, c, opts['kind'], os.path.join(workdir, 't%d' % ti), opts))
        r['tour'] = ti
        r['length'] = len(tour)
        r['edges'] = [(lab, n) for lab, n in tour[:r['steps']]] if r['mismatch'] else None
        out.append(r)
    return out


def replay_files(job):
    """(behaviour files written by `tlc -simulate`, consts, workdir, [opts per file]) -> list of results"""
    files, c, workdir, optlist = job
    out = []
    for i, (f, opts) in enumerate(zip(files, optlist)):
        steps = tlaparse.parse_simulate_file(f)
        os.remove(f)
        r = cd.replay_path((steps, c, opts['kind'], os.path.join(workdir, 'b%d' % i), opts))
        r['tour'] = None
        r['length'] = len(steps) - 1
        r['_steps'] = steps if (r['mismatch'] or r['monitor']) else None
        out.append(r)
    return out
