"""C02 binding (spec -> code, schedules): a TLC behaviour of ZMvcc is turned into one program per model
connection plus the expected order of events; the scheduler's director policy runs, at every yield point, the
thread that owns the next expected event, so the real threads follow the interleaving TLC chose (rare ones
included).  The run is recorded and validated like every other trace."""
import os
import shutil

from .. import sched
from . import mvcc


def programs_of(beh):
    """beh: parsed TLC behaviour (steps with action/args).  -> ({conn: [ops]}, expected event list)"""
    prog = {}
    expected = []
    for st in beh:
        a = st['action']
        args = [str(x) for x in st['args']]
        if a == 'Init':
            continue
        c = args[0]
        p = prog.setdefault(c, [])
        if a in ('OpenNew', 'OpenPooled'):
            p.append(('open',))
            expected.append(('Open', c, None))
        elif a == 'Close':
            p.append(('close',))
            expected.append(('Close', c, None))
        elif a == 'PollRead':
            p.append(('begin',))
            expected.append(('PollRead', c, None))
        elif a == 'PollApply':
            expected.append(('PollApply', c, None))
        elif a == 'Read':
            p.append(('read', args[1]))
            expected.append(('Read', c, args[1]))
        elif a == 'Write':
            p.append(('write', args[1]))
            expected.append(('Write', c, args[1]))
        elif a == 'AbortTxn':
            p.append(('abort',))
            expected.append(('AbortTxn', c, None))
        elif a == 'BeginVote':
            p.append(('commit',))
            expected.append(('BeginVote', c, None))
        elif a == 'FinishStart':
            expected.append(('FinishStart', c, None))
        elif a == 'Deliver':
            expected.append(('Deliver', c, args[1]))
        elif a == 'Publish':
            expected.append(('Publish', c, None))
    return prog, expected


def scenario(job):
    kind, beh, workdir = job
    import transaction
    import ZODB
    from ZODB.FileStorage import FileStorage
    from ZODB.MappingStorage import MappingStorage
    from ZODB.POSException import ConflictError
    from ZODB.tests.MinPO import MinPO
    from ZODB.utils import p64, u64
    prog, expected = programs_of(beh)
    mvcc.install()
    sched.install()
    sched.S = None
    mvcc.conn_name.clear()
    mvcc.conn_names_by_conn.clear()
    mvcc.name_of_oid.clear()
    mvcc.fresh.clear()
    mvcc.counter[0] = 0
    mvcc.ctx.recording = False
    shutil.rmtree(workdir, ignore_errors=True)
    os.makedirs(workdir)
    storage = FileStorage(os.path.join(workdir, 'Data.fs')) if kind == 'file' else MappingStorage()
    db0 = ZODB.DB(storage)
    tm0 = transaction.TransactionManager()
    c0 = db0.open(tm0)
    c0.root()['x'] = MinPO(0)
    c0.root()['y'] = MinPO(0)
    tm0.commit()
    mvcc.name_of_oid[c0.root()['x']._p_oid] = 'x'
    mvcc.name_of_oid[c0.root()['y']._p_oid] = 'y'
    init_tid = storage.lastTransaction().hex()
    c0.close()
    db = ZODB.DB(storage, pool_size=4)
    # the model starts with an empty pool and no registered instance: drop the connection DB.__init__ pooled
    for c in list(db.pool):
        db.pool.pop()
        c._release_resources()
    # model connection -> real connection name: by order of first opening
    order = []
    for name, c, arg in expected:
        if name == 'Open' and c not in order:
            order.append(c)
    real_of = {c: 'c%d' % (i + 1) for i, c in enumerate(order)}
    thread_of = {c: 't_' + c for c in prog}

    def matcher(name, c, arg):
        rc = real_of.get(c, c)

        def m(ev):
            if name == 'Open':
                # whichever real connection the pool hands to this thread now plays the model connection
                if ev['ev'] == 'Open' and ev.get('thread') == thread_of[c]:
                    real_of[c] = ev['conn']
                    return True
                return False
            if name == 'AbortTxn' and ev['ev'] == 'AbortDone' and ev.get('thread') == thread_of[c]:
                return True       # a transaction that never joined ends without Connection.abort being called
            if ev['ev'] != name or ev.get('conn') != real_of.get(c, c):
                return False
            if name in ('Read', 'Write'):
                return ev.get('oid') == arg
            if name == 'Deliver':
                return ev.get('to') == real_of.get(arg, arg)
            return True
        return m
    exp = [{'match': matcher(n, c, a), 'thread': thread_of[c], 'what': (n, c, a)} for n, c, a in expected]
    D = sched.S = sched.Directed(exp, thread_of)

    def mk(cname, ops):
        def body():
            mvcc.ctx.recording = True
            tm = transaction.TransactionManager()
            tm.explicit = True
            c = None
            in_txn = False
            for op in ops:
                try:
                    if op[0] == 'open':
                        c = db.open(tm)
                    elif op[0] == 'close':
                        if in_txn:
                            tm.abort()
                            in_txn = False
                        c.close()
                        c = None
                    elif op[0] == 'begin':
                        if in_txn:
                            tm.abort()
                        tm.begin()
                        in_txn = True
                    elif op[0] == 'read':
                        _ = c.root()[op[1]].value
                    elif op[0] == 'write':
                        c.root()[op[1]].value += 1
                    elif op[0] == 'abort':
                        n0 = len(D.events)
                        tm.abort()
                        in_txn = False
                        if not any(e['ev'] == 'AbortTxn' for e in D.events[n0:]):
                            D.emit(ev='AbortDone', conn='-')
                    elif op[0] == 'commit':
                        try:
                            tm.commit()
                        except ConflictError:
                            tm.abort()
                        in_txn = False
                except ConflictError:
                    tm.abort()
                    in_txn = False
            if in_txn:
                tm.abort()
            if c is not None:
                c.close()
        return body
    for cname, ops in prog.items():
        D.spawn(thread_of[cname], mk(cname, ops))
    outcome = D.go()
    sched.S = None
    events = list(D.events)
    errs = {k: '%s: %s' % (type(v).__name__, str(v)[:200]) for k, v in D.errors.items()}
    try:
        db.close()
    except Exception:
        pass
    shutil.rmtree(workdir, ignore_errors=True)

    def at(starthex):
        return p64(u64(bytes.fromhex(starthex)) - 1).hex()
    tids = {init_tid}
    for e in events:
        for k in ('tid', 'polled', 'serial'):
            if k in e:
                tids.add(e[k])
        if 'start' in e:
            tids.add(at(e['start']))
        if 'cache' in e:
            tids.update(e['cache'].values())
    rank = {t: i + 1 for i, t in enumerate(sorted(tids))}
    out = []
    for e in events:
        if e['ev'] == 'AbortDone':
            continue          # director bookkeeping only, not part of the trace
        e = {k: v for k, v in e.items() if k not in ('seq', 'step')}
        for k in ('tid', 'polled', 'serial'):
            if k in e:
                e[k] = rank[e[k]]
        if 'start' in e:
            e['start'] = rank[at(e['start'])]
        if 'cache' in e:
            e['cache'] = {o: rank[v] for o, v in e['cache'].items()}
        out.append(e)
    return {'trace': out, 'outcome': outcome, 'errors': errs, 'kind': kind, 'expected': len(expected), 'matched': D.matched,
            'programs': {k: v for k, v in prog.items()}, 'seed': 0, 'commits': sum(1 for e in out if e['ev'] == 'Publish'),
            'switches': sum(1 for a, b in zip(D.choices, D.choices[1:]) if a != b)}
