"""The state graph TLC dumped for ZRepozo (`-dump dot,actionlabels`) and a plan that replays all of it.

Damage(t, kind) transitions lead to states without successors and are undone by the driver after they
were observed, so the replay walks the other transitions only and *probes* every Damage transition of
a state when it first gets there.  The walk is a depth-first traversal of a spanning tree of the graph
with checkpoints (the driver copies the source and repository directories before it descends into a
branch and puts them back afterwards), so every transition is performed exactly once per plan (plus
the short prefixes that lead the parallel jobs to their subtrees).  A state's queries (recovery as of
every run, both verifications) are made when the plan first reaches it; a transition into a state the
plan reached earlier is performed and checked (decision, directory, new file, index, .dat, recovery as
of now) but not followed."""
import hashlib
import random
import re

from .. import tlaparse
from . import repozo as rd

_NODE = re.compile(r'^(-?\d+) \[label="((?:[^"\\]|\\.)*)"')
_EDGE = re.compile(r'^(-?\d+) -> (-?\d+) \[label="((?:[^"\\]|\\.)*)"')
_ESC = re.compile(r'\\(.)')

CURRENT = None       # the graph the forked replay workers read (set before par.pmap)


def _unescape(s):
    return _ESC.sub(lambda m: '\n' if m.group(1) == 'n' else m.group(1), s)


class LazyState(dict):
    """A TLC state whose variables are parsed when first read (obs and files are large, most steps need src only)."""

    def __init__(self, text):
        dict.__init__(self)
        self._raw = {}
        cur = None
        for line in text.split('\n'):
            if line.startswith('/\\ '):
                name, _, rest = line[3:].partition(' = ')
                cur = name
                self._raw[cur] = [rest]
            elif cur is not None:
                self._raw[cur].append(line)

    def __missing__(self, k):
        v = tlaparse.parse_value('\n'.join(self._raw[k]))
        self[k] = v
        return v

    def __contains__(self, k):
        return k in self._raw

    def full(self):
        for k in self._raw:
            self[k]
        return dict(self)


class Graph:
    def __init__(self):
        self.raw = {}        # node id -> escaped label
        self.out = {}        # node id -> [(label, dst)]
        self.init = None
        self.nedges = 0
        self._parsed = {}

    def state(self, n):
        s = self._parsed.get(n)
        if s is None:
            s = LazyState(_unescape(self.raw[n]))
            if len(self._parsed) > 4000:
                self._parsed.clear()
            self._parsed[n] = s
        return s


def load(path):
    g = Graph()
    seen = set()
    with open(path) as f:
        for line in f:
            if not line or line[0] not in '-0123456789':
                continue
            m = _EDGE.match(line)
            if m:
                a, b, lab = int(m.group(1)), int(m.group(2)), _unescape(m.group(3))
                if (a, b, lab) not in seen:
                    seen.add((a, b, lab))
                    g.out.setdefault(a, []).append((lab, b))
                    g.nedges += 1
                continue
            m = _NODE.match(line)
            if m:
                n = int(m.group(1))
                if n not in g.raw:
                    g.raw[n] = m.group(2)
                    if g.init is None:
                        g.init = n
    if g.init is None:
        raise RuntimeError('no state in %s' % path)
    for n in g.raw:
        g.out.setdefault(n, [])
    for a, es in g.out.items():
        if a not in g.raw:
            raise RuntimeError('edge from unknown state %s' % a)
        for lab, b in es:
            if b not in g.raw:
                raise RuntimeError('edge to unknown state %s' % b)
    return g


def split_label(lab):
    m = re.match(r'^(\w+)(?:\((.*)\))?$', lab, re.S)
    if not m:
        raise RuntimeError('cannot read transition label %r' % lab)
    return m.group(1), tlaparse._split_args(m.group(2))


class Plan:
    """A spanning tree of the step transitions (Damage transitions hang off their states as probes) cut into jobs:
    the top of the tree down to `cut`, and one job per tree node at depth `cut` (prefix + its whole subtree).
    Every transition is performed once (plus the prefixes); a transition to a state reached earlier in the plan is
    performed and checked but not followed."""

    def __init__(self):
        self.children = {}    # node -> [(label, child, follow)]
        self.probes = {}      # node -> [(label, damaged state)]
        self.depth = {}
        self.jobs = []        # (prefix [(label, node)], root, limit depth or None, size)
        self.stats = {}


def plan(g, seed, min_jobs=64, keep=None):
    """keep: fraction of the subtree jobs to replay (seeded sample), None = all."""
    rng = random.Random(seed)
    pl = Plan()
    step = {}
    for n in sorted(g.out):        # fingerprints are stable for a fixed -fp: the plan depends on the seed only
        es = g.out[n]
        st = sorted(e for e in es if not e[0].startswith('Damage'))
        rng.shuffle(st)
        step[n] = st
        pl.probes[n] = sorted(e for e in es if e[0].startswith('Damage'))
    # depth-first spanning tree (iterative)
    parent = {g.init: None}
    pl.depth[g.init] = 0
    stack = [g.init]
    order = []
    while stack:
        u = stack.pop()
        order.append(u)
        ch = []
        for lab, v in step[u]:
            if v not in parent:
                parent[v] = (u, lab)
                pl.depth[v] = pl.depth[u] + 1
                ch.append((lab, v, True))
                stack.append(v)
            else:
                ch.append((lab, v, False))
        pl.children[u] = ch
    size = {}
    for u in reversed(order):
        size[u] = 1 + len(pl.probes[u]) + sum((size[v] if f else 1) for _l, v, f in pl.children[u])
    by_depth = {}
    for u in order:
        by_depth.setdefault(pl.depth[u], []).append(u)
    cut = 0
    while cut + 1 in by_depth and len(by_depth[cut]) < min_jobs:
        cut += 1

    def prefix(u):
        p = []
        while parent[u] is not None:
            pu, lab = parent[u]
            p.append((lab, u))
            u = pu
        p.reverse()
        return p
    roots = list(by_depth[cut]) if cut > 0 else []
    sampled = False
    if keep is not None and roots and keep < 1.0:
        k = max(1, int(len(roots) * keep))
        roots = sorted(rng.sample(roots, k))
        sampled = True
    if cut > 0:
        pl.jobs.append(([], g.init, cut, sum(1 for u in order if pl.depth[u] < cut)))
        for u in roots:
            pl.jobs.append((prefix(u), u, None, size[u]))
    else:
        pl.jobs.append(([], g.init, None, size[g.init]))
    pl.jobs.sort(key=lambda j: -j[3])
    nsteps = sum(len(v) for v in step.values())
    ndmg = sum(len(v) for v in pl.probes.values())
    pl.stats = {'states': len(g.raw), 'transitions': g.nedges, 'step_transitions': nsteps, 'damage_transitions': ndmg,
                'step_states': len(order), 'jobs': len(pl.jobs), 'cut_depth': cut, 'sampled': sampled}
    return pl


CURRENT_PLAN = None


def replay_tree(job):
    """(job index, workdir, opts) -> result of the session; runs in a forked worker, reads CURRENT / CURRENT_PLAN."""
    ji, workdir, opts = job
    g, pl = CURRENT, CURRENT_PLAN
    prefix, root, limit, _size = pl.jobs[ji]
    se = rd.Session(workdir, opts, g.state(g.init))
    leaves = []          # (hash of the action sequence, non-trivial?)
    cover = {'step': 0, 'damage': 0, 'states': 0}

    def leaf(nprobed):
        labs = se.labels()
        nb = sum(1 for x in labs if x.startswith('Backup'))
        h = hashlib.sha1('|'.join(labs).encode()).hexdigest()[:16]
        leaves.append((h, nb >= 2 or (nb >= 1 and nprobed > 0)))
        if len(labs) >= 5 and nb >= 2 and len(se.res.setdefault('samples', [])) < 2:
            se.res['samples'].append(labs)

    def visit(n, nprobed):
        """the real state is state n, reached for the first time in the plan: queries, probes, then the subtree"""
        cover['states'] += 1
        se.observe(g.state(n))
        for lab, dn in pl.probes[n]:
            a, args = split_label(lab)
            se.probe(args, g.state(dn))
            cover['damage'] += 1
            nprobed += 1
        ch = pl.children[n]
        stop = limit is not None and pl.depth[n] + 1 >= limit
        if not ch:
            leaf(nprobed)
            return
        depth = len(se.trail)
        for i, (lab, v, follow) in enumerate(ch):
            last = i == len(ch) - 1
            snap = None if last else se.rp.snapshot(depth)
            a, args = split_label(lab)
            ok = se.step(a, args, g.state(v))
            cover['step'] += 1
            if ok and follow and not stop:
                visit(v, nprobed)
            elif not (ok and follow):
                leaf(nprobed)
            del se.trail[depth:]
            if snap is not None:
                se.rp.restore(snap)

    try:
        ok = True
        for lab, n in prefix:
            a, args = split_label(lab)
            if not se.step(a, args, g.state(n)):
                ok = False
                break
        if ok:
            visit(root, 0)
    finally:
        res = se.close()
    res['leaves'] = leaves
    res['cover'] = cover
    return res
