"""Replay of ZRepozo behaviours on the real repozo functions (spec -> code).

The source is a real FileStorage driven by the same behaviour (one transaction = one chunk, every
transaction the same number of bytes; a voted, unfinished transaction is the in-progress tail);
Backup(o) is one call of repozo.do_backup (or repozo.main) with the option combination o, the
queries the specification prints with every state (`obs`: recovery as of every date, full and quick
verification) are real calls of do_recover / do_verify, Damage(t, kind) removes / truncates / alters
one backup file (and is undone after it was observed).

Two kinds of comparison, kept apart in the reports:
  conformance  the repository directory, the decision of the run, the outcome and the bytes of every
               recovery and verification equal what TLC printed for that state (model of the code)
  property     what C18 demands (`want` / `must`, computed by TLC from the ghost history only) holds
               of the real outcome: recovered bytes are compared with the snapshot this driver took
               of the committed part of the data file when the backup ran, the restored index with a
               scan of the recovered file, a backup file with the committed part at backup time.
"""
import gzip
import hashlib
import os
import random
import re
import shutil
import struct
import time as _time

from .. import clock, concretize as cz, env
from ..concretize import p64, norm

B0 = 1273795200          # 2010-05-14 00:00:00 UTC: clock second 0 (midnight: every truncated date form can name it)
EXT = ('deltafs', 'deltafsz', 'fs', 'fsz')     # rank of a data file's kind = position in name order
DATA_RE = re.compile(r'^(\d{4}(?:-\d\d){5})\.(deltafsz|deltafs|fsz|fs)$')
OPT_NAMES = ('full', 'quick', 'gzip', 'killold')


def opt_bits(o):
    return {'full': bool(o & 1), 'quick': bool(o & 2), 'gzip': bool(o & 4), 'killold': bool(o & 8)}


class RepozoTime(clock.FakeTime):
    """`time` as seen by ZODB.scripts.repozo: gmtime() without argument is the harness clock."""

    def __init__(self):
        clock.FakeTime.__init__(self)
        self.wall = float(B0)

    def gmtime(self, secs=None):
        return _time.gmtime(self.wall if secs is None else secs)

    def time(self):
        return self.wall


RTIME = RepozoTime()


class _OsNoSync:
    """`os` as seen by repozo, fsync being a no-op (durability is not part of C18; an fsync costs 5 ms here)."""

    def __init__(self, real):
        self._real = real

    def fsync(self, fd):
        return None

    def __getattr__(self, name):
        return getattr(self._real, name)


def install():
    """Harness-side substitutions; fails loudly when a name it replaces is gone."""
    clock.install()
    rz = env.mod('ZODB.scripts.repozo')
    fsm = env.mod('ZODB.FileStorage.FileStorage')
    if not (isinstance(rz.time, clock.FakeTime) or rz.time is _time):
        raise RuntimeError('repozo.time is not the time module')
    rz.time = RTIME
    if not (rz.os is os or isinstance(rz.os, _OsNoSync)):
        raise RuntimeError('repozo.os is not the os module')
    if not isinstance(rz.os, _OsNoSync):
        rz.os = _OsNoSync(os)
    if not hasattr(fsm, 'fsync'):
        raise RuntimeError('FileStorage module has no fsync global')
    fsm.fsync = None          # FileStorage._finish_finish: "if fsync is not None"
    for name in ('do_backup', 'do_recover', 'do_verify', 'main', 'NoFiles', 'RepozoError'):
        if not hasattr(rz, name):
            raise RuntimeError('repozo lacks %s' % name)
    return rz


class Options:
    mode = None
    file = None
    repository = None
    full = False
    date = None
    output = None
    quick = False
    gzip = False
    killold = False
    withverify = False


def stamp(secs):
    return _time.strftime('%Y-%m-%d-%H-%M-%S', _time.gmtime(secs))


class Mismatch(Exception):
    def __init__(self, kind, sig, text):
        Exception.__init__(self, text)
        self.kind = kind          # 'conformance' | 'property'
        self.sig = sig
        self.text = text


class RepozoReplayer:
    def __init__(self, workdir, opts=None):
        self.opts = dict(opts or {})
        self.rng = random.Random(self.opts.get('rng_seed', 0))
        self.dir = workdir
        self.srcdir = os.path.join(workdir, 'src')
        self.repo = os.path.join(workdir, 'repo')
        self.outdir = os.path.join(workdir, 'out')
        self.side = os.path.join(workdir, 'side')
        self.path = os.path.join(self.srcdir, 'Data.fs')
        self.pad = self.opts.get('pad', 0)
        self.via_main = self.opts.get('via_main', False)
        self.lenient = self.opts.get('lenient', False)   # go on after a conformance divergence (used to find out
                                                         # which setting of the deviation constants matches the tree)
        self.step_s = self.opts.get('time_step', 60)
        self.rz = env.mod('ZODB.scripts.repozo')
        self.st = None
        self.t = None             # the voted transaction
        self.clk = 0
        self.serial = cz.z64
        self.secs = []            # clock second of every committed transaction in the file
        self.chunks = {}          # model chunk id -> bytes
        self.S = None
        self.snaps = {}           # run -> bytes of the committed part when the run started
        self.scan_cache = {}
        self.known_files = set()
        self.index_cache = {}
        self.opens_cache = {}
        self.counts = {'backup': 0, 'recover': 0, 'verify': 0, 'damage': 0, 'index': 0, 'restore': 0}
        self._ncache = {}
        self.msrc = ()            # the model's chunk sequence after the last source step
        self.relearned = []       # the data file changed where the model says it did not (see source_step)
        self.found = []           # property violations met so far (the replay goes on)
        self.tainted = False      # a recovery of the intact repository already failed the property on this path:
                                  # later recoveries are consequences, only conformance is judged for them

    # ---- lifecycle -------------------------------------------------------
    def open(self, init_state):
        from ZODB.FileStorage import FileStorage
        shutil.rmtree(self.dir, ignore_errors=True)
        for d in (self.srcdir, self.repo, self.outdir, self.side):
            os.makedirs(d)
        self.st = FileStorage(self.path, pack_keep_old=False)
        self.data = cz.make_record('plain', ('v1',), frozenset(), pad=self.pad)
        src = norm(init_state['src'])
        if len(src) != 1:
            raise RuntimeError('initial state must have one committed chunk')
        self._vote()
        self._finish()
        size = os.path.getsize(self.path)
        self.S = size - 4
        self.chunks[src[0]] = self._read(0, size)
        self.msrc = tuple(src)
        self.magic = self.chunks[src[0]][:4]
        self.committed = size
        self._check_source(init_state)

    def close(self):
        try:
            if self.t is not None:
                self.st.tpc_abort(self.t)
        except Exception:
            pass
        try:
            self.st.close()
        except Exception:
            pass
        shutil.rmtree(self.dir, ignore_errors=True)

    # ---- source ------------------------------------------------------------
    def _read(self, a, b):
        with open(self.path, 'rb') as f:
            f.seek(a)
            return f.read(b - a)

    def off(self, k):
        return 0 if k == 0 else 4 + k * self.S

    def cat(self, ids):
        return b''.join(self.chunks[i] for i in ids)

    def _vote(self):
        from ZODB.Connection import TransactionMetaData
        self.clk += 1
        clock.CLOCK.set(self.clk)
        t = TransactionMetaData()
        self.st.tpc_begin(t)
        self.st.store(p64(0), self.serial, self.data, '', t)
        self.st.tpc_vote(t)
        self.t = t

    def _finish(self):
        self.serial = self.st.tpc_finish(self.t)
        self.t = None
        self.secs.append(self.clk)

    def _check_source(self, state):
        """The real data file is the model's chunk sequence.  The committed end is the driver's own (the size of
        the file when the last tpc_finish / pack returned), not something the storage under test reports."""
        src = self._n(state, 'src')
        size = os.path.getsize(self.path)
        want = self.off(len(src) + (1 if state['tail'] else 0))
        if size != want:
            raise Mismatch('conformance', {'clause': 'source', 'what': 'size'},
                           'source file is %d bytes, the model has %d (src %r tail %r)' % (size, want, src, state['tail']))
        if self.committed != self.off(len(src)):
            raise Mismatch('conformance', {'clause': 'source', 'what': 'committed-end'},
                           'committed end %d, the model has %d' % (self.committed, self.off(len(src))))
        if self._read(0, self.committed) != self.cat(src):
            raise Mismatch('conformance', {'clause': 'source', 'what': 'bytes'}, 'source bytes are not the chunks the model names')

    def source_step(self, action, args, state):
        src = self._n(state, 'src')
        try:
            self._source_call(action, args, state, src)
        except Mismatch:
            raise
        except Exception as e:       # the storage under test refused / failed: an outcome the model does not have
            raise Mismatch('conformance', {'clause': 'source', 'what': 'exception', 'action': action, 'impl': type(e).__name__},
                           '%s raised %s: %s' % (action, type(e).__name__, e))
        self.msrc = tuple(src)
        self._check_source(state)

    def _source_call(self, action, args, state, src):
        if action == 'Commit':
            if self.t is None:
                self._vote()
            a = self.committed
            self._finish()
            self.committed = os.path.getsize(self.path)
            self.chunks[src[-1]] = self._read(a, self.committed)
        elif action == 'BeginTail':
            self._vote()
        elif action == 'AbortTail':
            self.st.tpc_abort(self.t)
            self.t = None
            self.clk += 1         # the aborted tid is never reused
        elif action == 'Pack':
            from ZODB.serialize import referencesf
            k = args[0]           # pack time just after the k-th transaction of the file: frees the k-1 before it
            dec = self._n(state, 'res')['dec']
            before = self._read(0, self.committed)
            self.st.pack(clock.T0 + self.secs[k - 1] + 0.5, referencesf)
            self.secs = self.secs[k - 1:]
            self.committed = os.path.getsize(self.path)
            if self.committed != self.off(len(src)):
                raise Mismatch('conformance', {'clause': 'source', 'what': 'pack-size'},
                               'Pack(%d) left %d bytes, the model has %d' % (k, self.committed, self.off(len(src))))
            after = self._read(0, self.committed)
            for i, c in enumerate(src):
                real = after[self.off(i):self.off(i + 1)]
                same_place = before[self.off(i):self.off(i + 1)]
                if i < len(self.msrc) and self.msrc[i] == c:
                    # the model: this chunk is where and what it was
                    if real != self.chunks[c]:
                        # ... but the file changed there.  The data file is what it is (the property speaks of the
                        # real bytes); the replay goes on with the chunk's new bytes and says so in what it reports
                        self.chunks[c] = real
                        self.relearned.append('Pack(%d) (%s in the model) changed bytes of transaction %d of the data file'
                                              % (k, dec, i + 1))
                else:
                    self.chunks[c] = real
                    if dec == 'freed' and real == same_place:
                        # the model's "every chunk gets a fresh identity" after a pack that freed something
                        raise Mismatch('conformance', {'clause': 'source', 'what': 'pack-kept-bytes'},
                                       'Pack(%d) left transaction %d byte-identical in place: the model gives it a new identity' % (k, i + 1))
        else:
            raise RuntimeError('unknown source action %s' % action)

    # ---- time ----------------------------------------------------------------
    def run_time(self, t):
        return B0 + t * self.step_s

    # ---- calling repozo ------------------------------------------------------
    def _call(self, mode, **kw):
        """One repozo call, either through main(argv) or through do_* with an options object.
        -> (outcome, exception or None); outcome 'ok' | 'nofiles' | 'error'"""
        rz = self.rz
        now = kw.pop('now')
        RTIME.wall = float(now)
        if self.via_main:
            argv = [{'backup': '-B', 'recover': '-R', 'verify': '-V'}[mode], '-r', self.repo]
            if mode == 'backup':
                argv += ['-f', self.path]
                for name, flag in (('full', '-F'), ('quick', '-Q'), ('gzip', '-z'), ('killold', '-k')):
                    if kw.get(name):
                        argv.append(flag if self.rng.random() < 0.5 else
                                    {'-F': '--full', '-Q': '--quick', '-z': '--gzip', '-k': '--kill-old-on-full'}[flag])
            elif mode == 'recover':
                argv += ['-o', kw['output']]
                if kw.get('date'):
                    argv += ['-D', kw['date']]
                if kw.get('withverify'):
                    argv.append('-w')
            else:
                if kw.get('quick'):
                    argv.append('-Q')
            try:
                rz.main(argv)
                return 'ok', None
            except SystemExit as e:
                msg = str(e.code)
                if e.code in (None, 0):
                    return 'ok', None
                return ('nofiles' if msg.startswith('No files in repository') else 'error'), e
            except Exception as e:
                return 'error', e
        o = Options()
        o.mode = {'backup': rz.BACKUP, 'recover': rz.RECOVER, 'verify': rz.VERIFY}[mode]
        o.repository = self.repo
        o.test_now = _time.gmtime(now)[:6]
        for k, v in kw.items():
            setattr(o, k, v)
        if mode == 'backup':
            o.file = self.path
        try:
            {'backup': rz.do_backup, 'recover': rz.do_recover, 'verify': rz.do_verify}[mode](o)
            return 'ok', None
        except rz.NoFiles as e:
            return 'nofiles', e
        except Exception as e:
            return 'error', e

    # ---- the repository as the model sees it ------------------------------------
    def stamp_t(self, stamp):
        t, r = divmod(_calendar(stamp) - B0, self.step_s)
        return t if r == 0 else ('odd', stamp)

    def name_of(self, t, r):
        return '%s.%s' % (stamp(self.run_time(t)), EXT[r] if r < 4 else 'index')

    def listing(self):
        """-> ({(t, rank): name} of the data files, {t: name} of the .index files, {t: name} of the .dat files)"""
        data, idx, dats = {}, {}, {}
        for name in os.listdir(self.repo):
            m = DATA_RE.match(name)
            if m:
                data[(self.stamp_t(m.group(1)), EXT.index(m.group(2)))] = name
            elif name.endswith('.index'):
                idx[self.stamp_t(name[:-6])] = name
            elif name.endswith('.dat'):
                dats[self.stamp_t(name[:-4])] = name
        return data, idx, dats

    def _content(self, name):
        p = os.path.join(self.repo, name)
        if name.endswith('z'):
            with gzip.open(p, 'rb') as f:
                return f.read()
        with open(p, 'rb') as f:
            return f.read()

    def describe(self, data):
        """bytes -> readable chunk sequence (for messages only)"""
        inv = {v: k for k, v in self.chunks.items()}
        out = []
        pos = 0
        while pos < len(data):
            n = self.S + (4 if data[pos:pos + 4] == self.magic else 0)
            c = inv.get(data[pos:pos + n])
            out.append(c if c is not None else '?%d' % len(data[pos:pos + n]))
            pos += n
        return tuple(out)

    def _n(self, state, key):
        """normalised variable of a parsed state (cached: obs is read many times per state)"""
        ent = self._ncache.get((id(state), key))
        if ent is None or ent[0] is not state:
            if len(self._ncache) > 48:
                self._ncache.clear()
            ent = (state, norm(state[key]))
            self._ncache[(id(state), key)] = ent
        return ent[1]

    def _prop(self, sig, text):
        if self.relearned:
            text += ' [' + '; '.join(self.relearned[-2:]) + ']'
        self.found.append({'kind': 'property', 'sig': sig, 'text': text})

    @staticmethod
    def _rank(f):
        return (2 if f['full'] else 0) + (1 if f['gz'] else 0)

    def check_repo(self, state, new=None, run=None):
        """Directory vs. files / idx / dats (conformance); the new backup file vs. the driver's snapshot (property).
        new = (t, rank) of the data file this run is expected to have written."""
        files = self._n(state, 'files')
        data, idx, dats = self.listing()
        # property first: a backup file holds complete transactions only, from the committed part at backup time
        fresh = [k for k in data if k not in self.known_files]
        for k in fresh:
            name = data[k]
            content = self._content(name)
            snap = self.snaps.get(run, b'')
            if k[1] < 2:
                if not snap.endswith(content):
                    self._prop({'clause': 'backup', 'what': 'incremental-not-committed-bytes'},
                               '%s holds %r which is not the end of the committed part %r' % (
                                   name, self.describe(content), self.describe(snap)))
            elif content != snap:
                self._prop({'clause': 'backup', 'what': 'full-not-committed-part'},
                           '%s holds %d bytes %r, the committed part was %d bytes %r' % (
                               name, len(content), self.describe(content), len(snap), self.describe(snap)))
        self.known_files = set(data)
        want = sorted((f['t'], self._rank(f)) for f in files)
        if want != sorted(data, key=repr):
            raise Mismatch('conformance', {'clause': 'backup', 'what': 'listing'},
                           'repository holds %s, specification %s' % (_fmt_listing(sorted(data, key=repr)), _fmt_listing(want)))
        midx = {e['t']: e['ix'] for e in self._n(state, 'idx')}
        mdat = {e['t']: e['lines'] for e in self._n(state, 'dats')}
        if sorted(midx) != sorted(idx, key=repr):
            raise Mismatch('conformance', {'clause': 'backup', 'what': 'index-files'},
                           'repository holds .index of %r, specification %r' % (sorted(idx, key=repr), sorted(midx)))
        if sorted(mdat) != sorted(dats, key=repr):
            raise Mismatch('conformance', {'clause': 'backup', 'what': 'dat-files'},
                           'repository holds .dat of %r, specification %r' % (sorted(dats, key=repr), sorted(mdat)))
        for f in files:
            k = (f['t'], self._rank(f))
            if new is None or k == new:
                content = self._content(data[k])
                if content != self.cat(f['content']):
                    raise Mismatch('conformance', {'clause': 'backup', 'what': 'content'},
                                   '%s holds %r, specification %r' % (data[k], self.describe(content), tuple(f['content'])))
        for t, ix in midx.items():
            if new is None or t == new[0]:
                bad = self._index_diff(os.path.join(self.repo, idx[t]), ix)
                if bad:
                    raise Mismatch('conformance', {'clause': 'backup', 'what': 'index'}, bad)
        for t, mlines in mdat.items():
            lines = []
            with open(os.path.join(self.repo, dats[t])) as fp:
                for line in fp:
                    fn, a, b, sm = line.split()
                    lines.append((os.path.basename(fn), int(a), int(b), sm))
            wl = [(self.name_of(l['t'], self._rank(l)), self.off(l['s']), self.off(l['e']),
                   hashlib.md5(self.cat(l['sum'])).hexdigest()) for l in mlines]
            if lines != wl:
                raise Mismatch('conformance', {'clause': 'backup', 'what': 'dat'},
                               '%s is %r, specification %r' % (dats[t], [x[:3] for x in lines], [x[:3] for x in wl]))

    def _scan(self, data):
        """(pos, {oid: pos}) of a data file by a full scan (no index file next to it); pos is the scanner's own end
        of the last complete transaction (FileStorage._pos), not what getSize() reports."""
        key = hashlib.md5(data).digest()
        r = self.scan_cache.get(key)
        if r is None:
            from ZODB.FileStorage import FileStorage
            p = os.path.join(self.side, 'scan.fs')
            with open(p, 'wb') as f:
                f.write(data)
            try:
                fs = FileStorage(p, read_only=True)
                try:
                    if fs._pos != len(data):
                        r = ('short', fs._pos)
                    else:
                        r = (fs._pos, dict(fs._index.items()))
                finally:
                    fs.close()
            except Exception as e:
                r = ('unreadable', type(e).__name__)
            self.scan_cache[key] = r
        return r

    def _load_index(self, path):
        from ZODB.fsIndex import fsIndex
        self.counts['index'] += 1
        with open(path, 'rb') as f:
            raw = f.read()
        key = hashlib.md5(raw).digest()
        got = self.index_cache.get(key)
        if got is None:
            try:
                info = fsIndex.load(path)
                got = (info['pos'], dict(info['index'].items()))
            except Exception as e:
                got = ('unreadable', type(e).__name__)
            self.index_cache[key] = got
        return got

    def _index_diff(self, path, ix):
        """conformance: '' when the index file is exactly the index of the chunk sequence ix"""
        got = self._load_index(path)
        want = self._scan(self.cat(ix))
        if got != want:
            return 'index %s is %s, a scan of %r gives %s' % (os.path.basename(path), _short(got), tuple(ix), _short(want))
        return ''

    def _index_unusable(self, path, data):
        """property: '' when the index file describes a prefix of the recovered file (FileStorage reads on from
        there); an index that reaches beyond the file or disagrees with it is not usable"""
        got = self._load_index(path)
        if not isinstance(got[0], int):
            return 'index %s is %s' % (os.path.basename(path), _short(got))
        if got[0] > len(data):
            return 'index %s ends at %d, the recovered file has %d bytes' % (os.path.basename(path), got[0], len(data))
        want = self._scan(data[:got[0]])
        if got != want:
            return 'index %s is %s, a scan of the recovered file up to there gives %s' % (
                os.path.basename(path), _short(got), _short(want))
        return ''

    # ---- actions --------------------------------------------------------------
    def backup_step(self, args, state):
        o = opt_bits(args[0])
        t = state['now']
        res = self._n(state, 'res')
        run = len(self._n(state, 'runs'))          # the number of this run if it was not refused
        self.counts['backup'] += 1
        if len(args) > 1 and args[1] == 0:
            self.counts['same_second'] = self.counts.get('same_second', 0) + 1
        snap = self._read(0, self.committed)
        if res['dec'] != 'refused':
            self.snaps[run] = snap
        else:
            self.snaps[-1] = snap
        before = set(os.listdir(self.repo))
        out, exc = self._call('backup', now=self.run_time(t), **o)
        new = sorted(n for n in set(os.listdir(self.repo)) - before if DATA_RE.match(n))
        if out != 'ok':
            refused = 'Cannot overwrite existing file' in str(exc if not isinstance(exc, SystemExit) else exc.code)
            dec = 'refused' if refused else 'raised'
        else:
            dec = 'nochange' if not new else ('full' if any(n.endswith(('.fs', '.fsz')) for n in new) else 'incr')
        if dec == 'nochange' and res['dec'] == 'full' and o['killold'] and out == 'ok':
            dec = 'full'          # delete_old_backups can remove the file just written (a full backup of the same second
            #                       with a later name stays): what the directory holds is compared below
        if dec != res['dec']:
            if dec in ('full', 'incr'):
                self.snaps.setdefault(run, snap)
                try:
                    self.check_repo(state, run=run if res['dec'] != 'refused' else -1)   # what was written is still judged
                except Mismatch:
                    pass
            raise Mismatch('conformance', {'clause': 'backup', 'what': 'decision',
                                           'spec': res['dec'] + ('/' + res['why'] if res['why'] else ''),
                                           'impl': dec if dec != 'raised' else type(exc).__name__},
                           'backup %r at second %d %s%s, specification %s (%s)' % (
                               o, t, 'decided ' + dec if dec != 'raised' else 'raised', '' if dec != 'raised' else ' %s: %s' % (type(exc).__name__, exc),
                               res['dec'], res['why']))
        expect = None
        if dec in ('full', 'incr') and new:
            expect = (t, (2 if dec == 'full' else 0) + (1 if o['gzip'] else 0))
        self.check_repo(state, new=expect or (t, -1), run=run)
        if 'tmp.tmp' in os.listdir(self.repo):
            raise Mismatch('conformance', {'clause': 'backup', 'what': 'leftover'}, 'tmp.tmp left in the repository')
        # recovery as of now right after every backup: a failure is then reported with the run at fault
        rec = self._n(state, 'obs')['recover']
        if dec != 'refused' and len(rec) >= t:
            self._recover_variant(t, rec[t - 1], 'r', state)

    def short_form(self, secs):
        """The truncated date that names exactly this instant, or None (1 s clock)."""
        if self.step_s % 86400 == 0:
            return _time.strftime('%Y-%m-%d', _time.gmtime(secs))
        if self.step_s % 3600 == 0:
            return _time.strftime('%Y-%m-%d-%H', _time.gmtime(secs))
        if self.step_s % 60 == 0:
            return _time.strftime('%Y-%m-%d-%H-%M', _time.gmtime(secs))
        return None

    def _recover(self, d, state, form='full', withverify=False):
        """do_recover as of clock second d -> (outcome, bytes or None, index path or None, exception)"""
        now_t = state['now']
        self.counts['recover'] += 1
        out_path = os.path.join(self.outdir, 'Data.fs')
        for p in (out_path, out_path + '.index', out_path + '.part'):
            if os.path.exists(p):
                os.remove(p)
        slack = 0 if self.step_s == 1 else self.rng.randrange(self.step_s)
        now = self.run_time(now_t) + self.rng.choice((0, 1, 100000))
        if form == 'short':
            date = self.short_form(self.run_time(d))
            self.counts['short_date'] = self.counts.get('short_date', 0) + 1
        else:
            mode = self.rng.choice(('exact', 'slack', 'none')) if d == now_t else self.rng.choice(('exact', 'slack'))
            if mode == 'none':
                date = None
                if self.step_s > 1:
                    now = self.run_time(now_t) + slack
            elif mode == 'exact':
                date = stamp(self.run_time(d))
            else:
                date = stamp(self.run_time(d) + slack)
        out, exc = self._call('recover', now=now, date=date, output=out_path, withverify=withverify)
        if out != 'ok':
            return out, None, None, exc
        with open(out_path, 'rb') as f:
            data = f.read()
        ip = out_path + '.index'
        return out, data, (ip if os.path.exists(ip) else None), None

    def recover_obs(self, d, x, state, plain_done=False):
        """Recovery as of clock second d in the variants the model tabulates: r (full date form), rw (with -w),
        rs (truncated date form).  An intact repository gets one seeded variant per visit (all of them when the
        replay asks for it), a damaged one the plain and the verifying recovery."""
        dmg = self._n(state, 'dmg')
        intact = dmg['kind'] == 'none'
        short_ok = self.short_form(0) is not None
        if self.opts.get('all_variants'):
            variants = ['r', 'rw'] + (['rs'] if short_ok else [])
        elif intact:
            u = self.rng.random()
            variants = ['rw'] if u < 0.25 else (['rs'] if u < 0.5 and short_ok else ['r'])
        else:
            variants = ['r', 'rw']
        for v in variants:
            if not (plain_done and v == 'r'):
                self._recover_variant(d, x, v, state)

    def _judge(self, out, data, ip, exc, want, where):
        """What the property says about one recovery: None (fine / nothing demanded) or (kind, text)."""
        k = want['k']
        if k not in ('snap', 'snap-or-refuse', 'refuse'):
            return None
        if out != 'ok':
            if k == 'snap':
                return ('refused', '%s failed (%s: %s); the repository holds the backup of run %d' % (
                    where, type(exc).__name__, exc, want['run']))
            return None
        if k == 'refuse':
            return ('wrong-bytes', '%s reported success with %r although no backup can be rebuilt' % (where, self.describe(data)))
        snap = self.snaps[want['run']]
        if snap != self.cat(want['v']):
            raise Mismatch('conformance', {'clause': 'source', 'what': 'snapshot'},
                           'the committed part at run %d was not %r' % (want['run'], want['v']))
        if data != snap:
            return ('wrong-bytes', '%s gave %d bytes %r; the committed part of the data file at run %d was %d bytes %r' % (
                where, len(data), self.describe(data), want['run'], len(snap), self.describe(snap)))
        if want['ix'] == 'any':
            return None
        if ip is None:
            return ('no-index', '%s restored no index' % where)
        t = self._index_unusable(ip, data)
        if t:
            return ('wrong-index', '%s: %s' % (where, t))
        t = self._opens(data)
        if t:
            return ('unusable-index', '%s: %s' % (where, t))
        return None

    def _where(self, d, v):
        return 'recover as of second %d%s%s' % (d, ' (with -w)' if v == 'rw' else '',
                                                ' (date given as %s)' % self.short_form(self.run_time(d)) if v == 'rs' else '')

    def _recover_variant(self, d, x, v, state):
        r, want = x[v], x['want']
        dmg = self._n(state, 'dmg')
        ctx = self._n(state, 'obs')['ctx']
        res = self._n(state, 'res')
        intact = dmg['kind'] == 'none'
        out, data, ip, exc = self._recover(d, state, form='short' if v == 'rs' else 'full', withverify=v == 'rw')
        if dmg['t'] != 0 and v == 'rw':
            self.counts['recover_w_damaged'] = self.counts.get('recover_w_damaged', 0) + 1
        shared = bool(ctx['shared'])
        if intact:
            basis = (res['dec'] + '/' + res['why']) if res['act'] == 'backup' and d == state['now'] else 'earlier-run'
            base = {'clause': 'recover', 'damage': 'none', 'last_run': basis, 'shared_stamp': shared}
        else:
            base = {'clause': 'recover', 'damage': dmg['kind'], 'target': ctx['target'], 'place': ctx['place'],
                    'older_chain': bool(ctx['older']), 'shared_stamp': shared}
        where = self._where(d, v)
        # -- property --
        if not self.tainted:
            bad = self._judge(out, data, ip, exc, want, where)
            if bad and v != 'r' and intact:
                # is it this variant, or is the plain recovery of that date wrong as well?
                po, pd, pip, pe = self._recover(d, state)
                ip = None if ip is None else False            # the output pair on disk is the plain recovery's now
                pbad = self._judge(po, pd, pip, pe, want, self._where(d, 'r'))
                if pbad:
                    self._prop(dict(base, got=pbad[0]), pbad[1])       # reported as the plain recovery's
                    self.tainted = True
                    bad = None
                elif v == 'rw':
                    base['withverify'] = True
                else:
                    base = {'clause': 'recover', 'damage': 'none', 'date': 'short', 'shared_stamp': shared}
            elif bad and v == 'rw':
                base['withverify'] = True
            if bad:
                self._prop(dict(base, got=bad[0]), bad[1])
                if intact and v == 'r':
                    self.tainted = True
        if ip is False:
            return out
        # -- conformance --
        sig = {'clause': 'recover', 'what': 'outcome', 'damage': dmg['kind'], 'variant': v, 'spec': r['out'], 'impl': out}
        # with a file missing, "no files" and any other refusal are the same answer
        coarse = (lambda o: 'refused' if o != 'ok' else o) if not intact else (lambda o: o)
        if coarse(out) != coarse(r['out']):
            raise Mismatch('conformance', sig, '%s: outcome %s (%s), specification %s' % (
                where, out, exc if exc is None else '%s: %s' % (type(exc).__name__, exc), r['out']))
        if out == 'ok':
            if data != self.cat(r['content']):
                raise Mismatch('conformance', dict(sig, what='content', spec='', impl=''),
                               '%s gave %r, specification %r' % (where, self.describe(data), tuple(r['content'])))
            mix = r['ix']
            if bool(mix['has']) != (ip is not None):
                raise Mismatch('conformance', dict(sig, what='index', spec='index' if mix['has'] else 'none', impl='index' if ip else 'none'),
                               '%s restored %s, specification %s' % (where, 'an index' if ip else 'no index', 'an index' if mix['has'] else 'none'))
            if mix['has'] and not mix['bad']:
                t = self._index_diff(ip, mix['v'])
                if t:
                    raise Mismatch('conformance', dict(sig, what='index', spec='', impl=''), '%s: %s' % (where, t))
        return out

    def _opens(self, data):
        """'' when the recovered pair opens as a FileStorage and serves the last committed record."""
        from ZODB.FileStorage import FileStorage
        out_path = os.path.join(self.outdir, 'Data.fs')
        with open(out_path + '.index', 'rb') as f:
            key = (hashlib.md5(data).digest(), hashlib.md5(f.read()).digest())
        r = self.opens_cache.get(key)
        if r is None:
            try:
                fs = FileStorage(out_path, read_only=True)
                try:
                    d, tid = fs.load(p64(0), '')
                    ok = d == self.data and fs._pos == len(data)
                finally:
                    fs.close()
                r = '' if ok else 'recovered file + index open but do not serve the committed state'
            except Exception as e:
                r = 'recovered file + index do not open: %s: %s' % (type(e).__name__, e)
            self.opens_cache[key] = r
        return r

    def verify_obs(self, q, x, state):
        dmg = self._n(state, 'dmg')
        ctx = self._n(state, 'obs')['ctx']
        self.counts['verify'] += 1
        out, exc = self._call('verify', now=self.run_time(state['now']) + self.rng.choice((0, 1, 5000)), quick=bool(q))
        got = 'ok' if out == 'ok' else 'fail'
        base = {'clause': 'verify', 'damage': dmg['kind'], 'target': ctx['target'], 'place': ctx['place'],
                'older_chain': bool(ctx['older']), 'shared_stamp': bool(ctx['shared'])}
        mode = 'quick' if q else 'full'
        if x['must'] != 'any' and got != x['must']:
            if got == 'ok':
                text = '%s verification passed although %s is %s' % (mode, self.name_of(dmg['t'], dmg['r']), dmg['kind'])
            else:
                text = '%s verification of an intact repository failed: %s: %s' % (mode, type(exc).__name__, exc)
            self._prop(dict(base, got='passed' if got == 'ok' else 'failed'), text)
        if x['out'] != 'any' and got != x['out']:
            raise Mismatch('conformance', {'clause': 'verify', 'what': 'outcome', 'damage': dmg['kind'], 'quick': bool(q),
                                           'spec': x['out'], 'impl': got},
                           '%s verification: %s (%s), specification %s' % (mode, got, exc, x['out']))

    def observe(self, state, skip_now=False):
        obs = self._n(state, 'obs')
        rec = obs['recover']
        for d in range(1, len(rec) + 1):
            # the plain recovery as of now was made by backup_step already
            self._query(self.recover_obs, d, rec[d - 1], state, skip_now and d == state['now'])
        ver = obs['verify']
        for q in (False, True):
            self._query(self.verify_obs, q, ver[q], state)

    def _query(self, fn, *args):
        try:
            fn(*args)
        except Mismatch as m:
            if not self.lenient:
                raise
            self.found.append({'kind': m.kind, 'sig': m.sig, 'text': m.text})

    # ---- damage -----------------------------------------------------------------
    def damage(self, args, state):
        """Apply Damage(t, r, kind) - r < 4: the data file of that kind, r = 4: the .index; -> undo function."""
        t, r, kind = args[0], args[1], str(args[2])
        self.counts['damage'] += 1
        name = self.name_of(t, r)
        p = os.path.join(self.repo, name)
        if not os.path.exists(p):
            raise Mismatch('conformance', {'clause': 'damage', 'what': 'no-such-file'}, 'no %s to damage' % name)
        with open(p, 'rb') as f:
            orig = f.read()
        hidden = os.path.join(self.side, name)
        os.rename(p, hidden)

        def undo():
            os.replace(hidden, p)
        if kind == 'missing':
            return undo
        n = len(orig)
        if kind == 'trunc':
            cut = self.rng.choice(sorted({n - 1, n // 2, 0, max(0, n - 8)}))
            new = orig[:cut]
        elif kind == 'alt':
            lo = _gz_header_len(orig) if name.endswith('z') else 0
            pos = self.rng.choice(sorted({lo, (lo + n) // 2, n - 1, max(lo, n - 8), max(lo, n - 4)}))
            new = orig[:pos] + bytes([orig[pos] ^ self.rng.choice((0x01, 0x80, 0xff))]) + orig[pos + 1:]
        else:
            raise RuntimeError('unknown damage %s' % kind)
        with open(p, 'wb') as f:
            f.write(new)
        return undo

    def probe(self, args, state):
        undo = self.damage(args, state)
        try:
            self.observe(state)
        finally:
            undo()

    # ---- checkpoints (tree-shaped replays) ------------------------------------------
    def snapshot(self, slot):
        d = os.path.join(self.side, 'snap-%d' % slot)
        for sub, srcdir in (('src', self.srcdir), ('repo', self.repo)):
            dd = os.path.join(d, sub)
            if os.path.isdir(dd):
                for n in os.listdir(dd):
                    os.remove(os.path.join(dd, n))
            else:
                os.makedirs(dd)
            for n in os.listdir(srcdir):
                if n.endswith('.lock') or n.endswith('.tmp'):
                    continue
                shutil.copyfile(os.path.join(srcdir, n), os.path.join(dd, n))
        return {'dir': d, 'clk': self.clk, 'serial': self.serial, 'secs': list(self.secs), 'chunks': dict(self.chunks),
                'snaps': dict(self.snaps), 'committed': self.committed, 'tail': self.t is not None, 'tainted': self.tainted,
                'msrc': self.msrc, 'relearned': list(self.relearned), 'known_files': set(self.known_files)}

    def restore(self, snap):
        from ZODB.FileStorage import FileStorage
        self.counts['restore'] += 1
        if self.t is not None:
            try:
                self.st.tpc_abort(self.t)
            except Exception:
                pass
            self.t = None
        self.st.close()
        for n in os.listdir(self.srcdir):
            os.remove(os.path.join(self.srcdir, n))
        dd = os.path.join(snap['dir'], 'src')
        for n in os.listdir(dd):
            shutil.copyfile(os.path.join(dd, n), os.path.join(self.srcdir, n))
        # put the repository back: a file whose bytes are still the checkpoint's stays (an .index or .dat can be
        # rewritten in place with the same size by a second run within one clock second, so sizes do not tell)
        dd = os.path.join(snap['dir'], 'repo')
        keep = set(os.listdir(dd))
        for n in os.listdir(self.repo):
            lp = os.path.join(self.repo, n)
            if n in keep and os.path.getsize(lp) == os.path.getsize(os.path.join(dd, n)) and _same_bytes(lp, os.path.join(dd, n)):
                keep.discard(n)
            else:
                os.remove(lp)
        for n in keep:
            shutil.copyfile(os.path.join(dd, n), os.path.join(self.repo, n))
        self.clk = snap['clk']
        self.serial = snap['serial']
        self.secs = list(snap['secs'])
        self.chunks = dict(snap['chunks'])
        self.snaps = dict(snap['snaps'])
        self.committed = snap['committed']
        self.tainted = snap['tainted']
        self.msrc = snap['msrc']
        self.relearned = list(snap['relearned'])
        self.known_files = set(snap['known_files'])
        self.st = FileStorage(self.path, pack_keep_old=False)     # drops the unfinished transaction, if any
        if snap['tail']:
            self.clk -= 1
            self._vote()                                           # ... which is voted again (same tid, same size)
        size = os.path.getsize(self.path)
        if self.st._pos != self.committed or size != self.committed + (self.S if snap['tail'] else 0):
            raise RuntimeError('checkpoint restore: %d/%d bytes, expected %d' % (self.st._pos, size, self.committed))


def _same_bytes(a, b):
    with open(a, 'rb') as fa, open(b, 'rb') as fb:
        return fa.read() == fb.read()


def _gz_header_len(b):
    """Length of the gzip member header (RFC 1952) - altering the header's time stamp changes no content."""
    flg = b[3]
    pos = 10
    if flg & 4:
        pos += 2 + struct.unpack('<H', b[pos:pos + 2])[0]
    if flg & 8:
        pos = b.index(b'\0', pos) + 1
    if flg & 16:
        pos = b.index(b'\0', pos) + 1
    if flg & 2:
        pos += 2
    return pos


def _calendar(s):
    import calendar
    return calendar.timegm(_time.strptime(s, '%Y-%m-%d-%H-%M-%S'))


def _fmt_listing(keys):
    return '{' + ', '.join('%s.%s' % (t, EXT[r]) for t, r in keys) + '}'


def _short(x):
    s = repr(x)
    return s if len(s) < 120 else s[:117] + '...'


SOURCE = ('Commit', 'BeginTail', 'AbortTail', 'Pack')
KEEP = 30            # violations kept with their full replay record per session


def label(action, args):
    return action + ('(%s)' % ','.join(str(x) for x in args) if args else '')


class Session:
    """One replay, linear or tree-shaped: performs steps on a RepozoReplayer and collects what it finds.
    A property violation is recorded and the replay goes on; a conformance divergence is recorded and step()
    answers False (model and code are no longer in the same state: the caller abandons what follows)."""

    def __init__(self, workdir, opts, init_state):
        self.opts = dict(opts)
        self.rp = RepozoReplayer(workdir, opts)
        self.trail = [{'action': 'Init', 'args': [], 'state': init_state}]
        self.res = {'steps': 0, 'observed': 0, 'probed': 0, 'actions': {}, 'features': {}, 'violations': [],
                    'violation_counts': {}, 'opts': dict(opts)}
        self.rp.open(init_state)

    def close(self):
        self.rp.close()
        self.res['counts'] = self.rp.counts
        return self.res

    def _count(self, a):
        self.res['actions'][a] = self.res['actions'].get(a, 0) + 1

    def labels(self):
        return [label(s['action'], s['args']) for s in self.trail[1:]]

    def _record(self, kind, sig, text, probe=None):
        import json
        from ..tlaparse import to_jsonable
        key = json.dumps([kind, sig], sort_keys=True, default=str)
        n = self.res['violation_counts'].get(key, 0)
        self.res['violation_counts'][key] = n + 1
        if n or len(self.res['violations']) >= KEEP:
            return
        def whole(st):
            return to_jsonable(st.full() if hasattr(st, 'full') else st)
        rec = [{'action': s['action'], 'args': to_jsonable(list(s['args'])), 'state': whole(s['state'])} for s in self.trail]
        if probe is not None:
            rec.append({'action': 'Damage', 'args': to_jsonable(list(probe['args'])), 'state': whole(probe['state'])})
        self.res['violations'].append({'kind': kind, 'sig': sig, 'text': text, 'prefix': self.labels(),
                                       'probe': [str(x) for x in probe['args']] if probe else None, 'steps': rec})

    def _drain(self, probe=None):
        for f in self.rp.found:
            self._record(f['kind'], f['sig'], f['text'], probe)
        del self.rp.found[:]

    def step(self, action, args, state):
        self.trail.append({'action': action, 'args': args, 'state': state})
        self.res['steps'] += 1
        self._count(action)
        try:
            if action in SOURCE:
                self.rp.source_step(action, args, state)
            elif action == 'Backup':
                r = self.rp._n(state, 'res')
                k = '%s/%s' % (r['dec'], r['why'])
                self.res['features'][k] = self.res['features'].get(k, 0) + 1
                for f in self._pack_features(r, state):
                    self.res['features'][f] = self.res['features'].get(f, 0) + 1
                if len(args) > 1 and args[1] == 0:
                    f = 'same-second>' + r['dec']
                    self.res['features'][f] = self.res['features'].get(f, 0) + 1
                self.rp.backup_step(args, state)
            else:
                raise RuntimeError('replayer does not know action %s' % action)
        except Mismatch as m:
            self._drain()
            self._record(m.kind, m.sig, m.text)
            return False
        self._drain()
        return True

    def _pack_features(self, r, state):
        """What kind of pack lies between the previous backup run and this one (vacuity control):
        'pack-nothing-freed>quick' is a pack that freed nothing (pack time before anything was garbage), after at
        least one incremental was written, followed by a -Q run that relied on the last backed-up range."""
        packs = []
        for s in reversed(self.trail[:-1]):
            if s['action'] == 'Backup':
                break
            if s['action'] == 'Pack':
                packs.append(self.rp._n(s['state'], 'res')['dec'])
        out = []
        o = self.trail[-1]['args'][0]
        mode = 'forced-full' if o & 1 else ('quick' if o & 2 else 'comparing')      # what kind of run follows the pack
        for d in set(packs):
            out.append('pack-%s>%s' % (d, mode))
        if mode == 'quick' and r['why'] == 'quick-last-range' and set(packs) & {'nothing-freed', 'rewritten'}:
            files = self.rp._n(state, 'files')
            if any(not f['full'] and f['t'] < state['now'] for f in files):
                out.append('pack-nothing-freed-after-incremental>quick')
        return out

    def observe(self, state):
        """The queries of the current state (recovery as of every run, both verifications)."""
        self.res['observed'] += 1
        try:
            self.rp.observe(state, skip_now=self.trail[-1]['action'] == 'Backup' and self.rp._n(state, 'res')['dec'] != 'refused')
        except Mismatch as m:
            self._drain()
            self._record(m.kind, m.sig, m.text)
            return False
        self._drain()
        return True

    def probe(self, args, state):
        """Damage(args) applied to the current state, observed, undone."""
        self.res['probed'] += 1
        self._count('Damage')
        self._count('Damage:' + str(args[2]))
        tg = self.rp._n(state, 'obs')['ctx']['target']
        self.res['features']['damage-' + tg] = self.res['features'].get('damage-' + tg, 0) + 1
        pr = {'args': args, 'state': state}
        try:
            self.rp.probe(args, state)
        except Mismatch as m:
            self._drain(pr)
            self._record(m.kind, m.sig, m.text, pr)
            return False
        self._drain(pr)
        return True


def replay_path(job):
    """job = (steps, workdir, opts); steps = [{action, args, state}], steps[0] the initial state; every state is
    observed; a Damage step ends the behaviour.  -> result dict of the session + 'sig' (the action sequence)."""
    steps, workdir, opts = job
    se = Session(workdir, opts, steps[0]['state'])
    sig = []
    try:
        if se.observe(steps[0]['state']):
            for stp in steps[1:]:
                a, args, state = stp['action'], stp['args'], stp['state']
                sig.append(label(a, args))
                if a in ('Damage', 'DamageNewest'):
                    se.probe(args, state)
                    break
                if not (se.step(a, args, state) and se.observe(state)) and not se.rp.lenient:
                    break
    finally:
        res = se.close()
    res['sig'] = sig
    return res
