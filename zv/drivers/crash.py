"""C01/C09 binding: run a ZStorage behaviour on a real FileStorage over the recording file layer, turn the raw
operation log into a ZFile trace, materialise crash images (every operation boundary, torn writes), reopen each
with the real FileStorage and record what it recovered as a probe event.  TLC (ZFileTrace) then validates the
whole trace: operation order, fsync before acknowledgement, and every probe against the specification."""
import os
import shutil
import struct

from .. import faultfs, tlaparse
from . import storage as sd
from .storage import norm, ALIASES

DATA = 'Data.fs'


def _status_in(e, pos):
    off, data = e['off'], e['data']
    if off <= pos + 16 < off + len(data):
        return chr(data[pos + 16 - off])
    return '-'


def _legacy_index(snapshot_bytes):
    """the same index in the format of older releases: one pickle {'index': dict oid -> pos, 'pos': n}"""
    import pickle
    import tempfile
    from ZODB.fsIndex import fsIndex
    with tempfile.NamedTemporaryFile(suffix='.index') as f:
        f.write(snapshot_bytes)
        f.flush()
        info = fsIndex.load(f.name)
    return pickle.dumps({'index': dict(info['index'].items()), 'pos': info['pos']}, 3)


class Run:
    """One behaviour executed under the recording layer."""

    def __init__(self, beh, c, workdir, opts):
        self.beh = beh
        self.c = c
        self.dir = workdir
        self.opts = opts
        self.commits = []        # model (hist, obs) after k commits, k = 0..
        self.events = []         # ZFile trace
        self.problems = []       # conformance mismatches of the replay itself
        self.index_snaps = []    # (log position, bytes) of every .index the code wrote

    def execute(self):
        rc = dict(self.c, Cls=sd.cls_map(self.c))
        live = os.path.join(self.dir, 'live')
        shutil.rmtree(self.dir, ignore_errors=True)
        os.makedirs(live)
        faultfs.reset(live)
        rp = sd.StorageReplayer('file', rc, live, dict(self.opts))
        rp.path = os.path.join(live, DATA)
        self.rp = rp
        try:
            from ZODB.FileStorage import FileStorage
            rp.st = FileStorage(rp.path)
            self.start = len(faultfs.S.log)
            self.commits.append((norm(self.beh[0]['state']['hist']), self.beh[0]['state']['obs']))
            for i, step in enumerate(self.beh):
                a = ALIASES.get(step['action'], step['action'])
                if a == 'CloseReopen':
                    faultfs.mark('call', action=a, pos=rp.st._pos)
                    rp.st.close()
                    try:
                        rp.st = FileStorage(rp.path)
                    except Exception as ex:       # a reopen that fails is a divergence of the code, not of the machinery
                        self.problems.append({'step': i, 'action': a,
                                              'detail': ['reopen raised %s: %s' % (type(ex).__name__, str(ex)[-120:])]})
                        rp.st = None
                        break
                    faultfs.mark('ret', action=a, ok=True, pos=rp.st._pos)
                    continue
                faultfs.mark('call', action=a, pos=rp.st._pos)
                mm = rp.step(step['action'], step['args'], step['state'])
                faultfs.mark('ret', action=a, ok=not mm and norm(step['state']['res'])['out'] in ('ok', 'resolved'),
                             pos=rp.st._pos)
                if mm:
                    self.problems.append({'step': i, 'action': a, 'detail': mm})
                    break
                if a == 'Finish' or (a == 'Pack' and norm(step['state']['hist']) != self.commits[-1][0]):
                    self.commits.append((norm(step['state']['hist']), step['state']['obs']))
            self.log = list(faultfs.S.log)
        finally:
            faultfs.S.enabled = False
            try:
                if rp.t is not None and rp.st is not None:
                    rp.st.tpc_abort(rp.t)
                if rp.st is not None:
                    rp.st.close()
            except Exception:
                pass

    # ---- raw log -> ZFile events (projection only: offsets, lengths, status bytes, length fields) ----
    def build_events(self, probes):
        ev = []
        pos = 4
        vote = bytearray()
        for i, e in enumerate(self.log):
            if i < self.start:
                continue
            for p in probes.get(('torn', i), ()):
                ev.append(dict({'ev': 'ProbeTorn', 'n': p['n'], 'at': i, 'cut': p['cut']}, **({'ro': p['ro']} if 'ro' in p else {})))
            op = e['op']
            if op == 'mark':
                if e['label'] == 'call':
                    pos = e['pos']
                    if e['action'] == 'Vote':
                        vote = bytearray()
                    if e['action'] == 'Pack':
                        ev.append({'ev': 'PackBegin'})
                elif e['action'] == 'Vote' and e['ok']:
                    if len(vote) >= 23:
                        htl = struct.unpack('>Q', bytes(vote[8:16]))[0]
                        ttl = struct.unpack('>Q', bytes(vote[-8:]))[0]
                    else:
                        htl = ttl = 0
                    ev.append({'ev': 'VoteEnd', 'htl': htl, 'ttl': ttl})
                elif e['action'] == 'Finish' and e['ok']:
                    ev.append({'ev': 'Ack'})
                elif e['action'] == 'Abort':
                    ev.append({'ev': 'AbortDone'})
                elif e['action'] == 'CloseReopen':
                    ev.append({'ev': 'Reopen', 'pos': e['pos']})
                elif e['action'] == 'Pack':
                    for x in ev[::-1]:
                        if x['ev'] == 'PackSwap' and x['pos'] is None:
                            x['pos'] = e['pos']
                            break
                        if x['ev'] != 'Side' and not x['ev'].startswith('Probe'):
                            break
                    ev.append({'ev': 'PackEnd'})
                else:
                    ev.append({'ev': 'Side', 'what': e['action']})
            elif e.get('file') == DATA:
                if op == 'write':
                    if len(e['data']) == 1 and e['off'] == pos + 16:
                        ev.append({'ev': 'Flip', 'off': e['off'], 'st': chr(e['data'][0])})
                    else:
                        ev.append({'ev': 'VoteWrite', 'off': e['off'], 'n': len(e['data']), 'st': _status_in(e, pos)})
                        vote += e['data']
                elif op == 'truncate':
                    ev.append({'ev': 'Truncate', 'size': e['size']})
                elif op == 'fsync':
                    ev.append({'ev': 'Fsync'})
                else:
                    ev.append({'ev': 'Side', 'what': op + ':' + DATA})
            elif op == 'rename' and e.get('dst') == DATA:
                ev.append({'ev': 'PackSwap', 'pos': None})
            else:
                ev.append({'ev': 'Side', 'what': '%s:%s' % (op, e.get('file'))})
            for p in probes.get(('after', i), ()):
                ev.append(dict({'ev': 'Probe', 'n': p['n'], 'at': i}, **({'ro': p['ro']} if 'ro' in p else {})))
            for p in probes.get(('pack', i), ()):
                ev.append({'ev': 'ProbePack', 'n': p['n'], 'at': i, 'after_op': p['after_op'], 'window': p['window']})
            for p in probes.get(('stop', i), ()):
                ev.append({'ev': 'ProbeStop', 'want': p['want'], 'with_index': p['with_index'], 'without_index': p['without_index'], 'at': i})
            for p in probes.get(('index', i), ()):
                ev.append({'ev': 'ProbeIndex', 'n': p['n'], 'at': i, 'snap': p['snap'], 'stale': p['stale'], 'variant': p['variant']})
            for p in probes.get(('ro', i), ()):
                ev.append({'ev': 'ProbeRO', 'n': p['n'], 'at': i, 'modified': p['modified'], 'refused': p['refused'],
                           'variant': p['variant']})
        self.events = ev
        return ev

    # ---- crash images ----
    def cuts(self, torn_mode):
        """yield (kind, log index, cut bytes | None)"""
        for i in range(self.start, len(self.log)):
            e = self.log[i]
            if e['op'] == 'write' and e.get('file') == DATA and len(e['data']) > 1:
                n = len(e['data'])
                if torn_mode == 'all':
                    cs = range(1, n)
                else:
                    cs = sorted({1, 8, 16, 17, 22, 23, 24, n // 2, n - 9, n - 8, n - 1} & set(range(1, n)))
                for c in cs:
                    yield ('torn', i, c)
            if e['op'] != 'mark':
                yield ('after', i, None)

    def recovered(self, imgdir, read_only=False, writes=False, stop=None, want=None, blob_dir=None):
        """Open the image with the real FileStorage; return (n, detail): n = number k such that the recovered
        storage answers every query exactly like the model history after k commits; -1 if none / error."""
        from ZODB.FileStorage import FileStorage
        try:
            st = FileStorage(os.path.join(imgdir, DATA), read_only=read_only, **dict({'stop': stop} if stop is not None else {},
                                                                                     **({'blob_dir': blob_dir} if blob_dir else {})))
        except Exception as ex:
            return [], 'open raised %s: %s' % (type(ex).__name__, str(ex)[:120])
        try:
            if writes:
                self._refused = self._try_writes(st)
            tids = [self.rp.tids.model(t.tid) for t in st.iterator()]
            ks = [j for j, (h, obs) in enumerate(self.commits) if [t['tid'] for t in h] == tids]
            if stop is not None:
                ks = [want]          # time travel: the state as of the wanted version (the iterator lists the whole file)
            if not ks:
                return [], 'recovered transactions %r are not a version of the committed history' % (tids,)
            k = ks[-1]
            rp2 = sd.StorageReplayer('file', dict(self.c, Cls=self.rp.cls), imgdir, {'oid_stride': self.rp.stride, 'only_asked': stop is not None})
            rp2.st = st

            def table(k):
                obs = self.commits[k][1]
                if stop is not None:
                    obs = {k_: v for k_, v in sd.norm(obs).items() if k_ in ('lb', 'cur', 'ser', 'revs', 'last', 'len', 'ulog')}
                elif read_only:
                    # iterator(start) / iterator(None, stop) position themselves with heuristics over the END of the file;
                    # on a file that ends in an incomplete transaction they are not judged (DESIGN 13.4) - the whole
                    # iterator, every load and the undo log are
                    obs = {k_: v for k_, v in sd.norm(obs).items() if k_ not in ('itf', 'itt')}
                return obs
            mm = rp2.compare(table(k), hist=self.commits[k][0])
            if mm and len(ks) > 1:
                for k in ks[:-1]:
                    rp2.st = st
                    mm = rp2.compare(table(k), hist=self.commits[k][0])
                    if not mm:
                        break
            if mm:
                return [], 'recovered state differs from version %d of the history: %s' % (k, '; '.join(mm[:2]))
            # every version with identical content is an acceptable reading
            same = [j for j in ks if self.commits[j][0] == self.commits[k][0]]
            return same, ''
        except Exception as ex:
            return [], 'query raised %s: %s' % (type(ex).__name__, str(ex)[:120])
        finally:
            try:
                st.close()
            except Exception:
                pass

    def probe_all(self, torn_mode='sample'):
        probes = {}
        files = faultfs.materialize(self.log, self.start)
        img = os.path.join(self.dir, 'img')
        details = []
        nimg = 0
        applied = self.start
        for kind, i, cut in self.cuts(torn_mode):
            # bring `files` up to date: all entries before i applied
            while applied < i:
                faultfs.apply_op(files, self.log[applied])
                applied += 1
            if kind == 'torn':
                snap = {k: bytearray(v) for k, v in files.items()}
                faultfs.apply_op(snap, self.log[i], cut)
            else:
                faultfs.apply_op(files, self.log[i])
                applied = i + 1
                snap = files
            shutil.rmtree(img, ignore_errors=True)
            faultfs.write_image({k: v for k, v in snap.items() if k == DATA or k.endswith('.index')}, img)
            ro = None
            if nimg % 3 == 0:
                # a reader opening the same bytes read-only (the writer may still be alive): same committed prefix
                ro, rodetail = self.recovered(img, read_only=True)
                if not ro:
                    details.append({'at': i, 'cut': cut, 'kind': kind + '/read-only', 'detail': rodetail,
                                    'op': {k: (v if k != 'data' else len(v)) for k, v in self.log[i].items()}})
            n, detail = self.recovered(img)
            nimg += 1
            probes.setdefault((kind, i), []).append(dict({'n': n, 'cut': cut}, **({'ro': ro} if ro is not None else {})))
            if not n:
                details.append({'at': i, 'cut': cut, 'kind': kind, 'detail': detail,
                                'op': {k: (v if k != 'data' else len(v)) for k, v in self.log[i].items()}})
        shutil.rmtree(img, ignore_errors=True)
        self.nimages = nimg
        self.probe_details = details
        return probes


    # ---- C09: index snapshots, leftover files, read-only ----
    def probe_c09(self, rng):
        import hashlib
        from ZODB.POSException import ReadOnlyError
        probes = {}
        details = []
        files = faultfs.materialize(self.log, self.start)
        img = os.path.join(self.dir, 'img')
        snaps = []            # (log index, version at that time, bytes)
        version = 0
        nimg = 0
        IDX = DATA + '.index'

        def image(extra):
            shutil.rmtree(img, ignore_errors=True)
            d = {DATA: files.get(DATA, b'')}
            d.update(extra)
            faultfs.write_image(d, img, skip=())

        def dirhash():
            h = hashlib.md5()
            for name in sorted(os.listdir(img)):
                if os.path.isdir(os.path.join(img, name)):
                    h.update(name.encode() + b'/' + repr(sorted(os.listdir(os.path.join(img, name)))).encode())
                    continue
                with open(os.path.join(img, name), 'rb') as f:
                    h.update(name.encode() + b'\0' + f.read() + b'\1')
                h.update(str(os.stat(os.path.join(img, name)).st_mtime_ns).encode())
            return h.hexdigest()

        for i in range(self.start, len(self.log)):
            e = self.log[i]
            if e['op'] != 'mark':
                faultfs.apply_op(files, e)
                if e['op'] == 'rename' and e.get('dst') == IDX:
                    snaps.append((i, version, bytes(files[IDX])))
                if e['op'] == 'rename' and e.get('dst') == DATA:
                    version += 1
                if e['op'] == 'write' and e.get('file') == DATA and len(e['data']) == 1:
                    version += 1
                continue
            if e['label'] != 'ret':
                continue
            # quiescent point (an API call returned): the directory as it is now
            image({})
            n0, det = self.recovered(img)
            nimg += 1
            probes.setdefault(('after', i), []).append({'n': n0})
            if not n0:
                details.append({'at': i, 'kind': 'after', 'detail': det})
            cand = snaps[-3:] + snaps[:1]
            for si, sver, sb in cand:
                for variant, content in (('whole', sb), ('legacy-format', _legacy_index(sb)), ('cut-half', sb[:len(sb) // 2]), ('cut-1', sb[:-1]),
                                         ('cut-quarter', sb[:len(sb) // 4]), ('cut-3quarters', sb[:3 * len(sb) // 4]),
                                         ('cut-12', sb[:-12])):
                    if variant != 'whole' and rng.random() < 0.55:
                        continue
                    extra = {IDX: content}
                    if rng.random() < 0.3:
                        extra.update({DATA + '.tmp': b'junk' * 9, DATA + '.pack': b'FS21' + b'x' * 50, DATA + '.old': b'FS21',
                                      DATA + '.index_tmp': sb[:7], DATA + '.lock': b''})
                        variant += '+leftovers'
                    image(extra)
                    n, det = self.recovered(img)
                    nimg += 1
                    probes.setdefault(('index', i), []).append(
                        {'n': n, 'snap': si, 'variant': variant, 'stale': 'pre-pack' if sver < version and self._packed_between(si, i) else
                         ('older' if si < i - 1 else 'fresh')})
                    if not n:
                        details.append({'at': i, 'kind': 'index', 'snap': si, 'variant': variant, 'detail': det})
            # read-only open of the same directory (with the newest index, or none)
            extra = {IDX: snaps[-1][2]} if snaps and rng.random() < 0.5 else {}
            legacy = bool(extra) and rng.random() < 0.3
            if legacy:
                extra = {IDX: _legacy_index(snaps[-1][2])}       # an index file in the format of older releases
            image(extra)
            before = dirhash()
            # (every third time the storage is told of a blob directory that does not exist: it must not appear)
            robd = os.path.join(img, 'blobs') if nimg % 3 == 1 else None
            n, det = self.recovered(img, read_only=True, writes=True, blob_dir=robd)
            refused = self._refused
            after = dirhash()
            nimg += 1
            probes.setdefault(('ro', i), []).append({'n': n, 'modified': before != after, 'refused': refused,
                                                     'variant': ('index' if extra else 'noindex') + ('+legacy' if legacy else '') + ('+blobdir' if robd else '')})
            if not n or before != after or not refused:
                details.append({'at': i, 'kind': 'ro', 'detail': det or ('modified=%s refused=%s' % (before != after, refused))})
            # time travel (read-only, stop=tid): the state as of an earlier transaction, with and without an index file
            if n0 and snaps:
                k = max(n0)
                hk = self.commits[k][0]
                cands = [j for j in range(1, k) if [t['tid'] for t in self.commits[j][0]] == [t['tid'] for t in hk[:len(self.commits[j][0])]]
                         and len(self.commits[j][0]) < len(hk) and not any(t['status'] == 'p' for t in hk)]
                if cands:
                    j = rng.choice(cands)
                    stop = self.rp.tids.real(hk[len(self.commits[j][0])]['tid'])
                    seen = {}
                    for label, extra in (('index', {IDX: snaps[-1][2]}), ('noindex', {})):
                        image(extra)
                        nn, det = self.recovered(img, read_only=True, stop=stop, want=j)
                        nimg += 1
                        seen[label] = bool(nn)
                        if not nn:
                            details.append({'at': i, 'kind': 'stop/' + label, 'detail': det})
                    probes.setdefault(('stop', i), []).append({'want': j, 'with_index': seen['index'], 'without_index': seen['noindex']})
        shutil.rmtree(img, ignore_errors=True)
        self.nimages = nimg
        self.probe_details = details
        self.nsnaps = len(snaps)
        return probes

    # ---- C08: crash at every operation of a pack ----
    def probe_c08(self):
        probes = {}
        details = []
        files = faultfs.materialize(self.log, self.start)
        img = os.path.join(self.dir, 'img')
        nimg = 0
        in_pack = False
        renamed_away = False
        for i in range(self.start, len(self.log)):
            e = self.log[i]
            if e['op'] == 'mark':
                if e['action'] == 'Pack':
                    in_pack = e['label'] == 'call'
                    renamed_away = False
                continue
            faultfs.apply_op(files, e)
            if not in_pack:
                continue
            if e['op'] == 'rename' and e.get('file') == DATA:
                renamed_away = True
            if e['op'] == 'rename' and e.get('dst') == DATA:
                renamed_away = False
            shutil.rmtree(img, ignore_errors=True)
            faultfs.write_image(files, img)
            n, det = self.recovered(img)
            nimg += 1
            what = '%s %s%s' % (e['op'], e.get('file'), ('->' + e['dst']) if e.get('dst') else '')
            probes.setdefault(('pack', i), []).append(
                {'n': n, 'after_op': what, 'window': 'between-renames' if renamed_away else 'other'})
            if not n:
                details.append({'at': i, 'kind': 'pack', 'after_op': what, 'detail': det})
        shutil.rmtree(img, ignore_errors=True)
        self.nimages = nimg
        self.probe_details = details
        return probes

    def _packed_between(self, a, b):
        return any(e['op'] == 'rename' and e.get('dst') == DATA for e in self.log[a:b])

    def _try_writes(self, st):
        """every writing call must raise ReadOnlyError on a read-only storage"""
        from ZODB.Connection import TransactionMetaData
        from ZODB.POSException import ReadOnlyError
        from ZODB.serialize import referencesf
        t = TransactionMetaData()
        calls = [lambda: st.tpc_begin(t), lambda: st.new_oid(), lambda: st.pack(1, referencesf),
                 lambda: st.store(b'\0' * 8, b'\0' * 8, b'x', '', t), lambda: st.undo(b'AAAAAAAAAAA=', t),
                 lambda: st.deleteObject(b'\0' * 8, b'\0' * 8, t), lambda: st.restore(b'\0' * 8, b'\0' * 8, b'x', '', None, t)]
        ok = True
        for c in calls:
            try:
                c()
                ok = False
            except ReadOnlyError:
                pass
            except Exception:
                ok = False
        return ok


def run_behaviour(job):
    """job = (behaviour path | steps, consts, workdir, opts) -> dict with the ZFile trace and statistics"""
    beh, c, workdir, opts = job
    if isinstance(beh, str):
        beh = tlaparse.parse_simulate_file(beh)
    r = Run(beh, c, workdir, opts)
    try:
        r.execute()
        if opts.get('mode') == 'c08':
            probes = r.probe_c08()
        elif opts.get('mode') == 'c09':
            import random
            probes = r.probe_c09(random.Random(opts.get('rng_seed', 0)))
        else:
            probes = r.probe_all(opts.get('torn', 'sample'))
        ev = r.build_events(probes)
        return {'events': ev, 'images': r.nimages, 'problems': r.problems, 'probe_details': r.probe_details[:5],
                'snaps': getattr(r, 'nsnaps', 0), 'commits': len(r.commits) - 1, 'sig': [s['action'] for s in beh][:40],
                'acks': sum(1 for e in ev if e['ev'] == 'Ack'), 'aborts_cut': sum(1 for e in ev if e['ev'] == 'Truncate')}
    finally:
        shutil.rmtree(workdir, ignore_errors=True)
