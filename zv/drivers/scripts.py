"""Directed scenarios: the harness enumerates families of macro-operation sequences, TLC (module ZScript)
evaluates each with the actions of ZStorage and thereby supplies the expected outcome and observation table
after every call; the behaviours are then replayed on the real storage like simulated ones."""
import os
import re

from .. import tlaparse, tlc
from . import storage as sd


# ---- macro operations -> script entries -------------------------------------------------------------
def D(v, refs=()):
    return {'v': v, 'refs': tuple(sorted(refs))}


def begin(clk=1, m='m0'):
    return [{'a': 'begin', 'm': m, 'clk': clk}]


def store(o, v='v1', refs=(), s=-1):
    return [{'a': 'store', 'o': o, 's': s, 'd': D(v, refs)}]


def commit(stores, clk=1, m='m0'):
    """stores: [(oid, value, refs)] or [(oid, value, refs, serial)]; serial -1 = current"""
    out = begin(clk, m)
    for st in sorted(stores, key=lambda x: x[0]):      # the model stages records in oid order
        out += store(st[0], st[1], st[2], st[3] if len(st) > 3 else -1)
    return out + [{'a': 'vote'}, {'a': 'finish'}]


def undo(k, clk=1, more=()):
    out = begin(clk) + [{'a': 'undo', 'k': k}]
    for k2 in more:
        out.append({'a': 'undo', 'k': k2})
    return out + [{'a': 'vote'}, {'a': 'finish'}]


def delete(o, clk=1):
    return begin(clk) + [{'a': 'delete', 'o': o, 's': -1}, {'a': 'vote'}, {'a': 'finish'}]


def pack(sec, gc=True):
    return [{'a': 'pack', 'sec': sec, 'gc': bool(gc)}]


def reopen():
    return [{'a': 'reopen'}]


def abort_after(entries, clk=1):
    """begin, the given entries (stores ...), optionally vote, then abort"""
    return begin(clk) + list(entries) + [{'a': 'abort'}]


def complete(script, beh):
    """was the script evaluated to its end?  (an entry that is not enabled in the model ends a behaviour silently)"""
    return bool(beh) and beh[-1]['state'].get('pc') == len(script) + 1


# ---- rendering ------------------------------------------------------------------------------------------
def _tla(v):
    if isinstance(v, bool):
        return 'TRUE' if v else 'FALSE'
    if isinstance(v, int):
        return str(v)
    if isinstance(v, str):
        return '"%s"' % v
    if isinstance(v, dict):
        if set(v) == {'v', 'refs'}:
            return '[v |-> <<"%s">>, refs |-> {%s}]' % (v['v'], ', '.join(str(x) for x in v['refs']))
        return '[' + ', '.join('%s |-> %s' % (k, _tla(x)) for k, x in v.items()) + ']'
    raise TypeError(v)


def render(scripts):
    body = ',\n'.join('  << ' + ', '.join(_tla(e) for e in sc) + ' >>' for sc in scripts)
    return ('---- MODULE MCScripts ----\nEXTENDS ZScript\nTheScripts == <<\n%s\n>>\n====\n' % body)


_NODE = re.compile(r'^(-?\d+) \[label="((?:[^"\\]|\\.)*)"(?:,tooltip="(?:[^"\\]|\\.)*")?(,style = filled)?\]')
_EDGE = re.compile(r'^(-?\d+) -> (-?\d+) \[label="([^"]*)"')
ACTION = {'begin': 'Begin', 'store': 'Store', 'check': 'CheckCurrent', 'delete': 'Delete', 'undo': 'Undo', 'vote': 'Vote',
          'finish': 'Finish', 'abort': 'Abort', 'pack': 'Pack', 'reopen': 'CloseReopen', 'newoid': 'NewOid', 'init': 'Init'}


def _args(act):
    a = act['a']
    c = 'c1'
    if a == 'begin':
        return [c, act['m'], act['clk']]
    if a == 'store':
        return [c, act['o'], act['s'], act['d']]
    if a in ('check', 'delete'):
        return [c, act['o'], act['s']]
    if a == 'undo':
        return [c, act['k']]
    if a in ('vote', 'finish', 'abort'):
        return [c]
    if a == 'pack':
        return [act['sec'], act['gc']]
    return []


def evaluate(ctx, name, scripts, c, timeout=900, batch=250):
    """Run TLC over all scripts; returns one behaviour (list of steps) per script, in order.  Large sets are
    evaluated in batches, four TLC runs side by side."""
    if len(scripts) > batch:
        from concurrent.futures import ThreadPoolExecutor
        parts = [scripts[i:i + batch] for i in range(0, len(scripts), batch)]
        with ThreadPoolExecutor(4) as ex:
            outs = list(ex.map(lambda a: _evaluate(ctx, '%s-%d' % (name, a[0]), a[1], c, timeout), enumerate(parts)))
        return [b for o in outs for b in o]
    return _evaluate(ctx, name, scripts, c, timeout)


def _evaluate(ctx, name, scripts, c, timeout):
    wd = os.path.join(ctx.scratch, 'scr-' + name)
    os.makedirs(wd, exist_ok=True)
    tlc._prepare('ZScript', wd)
    with open(os.path.join(wd, 'MCScripts.tla'), 'w') as f:
        f.write(render(scripts))
    k = sd.tla_consts(c)
    k['Scripts'] = '<- TheScripts'
    cfg = os.path.join(wd, 'scripts.cfg')
    tlc.write_cfg(cfg, constants=k, init='SInit', next_='SNext')
    dot = os.path.join(wd, 'g.dot')
    r = _run(wd, cfg, dot, timeout)
    ctx.add_tlc('scripts-' + name, r)
    nodes, succ = {}, {}
    with open(dot) as f:
        for line in f:
            m = _EDGE.match(line)
            if m:
                succ[m.group(1)] = m.group(2)
                continue
            m = _NODE.match(line)
            if m:
                txt = m.group(2).replace('\\n', '\n').replace('\\"', '"').replace('\\\\', '\\')
                nodes[m.group(1)] = (tlaparse.parse_state_block(txt), bool(m.group(3)))
    os.remove(dot)
    behs = {}
    for nid, (st, initial) in nodes.items():
        if not initial:
            continue
        steps = []
        cur = nid
        while cur is not None:
            s = nodes[cur][0]
            act = sd.norm(s['act'])
            steps.append({'action': ACTION[act['a']], 'args': _args(act), 'state': s})
            cur = succ.get(cur)
        behs[sd.norm(st['sid'])] = steps
    return [behs[i + 1] for i in range(len(scripts))]


def _run(wd, cfg, dot, timeout):
    import subprocess
    import time
    cmd = tlc._java_cmd((), os.environ.get('ZV_TLC_HEAP') or '4g') + ['-workers', '4', '-metadir', os.path.join(wd, 'meta'), '-noGenerateSpecTE',
                             '-dump', 'dot,actionlabels', dot, '-config', cfg, os.path.join(wd, 'MCScripts.tla')]
    t0 = time.time()
    p = subprocess.run(cmd, cwd=wd, stdout=subprocess.PIPE, stderr=subprocess.STDOUT, text=True, timeout=timeout)
    r = tlc.TLCResult()
    r.wall_s = time.time() - t0
    r.output = p.stdout
    m = None
    for m in tlc._RE_STATS.finditer(p.stdout):
        pass
    if m:
        r.states_generated, r.distinct = int(m.group(1)), int(m.group(2))
    if 'Model checking completed. No error has been found' not in p.stdout:
        raise tlc.TLCError('script evaluation failed:\n' + p.stdout[-3000:])
    r.ok = True
    return r
