"""C02 binding (code -> spec): run multi-connection programs on the real DB / Connection / storage under the
cooperative scheduler, record one event per ZMvcc action at its linearization point (harness-side wrappers; an
event emitted by a method-exit wrapper is as good as one emitted under the lock because the scheduler switches
threads only at lock acquisitions), rank-normalise tids, and hand the traces to TLC (ZMvccTrace)."""
import functools
import os
import shutil
import sys
import threading

from .. import sched

ctx = threading.local()
conn_name = {}          # id(instance storage) -> connection name
conn_names_by_conn = {}
name_of_oid = {}
fresh = set()
_installed = False
counter = [0]


def _emit(**ev):
    if sched.S is None:
        return
    if ev.get('conn') is None or ('to' in ev and ev['to'] is None):
        return
    sched.S.emit(**ev)


def _cname_of_instance(inst):
    return conn_name.get(id(inst))


def wrap(cls, name, before=None, after=None):
    orig = getattr(cls, name)
    if getattr(orig, '_zv_wrapped', False):
        return

    @functools.wraps(orig)
    def w(self, *a, **k):
        if before:
            before(self, *a, **k)
        try:
            r = orig(self, *a, **k)
        except BaseException as e:
            if after:
                after(self, a, k, None, e)
            raise
        if after:
            after(self, a, k, r, None)
        return r
    w._zv_wrapped = True
    setattr(cls, name, w)


def cacheproj(conn):
    out = {}
    for oid, ob in conn._cache.items():
        if ob._p_changed is not None and oid in name_of_oid:
            out[name_of_oid[oid]] = ob._p_serial.hex()
    return out


def install():
    """Wrap the linearization points (harness side; no source change)."""
    global _installed
    if _installed:
        return
    import ZODB.Connection
    import ZODB.DB
    import ZODB.mvccadapter
    from ZODB.FileStorage import FileStorage
    from ZODB.MappingStorage import MappingStorage
    C = ZODB.Connection.Connection
    I = ZODB.mvccadapter.MVCCAdapterInstance

    def after_last(self, a, k, r, e):
        if getattr(ctx, 'in_poll', None) is not None and e is None:
            _emit(ev='PollRead', conn=ctx.in_poll, polled=r.hex())

    def before_poll(self):
        ctx.in_poll = _cname_of_instance(self)

    def after_poll(self, a, k, r, e):
        ctx.in_poll = None
        ctx.last_poll = (_cname_of_instance(self), self._start.hex())

    def after_newtxn(self, a, k, r, e):
        c, start = getattr(ctx, 'last_poll', (None, None))
        ctx.last_poll = (None, None)
        if c is not None:
            _emit(ev='PollApply', conn=c, start=start, cache=cacheproj(self))

    def after_setstate(self, a, k, r, e):
        ob = a[0]
        if e is None and ob._p_oid in name_of_oid:
            _emit(ev='Read', conn=_cname_of_instance(self._normal_storage), oid=name_of_oid[ob._p_oid], serial=ob._p_serial.hex())

    def after_register(self, a, k, r, e):
        ob = a[0]
        if ob._p_oid in name_of_oid:
            _emit(ev='Write', conn=_cname_of_instance(self._normal_storage), oid=name_of_oid[ob._p_oid])

    def after_vote(self, a, k, r, e):
        _emit(ev='BeginVote', conn=_cname_of_instance(self._normal_storage), ok=(e is None))

    def after_commit(self, a, k, r, e):
        if e is not None:       # ConflictError out of the store phase = the conflict outcome of BeginVote
            _emit(ev='BeginVote', conn=_cname_of_instance(self._normal_storage), ok=False)

    def before_invfin(self, tid, oids, committing):
        ctx.committer = 'u' if committing is None else _cname_of_instance(committing)
        _emit(ev='FinishStart', conn=ctx.committer, tid=tid.hex())

    def after_invalidate(self, a, k, r, e):
        _emit(ev='Deliver', conn=getattr(ctx, 'committer', None), to=_cname_of_instance(self), tid=a[0].hex())

    def after_finish_finish(self, a, k, r, e):
        _emit(ev='Publish', conn=getattr(ctx, 'committer', None), tid=a[0].hex())

    def after_map_finish(self, a, k, r, e):
        if e is None:
            _emit(ev='Publish', conn=getattr(ctx, 'committer', None), tid=r.hex())

    def after_abort(self, a, k, r, e):
        _emit(ev='AbortTxn', conn=_cname_of_instance(self._normal_storage))

    def after_tpc_abort(self, a, k, r, e):
        _emit(ev='TpcAbort', conn=_cname_of_instance(self._normal_storage))

    def after_conn_init(self, a, k, r, e):
        if e is None and getattr(ctx, 'recording', False) and self.before is None:
            counter[0] += 1
            n = 'c%d' % counter[0]
            conn_name[id(self._normal_storage)] = n
            conn_names_by_conn[id(self)] = n
            fresh.add(n)

    def before_conn_open(self, *a, **k):
        n = conn_names_by_conn.get(id(self))
        if n is not None:
            _emit(ev='Open', conn=n, reused=n not in fresh)
            fresh.discard(n)

    def after_return_to_pool(self, a, k, r, e):
        n = conn_names_by_conn.get(id(a[0]))
        if n is not None and e is None:
            _emit(ev='Close', conn=n)

    TU = sys.modules['ZODB.DB'].TransactionalUndo

    def undone_oids(tu):
        """the objects the undone transactions wrote, read from the storage itself (not from the adapter)"""
        import base64
        st = tu._db.storage
        names = set()
        for t64 in tu._tids:
            tid = base64.decodebytes(t64 + b'\n')
            for txn in st.iterator(tid, tid):
                for r in txn:
                    if r.oid in name_of_oid:
                        names.add(name_of_oid[r.oid])
        return sorted(names)

    def after_undo_vote(self, a, k, r, e):
        if getattr(ctx, 'recording', False):
            _emit(ev='UndoVote', conn='u', ok=(e is None), oids=undone_oids(self))

    def after_undo_commit(self, a, k, r, e):
        if e is not None and getattr(ctx, 'recording', False):      # UndoError out of storage.undo()
            _emit(ev='UndoVote', conn='u', ok=False, oids=undone_oids(self))

    def after_undo_abort(self, a, k, r, e):
        if getattr(ctx, 'recording', False):
            _emit(ev='UndoAbort', conn='u')

    wrap(TU, 'tpc_vote', after=after_undo_vote)
    wrap(TU, 'commit', after=after_undo_commit)
    wrap(TU, 'tpc_abort', after=after_undo_abort)
    wrap(FileStorage, 'lastTransaction', after=after_last)
    wrap(MappingStorage, 'lastTransaction', after=after_last)
    wrap(I, 'poll_invalidations', before=before_poll, after=after_poll)
    wrap(C, 'newTransaction', after=after_newtxn)
    wrap(C, 'setstate', after=after_setstate)
    wrap(C, 'register', after=after_register)
    wrap(C, 'tpc_vote', after=after_vote)
    wrap(C, 'commit', after=after_commit)
    wrap(ZODB.mvccadapter.MVCCAdapter, '_invalidate_finish', before=before_invfin)
    wrap(I, '_invalidate', after=after_invalidate)
    wrap(FileStorage, '_finish_finish', after=after_finish_finish)
    wrap(MappingStorage, 'tpc_finish', after=after_map_finish)
    wrap(C, 'abort', after=after_abort)
    wrap(C, 'tpc_abort', after=after_tpc_abort)
    wrap(C, '__init__', after=after_conn_init)
    wrap(C, 'open', before=before_conn_open)
    wrap(sys.modules['ZODB.DB'].DB, '_returnToPool', after=after_return_to_pool)
    for cls, names in ((I, ('poll_invalidations', '_invalidate')), (C, ('newTransaction', 'setstate', 'tpc_vote'))):
        for n in names:
            if not getattr(getattr(cls, n), '_zv_wrapped', False):
                raise RuntimeError('linearization point %s.%s could not be wrapped' % (cls.__name__, n))
    _installed = True


class _VoteFailed(Exception):
    pass


class _FailingVoter:
    """a resource manager that sorts after the connection and fails in tpc_vote"""
    transaction_manager = None

    def sortKey(self):
        return '~~~~failing-voter'

    def abort(self, txn):
        pass

    def tpc_begin(self, txn):
        pass

    def commit(self, txn):
        pass

    def tpc_vote(self, txn):
        raise _VoteFailed()

    def tpc_finish(self, txn):
        pass

    def tpc_abort(self, txn):
        pass


class _NoLog(list):
    """the operation log is not needed for schedules"""

    def append(self, x):
        pass


OPS = ('r', 'wx', 'wy', 'rw', 'rx', 'co', 'u1', 'u2', 'cx', 'csx', 'wa', 'mr', 'sy', 'va', 'crb', 'ul')


def gen_programs(rng, nthreads=2, length=4):
    return [[rng.choice(OPS) for _ in range(rng.randint(2, length))] for _ in range(nthreads)]


def scenario(job):
    """job = (storage kind, programs, seed, workdir, scheduler kwargs) -> dict(trace, outcome, stats)"""
    kind, programs, seed, workdir, kw = job
    import transaction
    import ZODB
    from ZODB.FileStorage import FileStorage
    from ZODB.MappingStorage import MappingStorage
    from ZODB.POSException import ConflictError
    from ZODB.tests.MinPO import MinPO
    from ZODB.utils import p64, u64
    install()
    sched.install()
    sched.S = None
    from .. import faultfs
    kw = dict(kw or {})
    pad = kw.pop('pad', 0)
    if kw.pop('yield_io', False) and kind == 'file':
        # file-I/O granularity: raw reads/writes of the data file are yield points too
        faultfs.install()
        faultfs.reset(workdir)
        faultfs.S.log = _NoLog()
        faultfs.YIELD_IO = True
    else:
        faultfs.YIELD_IO = False
        faultfs.S.enabled = False
    conn_name.clear()
    conn_names_by_conn.clear()
    name_of_oid.clear()
    fresh.clear()
    counter[0] = 0
    ctx.recording = False
    shutil.rmtree(workdir, ignore_errors=True)
    os.makedirs(workdir)
    storage = FileStorage(os.path.join(workdir, 'Data.fs')) if kind == 'file' else MappingStorage()
    db0 = ZODB.DB(storage)
    tm0 = transaction.TransactionManager()
    c0 = db0.open(tm0)
    c0.root()['x'] = MinPO(0)
    c0.root()['y'] = MinPO(0)
    if pad:
        # records larger than a read buffer: loads need raw reads of their own (otherwise the first read of a pooled
        # file pulls the whole small data file into its buffer and no later load touches the file again)
        c0.root()['x'].pad = 'x' * pad
        c0.root()['y'].pad = 'y' * pad
    tm0.commit()
    name_of_oid[c0.root()['x']._p_oid] = 'x'
    name_of_oid[c0.root()['y']._p_oid] = 'y'
    init_tid = storage.lastTransaction().hex()
    import base64
    init_id = base64.encodebytes(storage.lastTransaction()).rstrip()
    c0.close()
    db = ZODB.DB(storage, pool_size=4)        # a second DB on the same storage: fresh adapter, empty pool
    lines = kw.pop('lines', False)
    if 'plan' in kw:
        Sc = sched.S = sched.Plan(kw['plan'], kw['order'])
    else:
        Sc = sched.S = sched.Sched(seed, **(kw or {}))
    if lines:
        # source-line granularity inside the read-file pool: its hand-over of file handles must be atomic for flush()
        Sc.trace_lines(lambda code: code.co_name in ('get', 'flush', 'write_lock', 'empty', 'close')
                       and code.co_filename.endswith('FileStorage.py'))
    errors = []
    # DB.__init__ used (and pooled) a connection of its own: it is part of the initial state - name it and put it
    # into the model's pool by a synthetic Open/Close pair
    pre = []
    pre.extend(list(db.pool))
    for c in pre:
        counter[0] += 1
        n = 'c%d' % counter[0]
        conn_name[id(c._normal_storage)] = n
        conn_names_by_conn[id(c)] = n
        Sc.emit(ev='Open', conn=n, reused=False)
        Sc.emit(ev='Close', conn=n)

    def prog(tname, ops):
        def run():
            ctx.recording = True
            tm = transaction.TransactionManager()
            tm.explicit = True
            c = db.open(tm)
            for op in ops:
                if op == 'co':
                    c.close()
                    c = db.open(tm)
                    continue
                if op in ('u1', 'u2', 'ul'):
                    if kind != 'file':
                        continue
                    from ZODB.POSException import UndoError
                    tmu = transaction.TransactionManager()
                    log = db.undoLog(0, 2 if op == 'u2' else 1)
                    ids = [d['id'] for d in log if d['id'] != init_id]
                    if not ids:
                        continue
                    try:
                        tmu.begin()
                        n_before = len(db.undoLog(0, 1000))
                        if op == 'u1':
                            db.undo(ids[0], tmu.get())           # the single-id form, with the caller's transaction
                        else:
                            db.undoMultiple(ids, tmu.get())
                        if op == 'ul':
                            # meta data the storage refuses at tpc_begin: the undo transaction fails and must leave
                            # no lock behind (the following commits would block)
                            tmu.get().note('x' * 70000)
                        tmu.commit()
                        if op == 'ul':
                            raise AssertionError('an undo transaction with 70000 bytes of description was accepted')
                        if len(db.undoLog(0, 1000)) <= n_before:
                            raise AssertionError('the committed undo transaction is not in the undo log (nothing was undone)')
                    except (UndoError, ConflictError):
                        tmu.abort()
                    except Exception as ex:
                        if op != 'ul' or isinstance(ex, AssertionError):
                            raise
                        tmu.abort()
                    continue
                tm.begin()
                r = c.root()
                try:
                    if op == 'rw':
                        r['x'].value += 1
                        r['y'].value += 1
                        tm.commit()
                    elif op == 'wx':
                        r['x'].value += 1
                        tm.commit()
                    elif op == 'wy':
                        r['y'].value += 1
                        tm.commit()
                    elif op in ('cx', 'csx'):
                        # declare a dependency on x being current, write y (optionally through a savepoint)
                        _ = r['x'].value
                        c.readCurrent(r['x'])
                        _emit(ev='ReadCurrent', conn=conn_names_by_conn[id(c)], oid='x')
                        r['y'].value += 1
                        if op == 'csx':
                            tm.savepoint()
                            _emit(ev='Savepoint', conn=conn_names_by_conn[id(c)])
                            r['y'].value += 1
                        tm.commit()
                    elif op == 'crb':
                        # a dependency declared before a savepoint survives the rollback to it (the connection has
                        # joined the transaction before the savepoint: a real rollback, not the abort of a late joiner)
                        r['y'].value += 1
                        _ = r['x'].value
                        c.readCurrent(r['x'])
                        _emit(ev='ReadCurrent', conn=conn_names_by_conn[id(c)], oid='x')
                        sp1 = tm.savepoint()
                        _emit(ev='Savepoint', conn=conn_names_by_conn[id(c)])
                        r['x'].value += 1
                        tm.savepoint()
                        _emit(ev='Savepoint', conn=conn_names_by_conn[id(c)])
                        sp1.rollback()
                        _emit(ev='Rollback', conn=conn_names_by_conn[id(c)], keep=['y'])
                        _ = r['x'].value, r['y'].value
                        tm.commit()
                    elif op == 'rx':
                        _ = r['x'].value
                        tm.abort()
                    elif op == 'va':
                        # a second participant whose vote fails: the storage has voted and is then aborted
                        r['x'].value += 1
                        tm.get().join(_FailingVoter())
                        try:
                            tm.commit()
                        except _VoteFailed:
                            tm.abort()
                    elif op == 'wa':
                        # modify and abort: the modified copy is dropped, the next read loads at the snapshot again
                        r['x'].value += 1
                        tm.abort()
                    elif op == 'mr':
                        # read, empty the cache in mid-transaction, read again: the same snapshot serves both
                        a1 = r['x'].value, r['y'].value
                        c.cacheMinimize()
                        a2 = c.root()['x'].value, c.root()['y'].value
                        if a1 != a2:
                            raise AssertionError('values changed within one transaction: %r then %r' % (a1, a2))
                        tm.abort()
                    elif op == 'sy':
                        # sync(): a new snapshot without closing (begins a transaction: called outside of one)
                        _ = r['x'].value
                        tm.abort()
                        c.sync()
                        _ = c.root()['x'].value, c.root()['y'].value
                        tm.abort()
                    else:
                        _ = r['x'].value, r['y'].value
                        tm.abort()
                except ConflictError:
                    tm.abort()
            c.close()
        return run
    for i, ops in enumerate(programs):
        Sc.spawn('t%d' % (i + 1), prog('t%d' % (i + 1), ops))
    outcome = Sc.go()
    sched.S = None
    faultfs.YIELD_IO = False
    events = list(Sc.events)
    errs = {k: '%s: %s' % (type(v).__name__, str(v)[:200]) for k, v in Sc.errors.items()}
    try:
        db.close()
    except Exception:
        pass
    shutil.rmtree(workdir, ignore_errors=True)
    # rank-normalise tids: initial transaction -> 1
    def at(starthex):
        return p64(u64(bytes.fromhex(starthex)) - 1).hex()
    tids = {init_tid}
    for e in events:
        for k in ('tid', 'polled', 'serial'):
            if k in e:
                tids.add(e[k])
        if 'start' in e:
            tids.add(at(e['start']))
        if 'cache' in e:
            tids.update(e['cache'].values())
    rank = {t: i + 1 for i, t in enumerate(sorted(tids))}
    if os.environ.get('ZV_DEBUG'):
        print('init', init_tid, 'rank', rank)
    out = []
    for e in events:
        e = {k: v for k, v in e.items() if k not in ('seq', 'step')}
        for k in ('tid', 'polled', 'serial'):
            if k in e:
                e[k] = rank[e[k]]
        if 'start' in e:
            e['start'] = rank[at(e['start'])]
        if 'cache' in e:
            e['cache'] = {o: rank[v] for o, v in e['cache'].items()}
        out.append(e)
    return {'trace': out, 'outcome': outcome, 'errors': errs, 'steps': Sc.steps, 'kind': kind, 'programs': programs,
            'seed': seed, 'commits': sum(1 for e in out if e['ev'] == 'Publish'),
            'switches': sum(1 for a, b in zip(Sc.choices, Sc.choices[1:]) if a != b), 'yields': dict(getattr(Sc, 'yields', {}))}
