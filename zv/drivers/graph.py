"""Replay of ZGraph behaviours on real connections (spec -> code).

One real operation per specification action:
  AddEdge / RemoveEdge   setattr / delattr on a real persistent object (reference itself or a
                         persistent.wref.WeakRef, directly or inside plain containers)
  ExplicitAdd            connection.add(obj)
  Commit                 transaction commit (connection A of database "1" of a two-database multi-database)
  LoadElsewhere          a second connection loads every record; export / import of every stored node
  Pack                   DB.pack with garbage collection (referencesf)
After every action the projection of the real state is compared with the state TLC printed:
  which objects have an oid / are add()ed / are registered as changed, which records exist in the
  storage and what each raw record holds (decoded *here*, without ZODB.serialize), what
  referencesf / get_refs answer for each record (with the classes not importable), and - at
  LoadElsewhere - what another connection sees (obs.view), what an export contains (obs.exp), whether
  the imported copy is isomorphic (obs.imp), what a pack kept (obs.live).
Python contains no commit / reachability semantics: every expected value is read from the TLC state."""
import io
import os
import shutil
import signal
import struct
import sys
import time
import types

import persistent
from persistent.wref import WeakRef
from zodbpickle import pickle as zpickle

from ..tlaparse import MV, FrozenDict



def norm(x):
    """Parsed TLA value -> plain Python (records stay hashable: they are members of sets)."""
    if isinstance(x, dict):
        return FrozenDict((norm(k), norm(v)) for k, v in x.items())
    if isinstance(x, (tuple, list)):
        return tuple(norm(v) for v in x)
    if isinstance(x, (set, frozenset)):
        return frozenset(norm(v) for v in x)
    if isinstance(x, MV):
        return str(x)
    return x


CLS_MOD = 'zv_c14_cls'        # always importable
GONE_MOD = 'zv_c14_gone'      # removed from sys.modules wherever records are read ("missing class")
PY2_MOD = 'Queue'             # an application module named like a Python 2 stdlib module; always importable
PY2_RENAMED = 'queue'         # what ZODB.broken.find_global turns that name into


# ---------------------------------------------------------------------------
# application classes (in synthetic modules so that they can be made un-importable)

def _make_modules():
    def plain(modname, clsname):
        class Node(persistent.Persistent):
            pass
        Node.__module__, Node.__name__, Node.__qualname__ = modname, clsname, clsname
        return Node

    def newargs(modname, clsname):
        class Node(persistent.Persistent):
            """custom __new__ with an argument: the database must hand __getnewargs__() back to it"""
            new_args = {}          # id(instance) -> the argument __new__ received

            def __new__(cls, tag=None):
                ob = persistent.Persistent.__new__(cls)
                cls.new_args[id(ob)] = tag
                return ob

            def __init__(self, tag=None):
                self.tag = tag

            def __getnewargs__(self):
                return (self.tag,)
        Node.__module__, Node.__name__, Node.__qualname__ = modname, clsname, clsname
        return Node

    def values(modname):
        """non-persistent classes whose instances sit inside a state (and are missing where it is read)"""
        class GoneList(list):
            pass

        class GoneDict(dict):
            pass

        class GoneValue:
            """a value class pickled as GoneValue(ref): __reduce__ -> (class, args), no state"""

            def __init__(self, ref=None):
                self.ref = ref

            def __reduce__(self):
                return (type(self), (getattr(self, 'ref', None),))
        for c in (GoneList, GoneDict, GoneValue):
            c.__module__, c.__qualname__ = modname, c.__name__
        return GoneList, GoneDict, GoneValue

    for modname, names in ((CLS_MOD, ('GNode', 'GNodeNew')), (GONE_MOD, ('GoneNode', 'GoneNodeNew')),
                           (PY2_MOD, ('GNode', 'GNodeNew'))):
        if modname in sys.modules:
            continue
        m = types.ModuleType(modname)
        setattr(m, names[0], plain(modname, names[0]))
        setattr(m, names[1], newargs(modname, names[1]))
        if modname == GONE_MOD:
            for c in values(modname):
                setattr(m, c.__name__, c)
        sys.modules[modname] = m
    return sys.modules[CLS_MOD], sys.modules[GONE_MOD]


_CLS, _GONE = _make_modules()
KIND_CLASS = {'plain': (CLS_MOD, 'GNode'), 'newargs': (CLS_MOD, 'GNodeNew'),
              'gone': (GONE_MOD, 'GoneNode'), 'gonenew': (GONE_MOD, 'GoneNodeNew'), 'py2mod': (PY2_MOD, 'GNode')}


def has_newargs(kind):
    return kind in ('newargs', 'gonenew')


def is_gone(kind):
    return kind in ('gone', 'gonenew')


def fkind(f):
    return 'plain' if f % 2 == 0 else 'newargs'


def node_name(n):
    return ('x%d' if n >= 100 else 'n%d') % n


def make_node(kind, name):
    mod, cls = KIND_CLASS[kind]
    klass = getattr(sys.modules[mod], cls)
    ob = klass(name) if has_newargs(kind) else klass()
    ob.name = name
    return ob


class _ImportWatch:
    """meta-path finder that records attempts to import the hidden application modules"""

    def __init__(self, names):
        self.names = names
        self.seen = []

    def find_spec(self, fullname, path=None, target=None):
        if fullname in self.names:
            self.seen.append(fullname)
        return None


class hidden:
    """with hidden(GONE_MOD) as w: ...   the modules are not importable inside the block"""

    def __init__(self, *names):
        self.names = names

    def __enter__(self):
        self.saved = {n: sys.modules.pop(n) for n in self.names if n in sys.modules}
        self.watch = _ImportWatch(self.names)
        sys.meta_path.insert(0, self.watch)
        return self.watch

    def __exit__(self, *exc):
        sys.meta_path.remove(self.watch)
        sys.modules.update(self.saved)
        return False


# ---------------------------------------------------------------------------
# concretisation parameter outside the model: the bytes of the oids handed out

PATTERNS = ('seq', 'ascii', 'high', 'mixed', 'opcode', 'ctl')
_CTL = (0x0a, 0x0d, 0x22, 0x27, 0x5c, 0x7f, 0x80, 0x01, 0x2e, 0x51)


def oid_bytes(pattern, i):
    if pattern == 'seq':
        return struct.pack('>Q', i)
    if pattern == 'ascii':                      # every byte < 0x80 and printable (b'AAAAAAAB' ...)
        return b'AAAAAA' + bytes([0x41 + i // 26 % 26, 0x41 + i % 26])
    if pattern == 'high':                       # every byte >= 0x80
        return b'\xff\xfe\x80\x81\xc3\xa9' + bytes([0x80 + i // 100 % 100, 0x80 + i % 100])
    if pattern == 'mixed':
        return b'A\x00\xffz\x80\x7f' + bytes([i // 200 % 200, 0x30 + i % 200])
    if pattern == 'opcode':                     # bytes that are pickle opcodes / line ends
        return b'.\nQ(c\n' + bytes([0x0a + i // 90 % 90, 0x20 + i % 90])
    if pattern == 'ctl':
        if i >= len(_CTL) ** 2:
            raise RuntimeError('oid pattern ctl exhausted')
        return b'\x00' * 6 + bytes([_CTL[i // len(_CTL)], _CTL[i % len(_CTL)]])
    raise ValueError(pattern)


def oid_source(pattern):
    state = [0]

    def new_oid():
        state[0] += 1
        return oid_bytes(pattern, state[0])
    return new_oid


# ---------------------------------------------------------------------------
# holders: the plain-container path between an object's state and a reference

def wrap(holder, ref):
    if holder == 'direct':
        return ref
    if holder == 'list':
        return [ref]
    if holder == 'dict':
        return {'k': ref}
    if holder == 'deep':
        return {'a': [('t', [ref])]}
    if holder == 'glist':
        return _GONE.GoneList([ref])
    if holder == 'gdict':
        return _GONE.GoneDict({'k': ref})
    if holder == 'rvalue':
        return _GONE.GoneValue(ref)
    raise ValueError(holder)


def _value_form(v):
    """An embedded instance of one of the value classes of GONE_MOD, in any of its appearances ->
    (holder, payload) or None.  Appearances: the real class (connection A), a stub (raw record), a placeholder
    of ZODB.broken (a connection where the class is missing)."""
    t = type(v)
    mod, name = getattr(t, '__module__', None), getattr(t, '__name__', None)
    if isinstance(v, _Stub):
        if mod == 'ZODB.broken' and tuple(v.args[:2]) == (GONE_MOD, 'GoneValue'):
            # written back by a placeholder: rebuild() = GoneValue.__new__(GoneValue, ref), the reference is lost where the
            # class exists; any other function of ZODB.broken is taken to call the class again (a repaired tree)
            return ('rlost' if name == 'rebuild' else 'rvalue'), list(v.args[2:])
        if mod != GONE_MOD:
            return None
        if name == 'GoneValue':
            return 'rvalue', list(v.args)
        if name == 'GoneList':
            return 'glist', v.items
        if name == 'GoneDict':
            return 'gdict', v.items
        return None
    if mod != GONE_MOD:
        return None
    if hasattr(t, '__Broken_state__'):                      # placeholder: Broken.__new__ / __init__ recorded the arguments
        if name == 'GoneValue':
            return ('rvalue' if v.__Broken_initargs__ is not None else 'rlost'), list(v.__Broken_newargs__)
        return None
    if name == 'GoneValue':
        return ('rvalue', [v.ref]) if 'ref' in v.__dict__ else ('rlost', [])
    if name == 'GoneList':
        return 'glist', list(v)
    if name == 'GoneDict':
        return 'gdict', dict(v)
    return None


def unwrap(v, isref):
    """-> (holder, ref) or None; ('rlost', None): the slot holds a value object that lost its reference"""
    if isref(v):
        return 'direct', v
    vf = _value_form(v)
    if vf is not None:
        holder, payload = vf
        if holder == 'gdict':
            payload = [payload['k']] if isinstance(payload, dict) and set(payload) == {'k'} else None
        if holder == 'rlost' and payload == []:
            return 'rlost', None
        if isinstance(payload, list) and len(payload) == 1 and isref(payload[0]):
            return holder, payload[0]
        return None
    if isinstance(v, list) and len(v) == 1 and isref(v[0]):
        return 'list', v[0]
    if isinstance(v, dict) and set(v) == {'k'} and isref(v['k']):
        return 'dict', v['k']
    try:
        if isinstance(v, dict) and set(v) == {'a'}:
            (t,) = v['a']
            tag, inner = t
            if isinstance(t, tuple) and tag == 't' and isinstance(inner, list) and len(inner) == 1 and isref(inner[0]):
                return 'deep', inner[0]
    except (TypeError, ValueError):
        pass
    return None


def slot(d, kind, holder):
    return 'e_%s_%s_%s' % (d, kind, holder)


def decode_state(state, isref, resolve):
    """state dict -> (name, tag, set of edge tuples as produced by resolve, problems)"""
    edges = set()
    problems = []
    if not isinstance(state, dict):
        return None, None, edges, ['state is %s, not a dict' % type(state).__name__]
    for k, v in state.items():
        if k in ('name', 'tag', 'touch'):
            continue
        if not (isinstance(k, str) and k.startswith('e_')):
            problems.append('unexpected key %r' % (k,))
            continue
        hv = unwrap(v, isref)
        if hv is None:
            problems.append('slot %s holds %s' % (k, _short(v)))
            continue
        if hv[1] is not None:
            edges.add(resolve(hv[0], hv[1]))
    return state.get('name'), state.get('tag'), edges, problems


def _short(v):
    r = repr(v)
    return r if len(r) < 80 else r[:77] + '...'


# ---------------------------------------------------------------------------
# raw records, read without ZODB.serialize

class _Stub:
    """stands for any class named in a pickle; instantiation is recorded (an embedded object)"""
    created = []

    def __new__(cls, *args):
        if (cls.__module__, cls.__name__) not in VALUE_CLASSES and cls.__module__ != 'ZODB.broken':
            _Stub.created.append('%s.%s' % (cls.__module__, cls.__name__))
        ob = object.__new__(cls)
        ob.args = args
        ob.items = {} if cls.__name__ == 'GoneDict' else []
        return ob

    def __init__(self, *args):
        pass

    def __setstate__(self, state):
        self.__dict__['stub_state'] = state

    def append(self, x):
        self.items.append(x)

    def extend(self, xs):
        self.items.extend(xs)

    def __setitem__(self, k, v):
        self.items[k] = v


# the embedded value objects the harness itself puts into states (holders glist, gdict, rvalue and what a
# placeholder writes back for them); instances of anything else inside a state are embedded objects
VALUE_CLASSES = {(GONE_MOD, 'GoneList'), (GONE_MOD, 'GoneDict'), (GONE_MOD, 'GoneValue'), ('ZODB.broken', 'rebuild')}
_stub_cache = {}


def _stub(module, name):
    key = (module, name)
    if key not in _stub_cache:
        _stub_cache[key] = type(name, (_Stub,), {'__module__': module})
    return _stub_cache[key]


class _Pid:
    def __init__(self, pid):
        self.pid = pid


class _RawUnpickler(zpickle.Unpickler):
    def find_class(self, module, name):
        return _stub(module, name)

    def persistent_load(self, pid):
        return _Pid(pid)


def _oid_of(x):
    if isinstance(x, str):            # a py2-style str oid; cannot arise from protocol 3 binary, kept visible
        return x.encode('latin-1')
    return bytes(x) if isinstance(x, (bytes, bytearray)) else x


def parse_pid(pid):
    """-> (fmt, db or None, oid) following the formats documented in ZODB/serialize.py"""
    try:
        if isinstance(pid, tuple) and len(pid) == 2:
            return 'oc', None, _oid_of(pid[0])
        if isinstance(pid, (bytes, str)):
            return 'o', None, _oid_of(pid)
        if isinstance(pid, list):
            if len(pid) == 1:
                return 'w', None, _oid_of(pid[0])
            tag, args = pid
            if tag == 'w':
                return ('w', None, _oid_of(args[0])) if len(args) == 1 else ('wd', args[1], _oid_of(args[0]))
            if tag == 'n':
                return 'n', args[0], _oid_of(args[1])
            if tag == 'm':
                return 'm', args[0], _oid_of(args[1])
    except (TypeError, ValueError, IndexError):
        pass
    return 'bad:%s' % _short(pid), None, None


FMT_KIND = {'oc': 'strong', 'o': 'strong', 'm': 'strong', 'n': 'strong', 'w': 'weak', 'wd': 'weak'}


def read_record(data):
    """-> dict(cls=(module, name), newargs=tuple|None, state=..., embedded=[...], error=str|None)"""
    out = {'cls': None, 'newargs': None, 'state': None, 'embedded': [], 'error': None}
    f = io.BytesIO(data)
    try:
        _Stub.created.clear()
        u = _RawUnpickler(f)
        meta = u.load()
        if isinstance(meta, tuple):
            klass, out['newargs'] = meta
        else:
            klass = meta
        out['cls'] = (klass.__module__, klass.__name__) if isinstance(klass, type) else klass
        _Stub.created.clear()
        out['state'] = u.load()        # same unpickler: the writer keeps its memo across the two pickles
        out['embedded'] = list(_Stub.created)
        if f.read():
            out['error'] = 'bytes after the state pickle'
    except Exception as ex:
        out['error'] = '%s: %s' % (type(ex).__name__, str(ex)[:100])
    return out


# ---------------------------------------------------------------------------

class _Blocked(BaseException):
    pass


class Mismatch(Exception):
    def __init__(self, what, item, detail):
        Exception.__init__(self, detail)
        self.what, self.item, self.detail = what, item, detail


def edge_tuples(model_edges, alive=False):
    out = set()
    for e in model_edges:
        t = (e['dst'], e['kind'], e['holder'])
        out.add(t + (e['alive'],) if alive else t)
    return out


def _edge_item(diff):
    """structural name of an edge difference: kind/holder/where the target lives"""
    e = sorted(diff, key=repr)[0]
    dst = e[0]
    where = 'foreign' if isinstance(dst, int) and dst >= 100 else 'local' if isinstance(dst, int) else 'unknown'
    return '%s/%s/%s' % (e[1], e[2], where)


LIFECYCLE = ('MinimizeAllB', 'MinimizeSomeB', 'AbortB', 'CloseB', 'ResetCaches')


class GraphReplayer:
    """storage: 'mapping' | 'file';  pattern: one of PATTERNS"""

    def __init__(self, storage, pattern, workdir, opts=None):
        self.storage, self.pattern, self.dir = storage, pattern, workdir
        self.opts = opts or {}
        self.dbs = []
        self.nodes = {}       # model node -> real object (connection A / its sibling in database "2")
        self.ids = {}         # (dbname, oid) -> model node
        self.formats = {}     # reference formats met in raw records (informational)
        self.soft = {}        # (what, item) -> description: divergences that do not stop the replay
        self.counts = {'records': 0, 'refs_checked': 0, 'loads': 0, 'exports': 0, 'imports': 0, 'packs': 0,
                       'loads_after_reset': 0, 'loads_reusing_objects': 0, 'handle_checks': 0, 'probes': 0,
                       'touches': 0, 'placeholders_py2': 0, 'unloadable': 0}
        self.sps = []         # the real savepoints of connection A's transaction
        self.B = self.Bclosed = self.tmb = None     # the loading connection (see load_elsewhere)
        self.handles = {}     # (db, oid) -> object handed out by B in its current cache generation
        self.exported_for = None

    # ---- lifecycle ----
    def _storage(self, name):
        if self.storage == 'file':
            from ZODB.FileStorage import FileStorage
            st = FileStorage(os.path.join(self.dir, name + '.fs'))
        else:
            from ZODB.MappingStorage import MappingStorage
            st = MappingStorage()
        st.new_oid = oid_source(self.pattern)       # picked up by the MVCC adapter instances
        return st

    def open(self, kinds, fnodes):
        import transaction
        import ZODB
        if self.storage == 'file':
            shutil.rmtree(self.dir, ignore_errors=True)
            os.makedirs(self.dir)
        self.kinds = dict(kinds)
        self.st1, self.st2 = self._storage('one'), self._storage('two')
        databases = {}
        self.db1 = ZODB.DB(self.st1, databases=databases, database_name='1')
        self.db2 = ZODB.DB(self.st2, databases=databases, database_name='2')
        self.dbs = [self.db1, self.db2]
        self.tm = transaction.TransactionManager()
        self.A = self.db1.open(self.tm)
        self.A2 = self.A.get_connection('2')
        for n, k in self.kinds.items():
            self.nodes[n] = make_node(k, node_name(n))
        for f in fnodes:
            self.nodes[f] = make_node(fkind(f), node_name(f))
            self.A2.root()[node_name(f)] = self.nodes[f]
        self.A.root()['g0'] = self.nodes[0]
        self.tm.commit()
        for n, ob in self.nodes.items():
            if ob._p_oid is not None:
                self._learn(n)
        if self.nodes[0]._p_oid is None or any(self.nodes[f]._p_oid is None for f in fnodes):
            raise Mismatch('setup', 'not-stored', 'the commit that makes the graph root / the foreign nodes reachable from '
                           'the root mappings did not give them an oid')

    def _learn(self, n):
        ob = self.nodes[n]
        self.ids[(ob._p_jar.db().database_name, ob._p_oid)] = n

    def close(self):
        for c in (getattr(self, 'tmb', None), getattr(self, 'tm', None)):
            try:
                c.abort()
            except Exception:
                pass
        self.handles = {}
        for c in (self.B, getattr(self, 'A', None)):
            try:
                c.close()
            except Exception:
                pass
        for db in self.dbs:
            try:
                db.close()
            except Exception:
                pass
        if self.storage == 'file':
            shutil.rmtree(self.dir, ignore_errors=True)

    # ---- building ----
    def _ref(self, d, kind):
        target = self.nodes[d]
        return target if kind == 'strong' else WeakRef(target)

    def add_edge(self, s, d, kind, holder):
        setattr(self.nodes[s], slot(d, kind, holder), wrap(holder, self._ref(d, kind)))

    def build(self, state):
        """Init with a graph already in memory (the 'all small graphs' enumeration)"""
        for n, es in state['mem'].items():
            for e in sorted(es, key=lambda e: (e['dst'], e['kind'], e['holder'])):
                self.add_edge(n, e['dst'], e['kind'], e['holder'])
        for n in sorted(state['added']):
            self.A.add(self.nodes[n])

    # ---- one action ----
    def step(self, action, args, state):
        """Performs the real operation and compares; raises Mismatch."""
        def _blocked(signum, frame):
            raise _Blocked()
        old = signal.signal(signal.SIGALRM, _blocked)
        signal.setitimer(signal.ITIMER_REAL, self.opts.get('step_timeout', 10))
        try:
            try:
                if action in ('Init', 'InitSim', 'InitGraphs'):
                    self.build(state)
                elif action == 'AddEdge':
                    self.add_edge(*args)
                elif action == 'RemoveEdge':
                    s, d, kind, holder = args
                    delattr(self.nodes[s], slot(d, kind, holder))
                elif action == 'ExplicitAdd':
                    self.A.add(self.nodes[args[0]])
                elif action in ('Commit', 'CommitPrinted'):
                    self.tm.commit()
                    self.sps = []
                    if self.opts.get('minimize'):
                        self.A.cacheMinimize()      # concretisation: later edits meet ghosts
                elif action == 'Savepoint':
                    self.sps.append(self.tm.savepoint())
                elif action == 'Rollback':
                    k = args[0]
                    self.sps[k - 1].rollback()
                    del self.sps[k:]
                elif action == 'Abort':
                    self.tm.abort()
                    self.sps = []
                elif action == 'ImportCopy':
                    self.import_copy(*args)
                elif action == 'TouchElsewhere':
                    with hidden(GONE_MOD):
                        self.touch_elsewhere(args[0])
                    self.tm.abort()                 # connection A (idle) crosses a transaction boundary
                elif action == 'Pack':
                    self.db1.pack(t=time.time() + 1)
                    self.counts['packs'] += 1
                elif action == 'LoadElsewhere':
                    pass
                elif action in LIFECYCLE:
                    with hidden(GONE_MOD):
                        self.lifecycle(action, state['res'])
                else:
                    raise RuntimeError('replayer does not know action %s' % action)
            except _Blocked:
                raise Mismatch('outcome', 'blocked', '%s did not return within the step timeout' % action)
            except (RuntimeError, Mismatch):
                raise
            except Exception as ex:
                raise Mismatch('outcome', type(ex).__name__,
                               'specification: %s succeeds; implementation raised %s: %s' % (
                                   action, type(ex).__name__, str(ex)[:160]))
            for n in self.kinds:
                if self.nodes[n]._p_oid is not None:
                    self._learn(n)
            try:
                self.check_connection_a(state, after_pack=state['packed'])
                self.check_storage(state)
                if action == 'LoadElsewhere':
                    self.load_elsewhere(state)
                self.monitor(action, state)
            except _Blocked:
                raise Mismatch('outcome', 'blocked', 'observation after %s did not return' % action)
            except (Mismatch, RuntimeError):
                raise
            except Exception as ex:
                # the code under test raised while being observed (get, load, activate, export ...)
                import traceback
                here = [f.name for f in traceback.extract_tb(ex.__traceback__) if f.filename == __file__]
                raise Mismatch('observe', '%s:%s' % (here[-1] if here else '?', type(ex).__name__),
                               'observation after %s raised %s: %s' % (action, type(ex).__name__, str(ex)[:160]))
        finally:
            signal.setitimer(signal.ITIMER_REAL, 0)
            signal.signal(signal.SIGALRM, old)

    def import_copy(self, c, src):
        """copy = A.importFile(A.exportFile(oid of src)); then the copy is renamed (a change like any other)"""
        f = self.A.exportFile(self.nodes[src]._p_oid, io.BytesIO())
        f.seek(0)
        ob = self.A.importFile(f)
        if ob is None or ob is self.nodes[src]:
            raise Mismatch('import', 'no-copy', 'importFile did not return a new object')
        ob.name = node_name(c)
        if has_newargs(self.kinds[c]):
            ob.tag = node_name(c)
        for key in [k for k in ob.__dict__ if k.startswith('e_%d_' % src)]:      # the copy's self-references
            v = ob.__dict__[key]
            delattr(ob, key)
            setattr(ob, 'e_%d_' % c + key.split('_', 2)[2], v)
        self.nodes[c] = ob

    def touch_elsewhere(self, n):
        """the loading connection B (classes of GONE_MOD missing) changes node n and commits"""
        if self.B is None:
            raise RuntimeError('TouchElsewhere with connection B not open')
        self.tmb.abort()
        ob = self.B.get(self.nodes[n]._p_oid)
        self.counts['touches'] += 1
        ob.touch = self.counts['touches']
        self.tmb.commit()
        ob._p_invalidate()      # B drops its copy: the next traversal reads what B wrote

    def monitor(self, action, state):
        """The property monitor: where TLC says that this step of the code-as-it-is model breaks the property
        (fields of `res`, flags of obs.view), and the real code has just been seen to take that very step, the
        violation is established on the code.  Recorded; the replay goes on."""
        res = state.get('res') or {}
        if action == 'Commit' and res.get('orphans'):
            self.soft.setdefault(('Commit', 'stored-iff', 'orphan-after-savepoint'),
                                 'the commit stored %s: new, not reachable from any stored object and never add()ed '
                                 '(written by a savepoint and unlinked again before the commit)' % sorted(res['orphans']))
        if action == 'Commit' and res.get('dangling'):
            self.soft.setdefault(('Commit', 'dangling', 'undone-import-reattached'),
                                 'the commit wrote ordinary references to %s, which have no record' % sorted(res['dangling']))
        if action == 'TouchElsewhere' and res.get('lost'):
            self.soft.setdefault(('TouchElsewhere', 'record', 'missing-class-reduce-args-rewritten'),
                                 'a connection lacking the class re-stored node %s: the embedded GoneValue(ref) was written '
                                 'back as GoneValue.__new__(GoneValue, ref); where the class exists the value now loads '
                                 'empty (reference lost)' % sorted(res['lost']))

    # ---- projections ----
    def check_connection_a(self, state, after_pack=False):
        has = {n for n in self.kinds if self.nodes[n]._p_oid is not None}
        if has != set(state['hasOid']):
            raise Mismatch('hasOid', 'extra' if has - set(state['hasOid']) else 'missing',
                           'objects with an oid in connection A: spec %s, implementation %s' % (
                               sorted(state['hasOid']), sorted(has)))
        oids = [self.nodes[n]._p_oid for n in has]
        if len(set(oids)) != len(oids):
            raise Mismatch('identity', 'oid-twice', 'two objects of connection A share an oid: %r' % (oids,))
        if after_pack:
            return
        added = {self.ids.get(('1', o), o) for o in self.A._added}
        if added != set(state['added']):
            raise Mismatch('added', 'set', 'add()ed and pending: spec %s, implementation %s' % (
                sorted(state['added']), sorted(added, key=repr)))
        for n in sorted(has):
            ob = self.nodes[n]
            if n in state['added']:
                continue
            if bool(ob._p_changed) != (n in state['dirty']):
                raise Mismatch('dirty', 'changed' if ob._p_changed else 'clean',
                               'node %d: spec %s, implementation _p_changed=%r' % (
                                   n, 'changed' if n in state['dirty'] else 'unchanged', ob._p_changed))
            if self.A.get(ob._p_oid) is not ob:
                raise Mismatch('identity', 'connection-a', 'connection A answers get(oid of node %d) with another object' % n)
        # what connection A holds (re-read from the database when the cache was minimised)
        from ZODB.POSException import POSKeyError
        for n in sorted(self.kinds):
            ob = self.nodes[n]
            if n in state.get('stale', ()):
                try:
                    ob._p_activate()
                except POSKeyError:
                    continue
                raise Mismatch('stale', 'loads', 'node %d: the specification of the code as it is says the object owns an oid '
                               'without a record; it loads' % n)
            if ob._p_jar is None and ob._p_changed is None:
                # an ownerless ghost: what is left of an imported copy whose import was undone; the slot is free again
                ob = self.nodes[n] = make_node(self.kinds[n], node_name(n))
            was_changed = ob._p_changed
            ob._p_activate()
            name, tag, edges, problems = decode_state(
                {k: v for k, v in ob.__dict__.items() if not k.startswith('_')},
                lambda v: isinstance(v, (persistent.Persistent, WeakRef)), self._resolve_a)
            want = edge_tuples(state['mem'][n])
            if problems or edges != want or name != node_name(n):
                raise Mismatch('memory', _edge_item(edges ^ want) if edges ^ want else 'state',
                               'node %d in connection A: spec %s, implementation %s %s' % (
                                   n, sorted(want), sorted(edges, key=repr), problems))
            if bool(ob._p_changed) != bool(was_changed):
                raise RuntimeError('reading node %d changed its _p_changed flag' % n)

    def _resolve_a(self, holder, ref):
        if isinstance(ref, WeakRef):
            target, kind = ref(), 'weak'
        else:
            target, kind = ref, 'strong'
        for n, ob in self.nodes.items():
            if ob is target:
                return (n, kind, holder)
        return ('unknown:%s' % _short(target), kind, holder)

    def _load_raw(self, oid):
        from ZODB.POSException import POSKeyError
        try:
            return self.st1.load(oid, '')[0]
        except POSKeyError:
            return None

    def check_storage(self, state):
        """Raw records of database "1" against `stored`; referencesf / get_refs against obs.refs."""
        from ZODB import serialize
        stored = state['stored']
        present = 0
        for n in sorted(self.kinds):
            ob = self.nodes[n]
            want = stored[n]
            data = self._load_raw(ob._p_oid) if ob._p_oid is not None else None
            if (data is not None) != want['p']:
                raise Mismatch('stored', 'extra' if data is not None else 'missing',
                               'record of node %d (%s): spec %s, implementation %s' % (
                                   n, self.kinds[n], 'present' if want['p'] else 'absent',
                                   'present' if data is not None else 'absent'))
            if data is None:
                continue
            present += 1
            self.counts['records'] += 1
            with hidden(CLS_MOD, GONE_MOD, PY2_MOD) as watch:
                rec = read_record(data)
                try:
                    rf = serialize.referencesf(data)
                    gr = serialize.get_refs(data)
                    rerr = None
                except Exception as ex:
                    rf = gr = None
                    rerr = '%s: %s' % (type(ex).__name__, str(ex)[:120])
                imported = list(watch.seen)
            if rec['error']:
                raise Mismatch('record', 'unreadable', 'record of node %d: %s' % (n, rec['error']))
            if rec['embedded']:
                raise Mismatch('embedded', rec['embedded'][0].split('.')[-1],
                               'record of node %d embeds instances of %s instead of references' % (n, rec['embedded']))
            cls = KIND_CLASS[self.kinds[n]]
            wantargs = (node_name(n),) if has_newargs(self.kinds[n]) else None
            if rec['cls'] != cls or rec['newargs'] != wantargs:
                raise Mismatch('class', self.kinds[n], 'record of node %d: class description %r %r, expected %r %r' % (
                    n, rec['cls'], rec['newargs'], cls, wantargs))
            fmts = []

            def resolve(holder, ref):
                fmt, db, oid = parse_pid(ref.pid)
                fmts.append(fmt)
                dst = self.ids.get((db or '1', oid), 'unknown:%r' % (oid,))
                return (dst, FMT_KIND.get(fmt, fmt), holder)
            name, tag, edges, problems = decode_state(rec['state'], lambda v: isinstance(v, _Pid), resolve)
            wedges = edge_tuples(want['e'])
            if problems or edges != wedges or name != node_name(n):
                raise Mismatch('record', _edge_item(edges ^ wedges) if edges ^ wedges else 'state',
                               'record of node %d: spec %s, implementation %s %s' % (
                                   n, sorted(wedges), sorted(edges, key=repr), problems))
            for f in fmts:
                self.formats[f] = self.formats.get(f, 0) + 1
            # reference extraction, classes not importable
            if rerr:
                raise Mismatch('refs', 'raises', 'referencesf/get_refs on the record of node %d: %s' % (n, rerr))
            if imported:
                raise Mismatch('refs', 'imports', 'reference extraction tried to import %s' % sorted(set(imported)))
            wrefs = set(state['obs']['refs'][n])
            for fn, got in (('referencesf', rf), ('get_refs', [r[0] for r in gr])):
                if not all(isinstance(o, bytes) for o in got):
                    raise Mismatch('refs', fn + ':type', '%s(record of node %d) returned non-bytes oids %r' % (fn, n, got))
                gotn = {self.ids.get(('1', o), 'unknown:%r' % (o,)) for o in got}
                if gotn != wrefs:
                    d = gotn ^ wrefs
                    kinds = sorted({'%s/%s' % (e['kind'], e['fmt']) for e in state['obs']['view'][n]['e'] if e['dst'] in d}) \
                        or ['unknown']
                    raise Mismatch('refs', '%s:%s:%s' % (fn, 'extra' if gotn - wrefs else 'missing', kinds[0]),
                                   '%s(record of node %d, oids %s): spec %s, implementation %s' % (
                                       fn, n, self.pattern, sorted(wrefs), sorted(gotn, key=repr)))
            self.counts['refs_checked'] += 1
        total = len(self.st1)
        if total != present + 1:
            raise Mismatch('stored', 'count', 'database "1" holds %d records, specification %d (+ the root mapping)' % (
                total, present))

    # ---- LoadElsewhere ----
    def _broken(self, n):
        """does the specification (obs.view) say node n is read as a placeholder where GONE_MOD is missing"""
        return n < 100 and bool(self.view[n]['broken'])

    def _kind_check(self, n, ob, hidden_gone=True):
        from ZODB import broken
        k = self.kinds[n] if n < 100 else fkind(n)
        mod, cls = KIND_CLASS[k]
        want_broken = self._broken(n) and (hidden_gone or not is_gone(k))
        if want_broken and not is_gone(k):
            mod = PY2_RENAMED                  # Py2Remap: the class is looked for under the renamed module
        t = type(ob)
        if (t.__module__, t.__name__) != (mod, cls):
            return 'is a %s.%s' % (t.__module__, t.__name__)
        if want_broken != isinstance(ob, broken.PersistentBroken):
            return 'placeholder=%s' % isinstance(ob, broken.PersistentBroken)
        if want_broken and not is_gone(k):
            self.counts['placeholders_py2'] += 1
            self.soft.setdefault(('LoadElsewhere', 'class', 'py2-module-name-remapped'),
                                 'node %d, an instance of the importable class %s.%s, is read as a placeholder of %s.%s '
                                 '(the module name is also a Python 2 stdlib name and is renamed on every read)' % (
                                     n, KIND_CLASS[k][0], cls, mod, cls))
        return None

    def _state_of(self, n, ob):
        from ZODB import broken
        k = self.kinds.get(n, 'plain') if n < 100 else fkind(n)
        if isinstance(ob, broken.PersistentBroken):
            ob._p_activate()
            st = ob.__Broken_state__
            if has_newargs(k):
                args = getattr(ob, '__Broken_newargs__', None)
                if args is None:
                    # recorded, and the behaviour goes on: everything else about the node is still judged
                    self.soft.setdefault(('LoadElsewhere', 'placeholder', 'newargs-lost'),
                                         'placeholder of node %d (%s) has no __Broken_newargs__ any more (the connection '
                                         'deactivated it since it was created)' % (n, k))
                elif args != (node_name(n),):
                    raise Mismatch('class', k, 'placeholder of node %d carries constructor arguments %r' % (n, args))
            return st
        ob._p_activate()
        return {a: v for a, v in ob.__dict__.items() if not a.startswith('_')}

    # ---- the loading connection B and its life-cycle ----
    def _b_conn(self, db):
        return self.B if db == '1' else self.B.get_connection(db)

    def open_b(self, res):
        """db.open(): the pooled connection comes back (and resets its cache if resetCaches() ran)."""
        import transaction
        if self.B is not None:
            self.tmb.abort()                 # B is open: bring it to a new transaction
            return
        if self.tmb is None:
            self.tmb = transaction.TransactionManager()
        B = self.db1.open(self.tmb)
        if res['reused'] and B is not self.Bclosed:
            raise RuntimeError('the pool of database "1" did not hand back the closed connection')
        self.B, self.Bclosed = B, None

    def close_b(self):
        self.tmb.abort()
        self.B.close()
        self.B, self.Bclosed = None, self.B

    def check_handles(self, after):
        """every object handed out in this cache generation is still THE object of its oid"""
        for (db, oid), ob in sorted(self.handles.items()):
            if self._b_conn(db).get(oid) is not ob:
                raise Mismatch('identity', 'changed-object', 'after %s, get(oid) of node %s in the re-used connection is not '
                               'the object handed out earlier in the same cache generation' % (after, self.ids.get((db, oid))))
            self.counts['handle_checks'] += 1

    def lifecycle(self, action, res):
        """MinimizeAllB / MinimizeSomeB / AbortB / CloseB / ResetCaches on the real connection B"""
        import sys as _sys
        if action == 'ResetCaches':
            _sys.modules['ZODB.Connection'].resetCaches()
            return
        if self.B is None:
            raise RuntimeError('%s with connection B not open' % action)
        if action == 'MinimizeAllB':
            self.B.cacheMinimize()
        elif action == 'MinimizeSomeB':
            for i, key in enumerate(sorted(self.handles)):
                if i % 2 == 0:
                    self.handles[key]._p_deactivate()
        elif action == 'AbortB':
            self.tmb.abort()
        elif action == 'CloseB':
            self.close_b()
            return
        self.check_handles(action)

    def load_elsewhere(self, state):
        from ZODB.POSException import POSKeyError
        self.counts['loads'] += 1
        res = state['res']
        view = self.view = state['obs']['view']
        exports = {}
        with hidden(GONE_MOD):
            self.open_b(res)
            B = self.B
            if res['fresh']:
                self.counts['loads_after_reset'] += 1
            if not res['same']:
                self.handles = {}      # objects of a discarded cache generation (or none yet)
            elif self.handles:
                self.counts['loads_reusing_objects'] += 1
            if state['packed']:
                # a pack sends no invalidations: "another connection" is one that has not cached the
                # packed-away objects - the application lets go of them, the cache drops the unreferenced ghosts
                for key in [k for k in self.handles if k[0] == '1' and not view[self.ids[k]]['p']]:
                    del self.handles[key]
                B.cacheMinimize()
            seen = {}          # (db, oid) -> object: one in-memory object per oid per connection
            via = {}           # node -> object as reached through a reference (not through get)

            def identify(ob, how):
                db = ob._p_jar.db().database_name
                key = (db, ob._p_oid)
                if ob._p_jar is not self._b_conn(db):
                    raise Mismatch('identity', 'jar', 'object reached %s belongs to another connection' % how)
                if seen.setdefault(key, ob) is not ob or self._b_conn(db).get(ob._p_oid) is not ob:
                    raise Mismatch('identity', 'two-objects', 'oid %r of database %s has two in-memory objects in one '
                                   'connection (reached %s)' % (ob._p_oid, db, how))
                if self.handles.get(key, ob) is not ob:
                    raise Mismatch('identity', 'changed-object', 'the object of node %s reached %s is not the one handed out '
                                   'earlier by the same connection in the same cache generation' % (self.ids.get(key), how))
                n = self.ids.get(key)
                if n is None:
                    raise Mismatch('load', 'unknown-oid', 'reference reached %s leads to oid %r of database %s, which is '
                                   'no object of the graph' % (how, ob._p_oid, db))
                bad = self._kind_check(n, ob)
                if bad:
                    raise Mismatch('class', self.kinds.get(n, 'foreign'), 'node %d loaded %s: %s' % (n, how, bad))
                k = self.kinds[n] if n < 100 else fkind(n)
                if k == 'newargs' and _CLS.GNodeNew.new_args.get(id(ob)) != node_name(n):
                    raise Mismatch('class', k, '__new__ of node %d (reached %s) received %r, not its __getnewargs__() value' % (
                        n, how.split(' node')[0].split(' through')[0], _CLS.GNodeNew.new_args.get(id(ob))))
                return n

            from ZODB.utils import z64
            if B.root() is not B.get(z64):
                raise Mismatch('identity', 'root', 'root() and get(oid 0) give two objects')
            root = B.root()['g0']
            if identify(root, 'from the root mapping') != 0:
                raise Mismatch('load', 'root', 'the root mapping does not lead to node 0')
            via[0] = root
            for n in sorted(self.kinds):
                oid = self.nodes[n]._p_oid
                want = view[n]
                if oid is None:
                    continue
                try:
                    ob = B.get(oid)
                    ob._p_activate()       # the connection may still hold a ghost of a packed-away object
                except POSKeyError:
                    if want['p'] and want['loadable'] == 'dangling':
                        identify(ob, 'by get(oid)')      # a class-less reference in its state leads to no record
                        continue
                    ob = None
                except (AttributeError, TypeError) as ex:
                    if want['p'] and want['loadable'] == 'container':
                        # BrokenContainerUnloadable: the specification of the code as it is says so
                        self.counts['unloadable'] += 1
                        identify(ob, 'by get(oid)')
                        self.soft.setdefault(('LoadElsewhere', 'load', 'missing-container-class-unloadable'),
                                             'node %d (%s) cannot be loaded where the list / dict subclass of an embedded '
                                             'container is missing: %s: %s' % (n, self.kinds[n], type(ex).__name__, str(ex)[:80]))
                        continue
                    raise
                if ob is not None and want['loadable'] != 'ok':
                    raise Mismatch('load', 'loadable', 'node %d loads although the specification of the code as it is '
                                   '(BrokenContainerUnloadable) says it cannot' % n)
                if (ob is not None) != want['p']:
                    raise Mismatch('load', 'present' if ob is not None else 'absent',
                                   'node %d in another connection: spec %s, implementation %s' % (
                                       n, want['p'], ob is not None))
                if ob is None:
                    continue
                if identify(ob, 'by get(oid)') != n:
                    raise Mismatch('load', 'wrong-node', 'get(oid of node %d) gave another node' % n)

                def resolve(holder, ref, n=n):
                    if isinstance(ref, WeakRef):
                        kind = 'weak'
                        target = ref()
                        if target is None:
                            db = getattr(ref, 'database_name', None) or '1'
                            return (self.ids.get((db, ref.oid), 'unknown:%r' % (ref.oid,)), kind, holder, False)
                    else:
                        kind, target = 'strong', ref
                    d = identify(target, 'from node %d through a %s reference in %s' % (n, kind, holder))
                    if d < 100 and view[d]['p'] and view[d]['loadable'] != 'ok':
                        return (d, kind, holder, True)
                    try:
                        st = self._state_of(d, target)
                    except POSKeyError:
                        return (d, kind, holder, False)      # the reference leads to an oid without a record
                    via.setdefault(d, target)
                    if st.get('name') != node_name(d):
                        raise Mismatch('load', 'wrong-state', 'oid of node %d carries the state of %r' % (d, st.get('name')))
                    return (d, kind, holder, True)
                st = self._state_of(n, ob)
                name, tag, edges, problems = decode_state(
                    st, lambda v: isinstance(v, (persistent.Persistent, WeakRef)), resolve)
                wedges = edge_tuples(want['e'], alive=True)
                k = self.kinds[n]
                if has_newargs(k) and tag != node_name(n):
                    problems.append('tag %r' % (tag,))
                if problems or edges != wedges or name != node_name(n):
                    raise Mismatch('load', _edge_item(edges ^ wedges) if edges ^ wedges else 'state',
                                   'node %d (%s) loaded in another connection: spec %s, implementation %s %s' % (
                                       n, k, sorted(wedges), sorted(edges, key=repr), problems))
            # a modification made through one path (the object a referrer holds) must be visible through the
            # other (get(oid)); the abort must take it back through both
            probed = []
            for d, target in sorted(via.items()):
                if self._broken(d) or (d < 100 and view[d]['loadable'] != 'ok'):
                    continue                   # placeholders refuse modification; unloadable objects cannot be touched
                conn = target._p_jar
                target.probe = self.counts['loads']
                if conn.get(target._p_oid).__dict__.get('probe') != self.counts['loads']:
                    raise Mismatch('identity', 'modification-invisible', 'a change of node %d made through a reference is not '
                                   'visible through get(oid)' % d)
                probed.append((d, target))
                self.counts['probes'] += 1
            self.tmb.abort()
            for d, target in probed:
                other = target._p_jar.get(target._p_oid)
                other._p_activate()
                if 'probe' in other.__dict__ or 'probe' in target.__dict__ or other is not target:
                    raise Mismatch('identity', 'abort', 'after the abort node %d still shows the aborted change' % d)
            self.handles.update(seen)
            # export: a consumer of reference extraction (works on records, classes not needed); once per database state
            if self.exported_for != state['stored']:
                for n in sorted(self.kinds):
                    if not view[n]['p']:
                        continue
                    f = B.exportFile(self.nodes[n]._p_oid, io.BytesIO())
                    exports[n] = f.getvalue()
                    got = {self.ids.get(('1', o), 'unknown:%r' % (o,)) for o in export_oids(exports[n])}
                    want = set(state['obs']['exp'][n])
                    self.counts['exports'] += 1
                    if got != want:
                        raise Mismatch('export', 'extra' if got - want else 'missing',
                                       'export of node %d: spec %s, implementation %s' % (n, sorted(want), sorted(got, key=repr)))
        if exports or self.exported_for != state['stored']:
            for n in sorted(state['obs']['imp']):
                self.import_check(n, exports[n], state)
            self.exported_for = state['stored']

    def import_check(self, n, data, state):
        """The copy made by importFile must be isomorphic to the exported sub-graph."""
        import transaction
        import ZODB
        from ZODB.MappingStorage import MappingStorage
        self.counts['imports'] += 1
        view = self.view = state['obs']['view']
        st = MappingStorage()
        st.new_oid = oid_source(self.pattern)
        db = ZODB.DB(st)
        try:
            tm = transaction.TransactionManager()
            c = db.open(tm)
            try:
                top = c.importFile(io.BytesIO(data))
                c.root()['copy'] = top
                tm.commit()
            except Exception as ex:
                raise Mismatch('import', type(ex).__name__, 'import of the export of node %d raised %s: %s' % (
                    n, type(ex).__name__, str(ex)[:120]))
            c.close()
            c = db.open(transaction.TransactionManager())
            top = c.root()['copy']
            pair = {}             # copy oid -> original node
            todo = [(top, n)]
            while todo:
                ob, m = todo.pop()
                if ob._p_oid in pair:
                    if pair[ob._p_oid] != m:
                        raise Mismatch('import', 'not-isomorphic', 'copy object stands for nodes %d and %d' % (pair[ob._p_oid], m))
                    continue
                if m in pair.values():
                    raise Mismatch('import', 'not-isomorphic', 'node %d has two copies' % m)
                pair[ob._p_oid] = m
                bad = self._kind_check(m, ob, hidden_gone=False)
                if bad:
                    raise Mismatch('import', 'class', 'copy of node %d %s' % (m, bad))
                targets = {}

                def resolve(holder, ref):
                    if isinstance(ref, WeakRef) or ref._p_jar is not c:
                        return ('foreign-or-weak', 'x', holder)
                    nm = self._state_of(-1, ref).get('name')
                    d = int(nm[1:]) if isinstance(nm, str) and nm[1:].isdigit() else -1
                    targets[d] = ref
                    return (d, 'strong', holder)
                name, tag, edges, problems = decode_state(
                    self._state_of(-1, ob), lambda v: isinstance(v, (persistent.Persistent, WeakRef)), resolve)
                want = edge_tuples(view[m]['e'])
                if problems or edges != want or name != node_name(m):
                    raise Mismatch('import', _edge_item(edges ^ want) if edges ^ want else 'state',
                                   'imported copy of node %d: spec %s, implementation %s %s' % (
                                       m, sorted(want), sorted(edges, key=repr), problems))
                todo.extend((t, d) for d, t in targets.items())
            if set(pair.values()) != set(state['obs']['exp'][n]):
                raise Mismatch('import', 'incomplete', 'import of node %d copied %s, exported set %s' % (
                    n, sorted(pair.values()), sorted(state['obs']['exp'][n])))
            if len(st) != len(pair) + 1:
                raise Mismatch('import', 'count', 'import of node %d stored %d records for %d nodes' % (n, len(st) - 1, len(pair)))
            c.close()
        finally:
            db.close()


def export_oids(data):
    """oids of the records of a ZEXP export"""
    if data[:4] != b'ZEXP':
        raise Mismatch('export', 'header', 'export does not start with ZEXP')
    pos = 4
    out = []
    while True:
        h = data[pos:pos + 16]
        if h == b'\xff' * 16:
            return out
        if len(h) < 16:
            raise Mismatch('export', 'truncated', 'export file has no end marker')
        ln = struct.unpack('>Q', h[8:])[0]
        out.append(h[:8])
        pos += 16 + ln


# ---------------------------------------------------------------------------
# behaviours

def graph_case_steps(case):
    """A printed <<"GRAPH", pre, post, packed, script>> tuple as a behaviour: Init, Commit, then the script TLC
    folded over the loading connection (traversals at every stage of its life-cycle, a pack, a traversal)."""
    tag, pre, post, packed, script = case
    base = {'kinds': pre['kinds'], 'packed': False, 'res': None}
    s0 = dict(base, mem=pre['mem'], added=pre['added'], dirty=pre['dirty'], hasOid=pre['hasOid'],
              stored=None, obs=None)
    s1 = dict(base, mem=pre['mem'], added=frozenset(), dirty=frozenset(), hasOid=post['hasOid'],
              stored=post['stored'], obs=post['obs'])
    s3 = dict(s1, packed=True, stored=packed['stored'], obs=packed['obs'])
    steps = [{'action': 'InitGraphs', 'args': (), 'state': s0},
             {'action': 'Commit', 'args': (), 'state': s1}]
    cur = s1
    for e in script:
        if e['op'] == 'Pack':
            cur = s3
        steps.append({'action': e['op'], 'args': (), 'state': dict(cur, res=e['res'], bconn=e['b'])})
    return steps


def split_graph_cases(output):
    """The <<"GRAPH", ...>> values TLC printed (each spans several lines) as texts."""
    cases = []
    cur = None
    depth = 0
    for line in output.splitlines():
        if cur is None:
            if line.startswith('<< "GRAPH"'):
                cur, depth = [], 0
            else:
                continue
        cur.append(line)
        depth += line.count('<<') - line.count('>>')
        if depth == 0:
            cases.append('\n'.join(cur))
            cur = None
    if cur is not None:
        raise RuntimeError('TLC output ends inside a printed GRAPH value')
    return cases


def replay_behaviour(job):
    """job = (behaviour: simulate file path | GRAPH text | steps, storage, pattern, fnodes, workdir, opts)"""
    from collections import Counter
    from .. import tlaparse
    beh, storage, pattern, fnodes, workdir, opts = job
    if isinstance(beh, str):
        if beh.startswith('<< "GRAPH"'):
            beh = graph_case_steps(norm(tlaparse.parse_value(beh)))
        else:
            beh = tlaparse.parse_simulate_file(beh)
    steps = []
    for s in beh:
        st = norm(s['state'])
        for k in ('mem', 'stored', 'kinds'):
            if st.get(k) == ():
                st[k] = {}
        steps.append((s['action'], tuple(norm(s['args'])), st))
    first = steps[0][2]
    if first.get('stored') is None:        # graph case: before the commit only the root record exists
        first['stored'] = {n: {'p': n == 0, 'e': frozenset()} for n in first['kinds']}
        first['obs'] = {'refs': {n: frozenset() for n in first['kinds']}, 'view': {n: {'p': n == 0, 'e': frozenset()} for n in first['kinds']}}
    rp = GraphReplayer(storage, pattern, workdir, opts)
    actions = Counter()
    res = {'steps': 0, 'mismatch': None, 'sig': [], 'new_stored': 0, 'edges_stored': 0, 'weak_added': 0,
           'storage': storage, 'pattern': pattern}
    try:
        _CLS.GNodeNew.new_args.clear()
        prev = None
        try:
            rp.open(first['kinds'], fnodes)
        except RuntimeError:
            raise
        except Mismatch as mm:
            res['mismatch'] = {'step': 0, 'action': 'Init', 'args': '()', 'what': mm.what, 'item': mm.item, 'detail': mm.detail,
                               'prefix': ['Init'], 'init': _jsonable({k: first[k] for k in ('kinds', 'mem', 'added')})}
            steps = []
        except Exception as ex:        # Init of the specification: the root and the foreign nodes are stored
            res['mismatch'] = {'step': 0, 'action': 'Init', 'args': '()', 'what': 'setup', 'item': type(ex).__name__,
                               'detail': 'storing the graph root raised %s: %s' % (type(ex).__name__, str(ex)[:160]),
                               'prefix': ['Init'], 'init': _jsonable({k: first[k] for k in ('kinds', 'mem', 'added')})}
            steps = []
        for i, (a, args, st) in enumerate(steps):
            actions[a] += 1
            if a == 'InitGraphs':      # the graph is the behaviour
                res['sig'].append('InitGraphs(kinds=%s; edges=%s; added=%s)' % (
                    ','.join(st['kinds'][n] for n in sorted(st['kinds'])),
                    ' '.join('%d-%s/%s->%d' % (n, e['kind'], e['holder'], e['dst']) for n in sorted(st['mem'])
                             for e in sorted(st['mem'][n], key=lambda e: (e['dst'], e['kind'], e['holder']))),
                    sorted(st['added'])))
            else:
                res['sig'].append(a + repr(args) if args else a)
            try:
                rp.step(a, args, st)
            except Mismatch as mm:
                res['mismatch'] = {'step': i, 'action': a, 'args': repr(args), 'what': mm.what, 'item': mm.item,
                                   'detail': mm.detail, 'prefix': list(res['sig']),
                                   'init': _jsonable({k: first[k] for k in ('kinds', 'mem', 'added')})}
                break
            res['steps'] += 1
            if a == 'Commit' and prev is not None:
                new = [n for n in st['stored'] if st['stored'][n]['p'] and not prev['stored'][n]['p']]
                res['new_stored'] += len(new)
                res['edges_stored'] += sum(len(st['stored'][n]['e']) for n in st['stored'])
                res['weak_added'] += sum(1 for n in new if n not in prev['added'] and not any(
                    e['dst'] == n and e['kind'] == 'strong' for m in st['stored'] for e in st['stored'][m]['e']))
            prev = st
    finally:
        res['soft'] = [{'action': k[0], 'what': k[1], 'item': k[2], 'detail': v} for k, v in sorted(rp.soft.items())]
        res['formats'] = rp.formats
        res['counts'] = rp.counts
        rp.close()
        del rp
        import gc
        gc.collect()      # a corrupted pickle cache kills the interpreter here, not in a later behaviour
    res['actions'] = dict(actions)
    return res


def _jsonable(x):
    from ..tlaparse import to_jsonable
    return to_jsonable(x)
