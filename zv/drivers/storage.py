"""Replay of ZStorage behaviours on a real storage (spec -> code), one API call per action,
comparing the outcome of the call with `res` and the answer of every revision query with `obs`."""
import base64
import os
import shutil

from .. import clock, concretize as cz
from ..concretize import p64, u64, z64, norm

METAS = {
    'm0': (b'', b'', {}),
    'm1': (b'user one', b'd' * 300, {'k': 'x' * 40}),
    'm2': (b'u' * 255, b'', {'list': [1, 2, 3]}),
    'mlong': (b'', b'd' * 65536, {}),
}


def meta_name(user, desc, ext):
    for k, (u, d, e) in METAS.items():
        if (user, desc, ext or {}) == (u, d, e):
            return k
    return 'unknown:%r/%r/%r' % (user[:10], desc[:10], ext)


def _fn(x):
    """a TLA+ function whose domain happens to be 1..n is printed (and parsed) as a sequence"""
    if isinstance(x, tuple):
        return {i + 1: v for i, v in enumerate(x)}
    return dict(x)


def diff(path, model, real, out, limit=6):
    """Structural diff; appends 'path: model=.. real=..' strings."""
    if len(out) >= limit:
        return
    if model == () and real == {}:      # TLC prints the empty function as << >>
        return
    if isinstance(model, dict) and isinstance(real, dict):
        for k in sorted(set(model) | set(real), key=repr):
            if k not in model:
                out.append('%s[%r]: only in implementation: %r' % (path, k, real[k]))
            elif k not in real:
                out.append('%s[%r]: only in specification: %r' % (path, k, model[k]))
            else:
                diff('%s[%r]' % (path, k), model[k], real[k], out, limit)
        return
    if isinstance(model, tuple) and isinstance(real, tuple) and len(model) == len(real):
        for i, (a, b) in enumerate(zip(model, real)):
            diff('%s[%d]' % (path, i), a, b, out, limit)
        return
    if model != real:
        out.append('%s: spec=%r impl=%r' % (path, model, real))


class _Blocked(BaseException):
    pass


ALIASES = {'RestoreGone': 'Restore', 'PackQ': 'Pack', 'PackFailQ': 'PackFail', 'AbortVoted': 'Abort', 'AbortStaged': 'Abort', 'EarlyStore': 'Store', 'StaleStore': 'Store', 'RestoreAny': 'Restore', 'AbortFailed': 'Abort', 'NewOidQ': 'NewOid', 'CloseReopenQ': 'CloseReopen', 'DeleteQ': 'Delete'}


class StorageReplayer:
    """kind: 'file' | 'mapping'"""

    def __init__(self, kind, consts, workdir, opts=None):
        self.kind = kind
        self.K = consts['K']
        self.noid = consts['NOid']
        self.cls = consts['Cls']          # {oid: kind}
        self.tids = cz.Tids(self.K)
        self.dir = workdir
        self.opts = opts or {}
        self.path = os.path.join(workdir, 'Data.fs')
        self.st = None
        self.t = None
        self.issued = set()
        self.monitor = []                 # C20 monitor messages
        self.calls = 0
        # concretisation parameter outside the model: model oid n <-> real oid n * stride (stride 65537 spreads the
        # objects over different 6-byte prefixes, i.e. several buckets of the two-level oid index)
        self.stride = int(self.opts.get('oid_stride', 1))
        self.real_max = 0

    def P(self, o):
        return p64(o * self.stride)

    def U(self, oid):
        v = u64(oid)
        return v // self.stride if v % self.stride == 0 else ('unmapped-oid', v)

    # ---- lifecycle ----
    def open(self, create=True):
        clock.CLOCK.set(1)
        if self.kind == 'file':
            from ZODB.FileStorage import FileStorage
            if create:
                shutil.rmtree(self.dir, ignore_errors=True)
                os.makedirs(self.dir)
            if 'fault_k' in self.opts:
                from .. import faultfs
                faultfs.reset(self.dir)
            self.st = FileStorage(self.path, **self.opts.get('fs_kw', {}))
            if self.opts.get('wrap_demo'):
                # the same behaviours through a DemoStorage whose changes are this FileStorage (empty base): every
                # answer must be the FileStorage's (C05 / C16 on the third bundled storage)
                from ZODB.DemoStorage import DemoStorage
                from ZODB.MappingStorage import MappingStorage
                self.st = DemoStorage(base=MappingStorage(), changes=self.st)
        else:
            from ZODB.MappingStorage import MappingStorage
            self.st = MappingStorage()
        return self.st

    def close(self):
        # (under a watchdog: a storage whose locks were left held must not hang the check at clean-up)
        import signal

        def _blocked(signum, frame):
            raise _Blocked()
        old = signal.signal(signal.SIGALRM, _blocked)
        try:
            signal.setitimer(signal.ITIMER_REAL, 10)
            try:
                if self.t is not None:
                    self.st.tpc_abort(self.t)
            except (Exception, _Blocked):
                pass
            signal.setitimer(signal.ITIMER_REAL, 10)
            try:
                self.st.close()
            except (Exception, _Blocked):
                pass
        finally:
            signal.setitimer(signal.ITIMER_REAL, 0)
            signal.signal(signal.SIGALRM, old)
        if self.kind == 'file':
            shutil.rmtree(self.dir, ignore_errors=True)

    def _txn(self, m='m0'):
        from ZODB.Connection import TransactionMetaData
        u, d, e = METAS[m]
        return TransactionMetaData(u.decode(), d.decode(), dict(e))

    def data(self, o, d):
        d = norm(d)
        cz.STRIDE = self.stride
        return cz.make_record(self.cls[o], d['v'], {r * self.stride for r in d['refs']}, pad=self.opts.get('pad', 0), formats=cz.FORMATS)

    # ---- one action ----
    def step(self, action, args, state):
        """Perform the call; return list of mismatch strings (empty: conforms)."""
        from ZODB import POSException as E
        st = self.st
        res = norm(state['res'])
        want = res['out']
        got = 'ok'
        extra = {}
        self.calls += 1
        action = ALIASES.get(action, action)
        import signal

        def _blocked(signum, frame):
            raise _Blocked()
        old_handler = signal.signal(signal.SIGALRM, _blocked)
        signal.setitimer(signal.ITIMER_REAL, self.opts.get('step_timeout', 20))
        if action in ('Store', 'StoreQuota', 'Restore', 'Delete') and len(args) >= 2:
            self.real_max = max(self.real_max, int(norm(args[1])) * self.stride)
        try:
            if action == 'Init':
                pass
            elif action == 'Begin':
                c, m, clk = args
                clock.CLOCK.set(clk)
                self.t = self._txn(str(m))
                st.tpc_begin(self.t)
            elif action == 'Store':
                c, o, serial, d = args
                st.store(self.P(o), self.tids.real(serial), self.data(o, d), '', self.t)
            elif action == 'StoreQuota':
                # the storage's file-size quota is reached (as if it had been opened with quota = current size)
                c, o, serial, d = args
                st._quota = 0
                try:
                    st.store(self.P(o), self.tids.real(serial), self.data(o, d), '', self.t)
                finally:
                    st._quota = None
            elif action == 'CheckCurrent':
                c, o, serial = args
                st.checkCurrentSerialInTransaction(self.P(o), self.tids.real(serial), self.t)
            elif action == 'Delete':
                c, o, serial = args
                st.deleteObject(self.P(o), self.tids.real(serial), self.t)
            elif action == 'Undo':
                c, t = args
                r = st.undo(base64.encodebytes(self.tids.real(t)).rstrip(), self.t)
                extra['oids'] = frozenset(self.U(x) for x in r[1])
            elif action == 'Restore':
                if len(args) == 2:           # RestoreGone(c, o)
                    args = [args[0], args[1], {'v': ('gone',), 'refs': frozenset()}, 0]
                c, o, d, prev = (tuple(args) + (0,))[:4]
                d = norm(d)
                data = None if d['v'] == ('gone',) else self.data(o, d)
                st.restore(self.P(o), self._tid_of_txn(state), data, '', self.tids.real(prev) if prev else None, self.t)
            elif action == 'Vote':
                if self.opts.get('second_open') and self.kind == 'file':
                    # another process (here: another storage object) tries to open the same file for writing while
                    # the transaction's records sit in the .tmp file: it must be refused WITHOUT any effect
                    from ZODB.FileStorage import FileStorage
                    try:
                        FileStorage(self.path).close()
                        got_second = 'opened'
                    except Exception as ex:
                        got_second = type(ex).__name__
                    if got_second != 'LockError':
                        raise AssertionError('a second writable open of the data file: %s' % got_second)
                r = st.tpc_vote(self.t)
                extra['oids'] = frozenset(self.U(x) for x in (r or ()))
            elif action == 'VoteFail':
                from .. import faultfs
                k = self.opts.get('fault_k', 0)
                faultfs.S.fail_filter = lambda e: e.get('file') == 'Data.fs' and e['op'] in ('write', 'truncate')
                faultfs.S.fail_kind = self.opts.get('fault_kind', 'error')
                faultfs.S.fail_persist = bool(self.opts.get('fault_persist'))
                faultfs.S.counted = 0
                faultfs.S.failed = 0
                faultfs.S.fail_at = k
                try:
                    st.tpc_vote(self.t)
                finally:
                    self.fault_hit = faultfs.S.failed
                    faultfs.S.fail_at = None
            elif action == 'Finish':
                tid = st.tpc_finish(self.t)
                extra['tid'] = self.tids.model(tid)
                self.t = None
            elif action == 'Abort':
                st.tpc_abort(self.t)
                self.t = None
            elif action == 'Wrong':
                call = str(args[0])
                other = self._txn()
                if call == 'store':
                    st.store(self.P(0), z64, self.data(0, {'v': ('v1',), 'refs': frozenset()}), '', other)
                elif call == 'vote':
                    st.tpc_vote(other)
                elif call == 'finish':
                    st.tpc_finish(other)
                elif call == 'abort':
                    st.tpc_abort(other)
                elif call == 'undo':
                    st.undo(base64.encodebytes(self.tids.real(self.K)).rstrip(), other)
                elif call == 'checkCurrent':
                    st.checkCurrentSerialInTransaction(self.P(0), z64, other)
                elif call == 'delete':
                    st.deleteObject(self.P(0), z64, other)
            elif action == 'Pack':
                sec, gc = args
                from ZODB.serialize import referencesf
                st.pack(clock.T0 + sec + 0.5, referencesf, gc=bool(gc))
            elif action == 'PackFail':
                sec, gc = args
                from ZODB.serialize import referencesf
                from .. import faultfs
                if self.opts.get('fault_target') == 'old':
                    # the removal of the previous pack's Data.fs.old fails (permissions, a directory in its place ...)
                    faultfs.S.fail_filter = lambda e: str(e.get('file', '')).endswith('.old') and e['op'] == 'remove'
                else:
                    faultfs.S.fail_filter = lambda e: str(e.get('file', '')).endswith('.pack') and e['op'] == 'write'
                faultfs.S.fail_kind = self.opts.get('fault_kind', 'error')
                faultfs.S.fail_persist = False
                faultfs.S.counted = 0
                faultfs.S.failed = 0
                faultfs.S.fail_at = self.opts.get('fault_k', 0)
                try:
                    st.pack(clock.T0 + sec + 0.5, referencesf, gc=bool(gc))
                finally:
                    self.fault_hit = faultfs.S.failed
                    faultfs.S.fail_at = None
            elif action == 'NewOid' and ((self.stride != 1 and not self.opts.get('stride_new_oid')) or self.opts.get('wrap_demo')):
                pass           # (a demo storage hands out random oids)
            elif action == 'NewOid' and self.stride != 1:
                # oids spread over several index buckets: the expectation is the same rule (largest oid seen + 1)
                # on the concrete numbers; the model's own number is not comparable
                oid = st.new_oid()
                want_oid = self.real_max + 1
                if u64(oid) != want_oid:
                    extra['oid'] = ('real', u64(oid))
                    res = dict(res, oid=('real', want_oid))
                self.real_max = max(self.real_max, u64(oid))
                self._monitor_oid(oid)
            elif action == 'NewOid':
                oid = st.new_oid()
                extra['oid'] = self.U(oid)
                self._monitor_oid(oid)
            elif action == 'CloseReopen':
                st.close()
                self.issued = set()
                self.open(create=False)
                self.real_max = int(norm(state['maxOid'])) * self.stride
            else:
                raise RuntimeError('replayer does not know action %s' % action)
        except E.ReadConflictError:
            got = 'ReadConflictError'
        except E.ConflictError:
            got = 'ConflictError'
        except E.UndoError:
            got = 'UndoError'
        except E.StorageTransactionError:
            got = 'StorageTransactionError'
        except E.POSKeyError:
            got = 'POSKeyError'
        except E.ReadOnlyError:
            got = 'ReadOnlyError'
        except E.StorageError as ex:
            got = type(ex).__name__
        except _Blocked:
            got = 'BLOCKED (call did not return within the step timeout)'
        except OSError as ex:
            got = 'OSError'
        except Exception as ex:            # anything else the real call raises is an outcome, not a crash
            got = type(ex).__name__
            self.last_exc = repr(ex)[:200]
        finally:
            signal.setitimer(signal.ITIMER_REAL, 0)
            signal.signal(signal.SIGALRM, old_handler)
        out = []
        if want in ('resolved', 'nothing-freed', 'redundant', 'empty', 'same-time'):
            want = 'ok'           # not distinguishable from the call's return value; the history comparison decides
        if action == 'Pack' and got == 'POSKeyError':
            got = 'KeyError'
        if action == 'Pack':
            # a gc=False pack that meets an undo record pointing across the pack time refuses with PackError or with
            # an AssertionError, depending on which check of copyOne / PackCopier it reaches first; both are the same
            # allowed exit (the history comparison that follows requires the database to be unchanged)
            got = 'pack-refused' if got in ('PackError', 'AssertionError') else got
            want = 'pack-refused' if want in ('PackError', 'AssertionError') else want
        if got != want:
            out.append('%s%r: spec outcome %s, implementation %s' % (action, tuple(norm(args)), want, got))
        else:
            for k, v in extra.items():
                if k in res and res[k] != v:
                    out.append('%s%r: spec %s=%r, implementation %r' % (action, tuple(norm(args)), k, res[k], v))
        return out

    def _tid_of_txn(self, state):
        return self.tids.real(norm(state['txn'])['tid'])

    def _monitor_oid(self, oid):
        """C20 monitor: an oid handed out must be new for the session and absent from the storage."""
        if oid in self.issued:
            self.monitor.append('new_oid returned %s twice in one session' % oid.hex())
        self.issued.add(oid)
        try:
            self.st.loadBefore(oid, b'\xff' * 8)
            present = True
        except KeyError:
            present = False
        if present:
            self.monitor.append('new_oid returned %s which is present in the storage' % oid.hex())

    def bytes_check(self, action, res):
        """C05 on disk: the data file after an abort is byte-identical to the file before the begin."""
        with open(self.path, 'rb') as f:
            now = f.read()
        if action == 'Begin':
            self.snap = getattr(self, 'snap_idle', now)
            return []
        if action == 'Abort':
            if now != self.snap:
                return ['data file differs after abort: %d bytes before begin, %d after abort' % (len(self.snap), len(now))]
        if action in ('Abort', 'Finish', 'Init', 'CloseReopen'):
            self.snap_idle = now
        return []

    # ---- queries ----
    def _q(self, fn, *a):
        from ZODB.POSException import POSKeyError
        try:
            return fn(*a)
        except POSKeyError:
            return KeyError
        except KeyError:
            return KeyError

    def _rev(self, data, serial, end):
        return {'k': 'rev', 'd': cz.datum_of(data), 'serial': self.tids.model(serial), 'end': self.tids.model(end)}

    def poke_oid(self, o):
        try:
            self.st.load(self.P(o), '')
        except KeyError:
            pass

    def poke(self, rng):
        """Sparse mode: a single read through the storage's reader pool (what one concurrent reader does)."""
        try:
            self.st.load(self.P(rng.randrange(self.noid)), '')
        except KeyError:
            pass

    def observe(self, model_obs, first=()):
        """Ask the real storage every question the specification's table answers."""
        st = self.st
        T = self.tids
        mo = model_obs
        cz.STRIDE = self.stride
        obs = {'lb': {}, 'cur': {}, 'ser': {}, 'revs': {}}
        order = [o for o in first if o in mo['lb']] + [o for o in mo['lb'] if o not in first]
        for o in order:        # current revisions first (newest records), then the walks back through history
            r = self._q(st.load, self.P(o), '')
            obs['cur'][o] = {'k': 'keyerr'} if r is KeyError else self._rev(r[0], r[1], None)
        for o in order:
            oid = self.P(o)
            row = {}
            for t in sorted(mo['lb'][o], reverse=True):
                r = self._q(st.loadBefore, oid, T.real(t))
                row[t] = {'k': 'keyerr'} if r is KeyError else {'k': 'none'} if r is None else self._rev(*r)
            obs['lb'][o] = row
            row = {}
            for t in mo['ser'][o]:
                r = self._q(st.loadSerial, oid, T.real(t))
                row[t] = {'k': 'keyerr'} if r is KeyError else self._rev(r, T.real(t), None)
            obs['ser'][o] = row
            r = self._q(st.history, oid, 1000)
            obs['revs'][o] = () if r is KeyError else tuple(T.model(d['tid']) for d in r)
        it = []
        for txn in st.iterator():
            recs = []
            for r in txn:
                recs.append({'oid': self.U(r.oid), 'd': cz.datum_of(r.data),
                             'dtxn': T.model(r.data_txn) if r.data_txn else 0})
                if r.tid != txn.tid:
                    recs[-1]['tid_mismatch'] = r.tid.hex()
            if self.kind != 'file':
                recs.sort(key=lambda x: x['oid'])
            ext = txn.extension
            it.append({'tid': T.model(txn.tid), 'status': txn.status,
                       'meta': meta_name(txn.user, txn.description, ext), 'recs': tuple(recs)})
        obs['iter'] = tuple(it)
        if self.kind == 'file':
            ul = st.undoLog(0, 1000)
            obs['ulog'] = tuple(T.model(base64.decodebytes(d['id'] + b'\n')) for d in ul)
        if 'itf' in mo:
            obs['itf'] = {t: tuple(T.model(x.tid) for x in st.iterator(T.real(t))) for t in _fn(mo['itf'])}
            obs['itt'] = {t: tuple(T.model(x.tid) for x in st.iterator(None, T.real(t))) for t in _fn(mo['itt'])}
        if self.kind == 'file' and 'ulw' in mo:
            m0 = METAS['m0']
            obs['ulw'] = {}
            for w, row in _fn(mo['ulw']).items():
                obs['ulw'][w] = {}
                for m in _fn(row):
                    flt = None if m == '' else (lambda d: (d['user_name'], d['description']) == (m0[0], m0[1]) and
                                                set(d) <= {'id', 'time', 'user_name', 'size', 'description'})
                    ul = st.undoLog(w[0], w[1], flt)
                    obs['ulw'][w][m] = tuple(T.model(base64.decodebytes(d['id'] + b'\n')) for d in ul)
        if self.kind == 'file' and 'linv' in mo and not self.opts.get('wrap_demo'):
            obs['linv'] = {n: tuple({'tid': T.model(t), 'oids': tuple(self.U(o) for o in oids)} for t, oids in st.lastInvalidations(n))
                           for n in mo['linv']}
            ri = {}
            for o in _fn(mo['riter']):
                try:
                    oid, tid, data, nxt = st.record_iternext(self.P(o))
                    ri[o] = {'k': 'rev', 'd': cz.datum_of(data), 'serial': T.model(tid), 'next': self.U(nxt) if nxt is not None else -1}
                    if self.U(oid) != o:
                        ri[o]['oid'] = self.U(oid)
                except KeyError:
                    ri[o] = {'k': 'keyerr'}
            obs['riter'] = ri
        obs['last'] = T.model(st.lastTransaction())
        obs['len'] = len(st)
        return obs

    def compare(self, model_obs, first=(), hist=None, ltid=None):
        mo = norm(model_obs)
        if 'riter' in mo:
            mo = dict(mo, riter=_fn(mo['riter']))
        if 'itf' in mo:
            mo = dict(mo, itf=_fn(mo['itf']), itt=_fn(mo['itt']), ulw={w: _fn(row) for w, row in _fn(mo['ulw']).items()})
        if hist is not None and self.kind == 'file' and any(t['status'] == 'p' for t in hist):
            # Below a pack only what hangs on the record chain is promised (F17, DESIGN 6/C07): a packed
            # record has no previous-record pointer, so per oid the chain consists of the revisions in
            # unpacked transactions plus the newest revision in a packed one.
            vis = {}
            for t in hist:
                for r in t['recs']:
                    v = vis.setdefault(r['oid'], {'p': None, 'u': set()})
                    if t['status'] == 'p':
                        v['p'] = t['tid']
                    else:
                        v['u'].add(t['tid'])
            visible = {o: (v['u'] | ({v['p']} if v['p'] is not None else set())) for o, v in vis.items()}
            mo = dict(mo)
            mo['lb'] = {o: {t: a for t, a in dict(row).items()
                            if not (a['k'] == 'rev' and a['serial'] not in visible.get(o, ()))}
                        for o, row in mo['lb'].items()}
            mo['ser'] = {o: {t: a for t, a in dict(row).items() if a['k'] != 'rev' or t in visible.get(o, ())}
                         for o, row in mo['ser'].items()}
            mo['revs'] = {o: tuple(t for t in row if t in visible.get(o, ())) for o, row in mo['revs'].items()}
            self._visible = visible
            maxp = max(t['tid'] for t in hist if t['status'] == 'p')
        else:
            self._visible = None
            maxp = None
        try:
            real = self.observe(mo, first)
        except Exception as ex:
            import traceback
            frames = traceback.extract_tb(ex.__traceback__)
            tb = frames[-1]
            chain = ' < '.join(f.name for f in frames[::-1][:5])
            return ['query raised %s at %s:%s (%s) [%s]' % (type(ex).__name__, os.path.basename(tb.filename), tb.name, str(ex)[:120], chain)]
        real = {k_: v for k_, v in real.items() if k_ in mo} if self.opts.get('only_asked') else real
        if self.kind != 'file':
            mo = dict(mo)
            mo.pop('ulog', None)
            mo.pop('linv', None)
            mo.pop('riter', None)
            mo.pop('ulw', None)
            mo['iter'] = tuple(dict(t, recs=tuple(sorted(t['recs'], key=lambda x: x['oid']))) for t in mo['iter'])
        if ltid is not None:
            mo = dict(mo, last=ltid)
        if self.opts.get('wrap_demo'):
            mo = {k_: v for k_, v in mo.items() if k_ not in ('linv', 'riter')}     # not offered by a demo storage
        if maxp is not None:
            # ... and where a snapshot below the pack time holds no state of an object, "unknown object" and "no
            # revision that early" are not told apart (which un-creation markers and older records survive is the
            # packer's business; nothing is promised about snapshots older than the pack time)
            def nodata(tab):
                return {o: {t: ({'k': 'no-state'} if (t <= maxp + 1 and a['k'] in ('keyerr', 'none')) else a)
                            for t, a in dict(row).items()} for o, row in tab.items()}
            mo = dict(mo, lb=nodata(mo['lb']))
            real = dict(real, lb=nodata(real['lb']))
        out = []
        diff('obs', mo, real, out)
        return out


# ---------------------------------------------------------------------------
# configurations (one source of truth for TLC and for the replayer)

CLS_MERGE1 = 'MCCls'          # oid 1 has a resolver, the rest are plain (see MCZStorage.tla)


def consts(kind, NOid=2, AtomVals=('v1', 'v2'), RefSets='NoRefs', Metas=('m0',), MaxTxn=3, MaxRecs=2,
           MaxClock=2, K=8, Cls=CLS_MERGE1, Client=('c1',), MaxUndo=2):
    if K <= MaxTxn + 1:
        K = 32           # bumps (one per begun transaction at most) must stay below the tid spacing
    return dict(Kind=kind, NOid=NOid, AtomVals=tuple(AtomVals), RefSets=RefSets, Metas=tuple(Metas), MaxTxn=MaxTxn,
                MaxRecs=MaxRecs, MaxClock=MaxClock, K=K, Cls=Cls, Client=tuple(Client), MaxUndo=MaxUndo)


def cls_map(c):
    if c['Cls'] == 'MCCls':
        return {o: ('merge' if o == 1 else 'plain') for o in range(c['NOid'])}
    if c['Cls'] == 'MCClsPlain':
        return {o: 'plain' for o in range(c['NOid'])}
    if c['Cls'] == 'MCClsMix':
        kinds = ['plain', 'merge', 'mergefail', 'broken', 'mergeconflict', 'mergeargs']
        return {o: kinds[o % len(kinds)] for o in range(c['NOid'])}
    raise ValueError(c['Cls'])


def tla_consts(c):
    def s(xs):
        return '{' + ', '.join('"%s"' % x for x in xs) + '}'
    return {'Kind': '"%s"' % c['Kind'], 'NOid': c['NOid'], 'AtomVals': s(c['AtomVals']),
            'RefSets': '<- ' + c['RefSets'], 'Metas': s(c['Metas']), 'Client': '{' + ', '.join(c['Client']) + '}',
            'MaxUndo': c['MaxUndo'], 'MaxTxn': c['MaxTxn'], 'MaxRecs': c['MaxRecs'], 'MaxClock': c['MaxClock'], 'K': c['K'],
            'Cls': '<- ' + c['Cls']}


FILE_INVARIANTS = ['TypeOK', 'TidsStrictlyIncrease', 'NoLostUpdate', 'StoredIsMerge', 'BackPointersGoBack']
PROPERTIES = ['AbortRestores', 'OnlyFinishChangesHistory', 'WrongTxnNoEffect', 'NextCanBegin', 'UndoSemantics']


def _queries(rp, a, step, sparse, rng, ltid):
    """the reads after a call, under a watchdog: a query that never returns is a divergence, not a hung check"""
    import signal

    def _blocked(signum, frame):
        raise _Blocked()
    old = signal.signal(signal.SIGALRM, _blocked)
    signal.setitimer(signal.ITIMER_REAL, rp.opts.get('query_timeout', 60))
    try:
        if sparse and ALIASES.get(a, a) not in ('Finish', 'CloseReopen', 'Init'):
            # a reader racing with the commit: while the transaction is voted it loads the oldest and
            # then the most recently committed object (the pooled read buffer is refilled next to the
            # voted bytes); otherwise an occasional single read (see DESIGN 6/C05)
            h = norm(step['state']['hist'])
            try:
                if a == 'Vote' and h and h[0]['recs'] and h[-1]['recs']:
                    rp.poke_oid(h[0]['recs'][0]['oid'])
                    rp.poke_oid(h[-1]['recs'][-1]['oid'])
                elif rng.random() < 0.2:
                    rp.poke(rng)
            except Exception as ex:          # a read of committed data that fails is an outcome, not a crash
                return ['a load of a committed object raised %s (%s) after %s' % (type(ex).__name__, str(ex)[:100], a)]
            return []
        if sparse and a == 'Finish':
            h = norm(step['state']['hist'])
            return rp.compare(step['state']['obs'], first=[r['oid'] for r in h[-1]['recs']][::-1], hist=h, ltid=ltid)
        return rp.compare(step['state']['obs'], hist=norm(step['state']['hist']), ltid=ltid)
    except _Blocked:
        return ['queries BLOCKED after %s (a read did not return within the time limit)' % a]
    finally:
        signal.setitimer(signal.ITIMER_REAL, 0)
        signal.signal(signal.SIGALRM, old)


def replay_behaviour(job):
    """job = (behaviour file path | parsed steps, kind, consts, workdir, opts).  Returns a result dict."""
    from collections import Counter
    from .. import tlaparse
    beh, kind, c, workdir, opts = job
    if isinstance(beh, str):
        beh = tlaparse.parse_simulate_file(beh)
    rc = dict(c, Cls=cls_map(c))
    rp = StorageReplayer(kind, rc, workdir, opts)
    actions = Counter()
    result = {'steps': 0, 'mismatch': None, 'monitor': [], 'txns': 0, 'sig': [], 'mode': (opts or {}).get('mode_tag')}
    import random
    sparse = bool(opts and opts.get('sparse'))
    rng = random.Random(opts.get('rng_seed', 0) if opts else 0)
    finished_tids = set()
    try:
        rp.open()
        for i, step in enumerate(beh):
            a = step['action']
            actions[a] += 1
            result['sig'].append(a + repr(tuple(norm(step['args']))))
            mm = rp.step(a, step['args'], step['state'])
            what = 'outcome'
            ltid = step['state'].get('ltid')
            if a == 'Finish' and not mm:
                # (C04: a transaction id is never handed out twice, also when a pack removed the transaction meanwhile)
                tid_ = norm(step['state']['res']).get('tid')
                if tid_ in finished_tids:
                    result['tid_reused'] = {'tid': tid_, 'step': i, 'prefix': result['sig'][:i + 1]}
                finished_tids.add(tid_)
            if opts and opts.get('wrap_demo') and mm and a == 'Finish' and ' tid=' in mm[0]:
                # a demo storage numbers its transactions from the last COMMITTED tid of its layers, a FileStorage from
                # the last tid it handed out (aborted transactions included): after an abort within one clock second
                # the numbers drift apart and the rest of the behaviour is not comparable with this model (ZDemo, C16,
                # is the model of the demo storage; this pass looks for blocked calls and wrong outcomes before that)
                result['tid_drift'] = True
                break
            if ALIASES.get(a, a) in ('VoteFail', 'PackFail') and mm and not getattr(rp, 'fault_hit', 0):
                result['fault_not_reached'] = True      # the vote issued fewer raw operations than fault_k: not a verdict
                break
            if not mm:
                what = 'obs'
                mm = _queries(rp, a, step, sparse, rng, ltid)
            if not mm and kind == 'file' and opts and opts.get('bytes_check'):
                mm = rp.bytes_check(ALIASES.get(a, a), norm(step['state']['res']))
                what = 'bytes'
            if mm:
                result['mismatch'] = {'step': i, 'action': a, 'args': repr(tuple(norm(step['args']))), 'what': what,
                                      'detail': mm[:4],
                                      'prefix': result['sig'][:i + 1]}
                break
            result['steps'] += 1
        result['monitor'] = rp.monitor
        result['txns'] = len(norm(beh[min(result['steps'], len(beh) - 1)]['state']['hist']))
    finally:
        rp.close()
    result['actions'] = dict(actions)
    return result
