"""Parallel map for the C14 replays that survives a dying worker.

A defect in reference resolution can leave two in-memory objects for one oid; the C pickle cache of
`persistent` then crashes the interpreter (SIGSEGV) at some later garbage collection.  A
multiprocessing.Pool waits for ever for a worker that died, so every chunk runs in its own forked child;
a chunk whose child died is re-run one job per child, and the job that kills its child is reported as a
result with what='crash' (a divergence: the specification says the operation succeeds)."""
import os
import pickle
import signal
import tempfile
import time


def _child(fn, items, path):
    code = 0
    try:
        out = [fn(it) for it in items]
        with open(path + '.tmp', 'wb') as f:
            pickle.dump(out, f, pickle.HIGHEST_PROTOCOL)
        os.rename(path + '.tmp', path)
    except BaseException:
        import traceback
        try:
            with open(path + '.err', 'w') as f:
                f.write(traceback.format_exc())
        except Exception:
            pass
        code = 3
    os._exit(code)


def _run_chunks(fn, chunks, scratch, workers, timeout):
    """-> {index: list of results | ('died', status) | ('error', text)}"""
    pending = list(enumerate(chunks))
    running = {}           # pid -> (index, path, deadline)
    done = {}
    base = tempfile.mkdtemp(prefix='par-', dir=scratch)
    while pending or running:
        while pending and len(running) < workers:
            i, items = pending.pop(0)
            path = os.path.join(base, 'r%d' % i)
            pid = os.fork()
            if pid == 0:
                _child(fn, items, path)
            running[pid] = (i, path, time.time() + timeout)
        pid, status = os.waitpid(-1, os.WNOHANG)
        if pid == 0:
            now = time.time()
            for p, (i, path, deadline) in list(running.items()):
                if now > deadline:
                    os.kill(p, signal.SIGKILL)
            time.sleep(0.005)
            continue
        if pid not in running:
            continue
        i, path, deadline = running.pop(pid)
        if os.path.exists(path):
            with open(path, 'rb') as f:
                done[i] = pickle.load(f)
            os.remove(path)
        elif os.path.exists(path + '.err'):
            with open(path + '.err') as f:
                done[i] = ('error', f.read())
        else:
            done[i] = ('died', status)
    return done


def pmap(fn, items, scratch, chunksize=8, workers=None, timeout=600, on_death=None):
    """Ordered map over forked children.  on_death(item, status) -> result for an item whose child died.
    Python exceptions in fn are machinery failures (raised)."""
    items = list(items)
    workers = workers or os.cpu_count() or 4
    if os.environ.get('ZV_SERIAL'):
        return [fn(it) for it in items]
    chunks = [items[i:i + chunksize] for i in range(0, len(items), chunksize)]
    done = _run_chunks(fn, chunks, scratch, workers, timeout)
    out = []
    for i, chunk in enumerate(chunks):
        r = done[i]
        if isinstance(r, tuple) and r[0] == 'error':
            raise RuntimeError('worker failed:\n' + r[1])
        if isinstance(r, tuple) and r[0] == 'died':
            single = _run_chunks(fn, [[it] for it in chunk], scratch, workers, timeout)
            r = []
            for j, it in enumerate(chunk):
                s = single[j]
                if isinstance(s, tuple) and s[0] == 'error':
                    raise RuntimeError('worker failed:\n' + s[1])
                if isinstance(s, tuple):
                    if on_death is None:
                        raise RuntimeError('worker died with status %r' % (s[1],))
                    r.append(on_death(it, s[1]))
                else:
                    r.append(s[0])
        out.extend(r)
    return out
