"""Directed scenarios for DemoStorage: the harness enumerates families of call sequences, TLC (module ZDemoScript)
evaluates each with the actions of ZDemo and thereby supplies the expected outcome, observation table and
deviation record after every call; the behaviours are then replayed on the real storages like simulated ones.
(Same mechanism as drivers/scripts.py for ZStorage, whose rendering / graph-reading helpers are reused.)"""
import os

from .. import tlaparse, tlc
from . import demo as dd
from . import scripts as sc

D = sc.D
CUR = -1                 # symbolic serial: the current one


def T(k):
    """symbolic serial: the tid of the k-th committed transaction of base \\o changes (k >= 1)"""
    return -1 - k


# ---- macro operations -> script entries -------------------------------------------------------------
def begin(clk=1, m='m0'):
    return [{'a': 'begin', 'm': m, 'clk': clk}]


def store(o, v='v1', s=CUR, refs=()):
    return [{'a': 'store', 'o': o, 's': s, 'd': D(v, refs)}]


def commit(stores, clk=1, m='m0'):
    """stores: [(oid, value)] | [(oid, value, serial)] | [(oid, value, serial, refs)]; records are staged in oid order"""
    out = begin(clk, m)
    for st in sorted(stores, key=lambda x: x[0]):
        out += store(st[0], st[1], st[2] if len(st) > 2 else CUR, st[3] if len(st) > 3 else ())
    return out + [{'a': 'vote'}, {'a': 'finish'}]


def failing(entries, clk=1):
    """a transaction whose last entry is refused: the client aborts"""
    return begin(clk) + list(entries) + [{'a': 'abort'}]


def undo(k, clk=1):
    return begin(clk) + [{'a': 'undo', 'k': k}, {'a': 'vote'}, {'a': 'finish'}]


def check(o, s=CUR):
    return [{'a': 'check', 'o': o, 's': s}]


def newoid(n):
    return [{'a': 'newoid', 'n': n}]


def pack(sec, g='false'):
    return [{'a': 'pack', 'sec': sec, 'g': g}]


def wrong(call):
    return [{'a': 'wrong', 'call': call}]


PUSH = [{'a': 'push'}]
POP = [{'a': 'pop'}]

ACTION = {'skip': 'Skip', 'begin': 'Begin', 'store': 'Store', 'check': 'CheckCurrent', 'undo': 'Undo', 'vote': 'Vote', 'finish': 'Finish',
          'abort': 'Abort', 'wrong': 'Wrong', 'newoid': 'NewOid', 'pack': 'Pack', 'push': 'Push', 'pop': 'Pop', 'init': 'Init'}


def _args(act):
    a = act['a']
    c = 'c1'
    if a == 'begin':
        return [c, act['m'], act['clk']]
    if a == 'store':
        return [c, act['o'], act['s'], act['d']]
    if a == 'check':
        return [c, act['o'], act['s']]
    if a == 'undo':
        return [c, act['k']]
    if a in ('vote', 'finish', 'abort'):
        return [c]
    if a == 'wrong':
        return [act['call']]
    if a == 'newoid':
        return [act['n']]
    if a == 'pack':
        return [act['sec'], act['g']]
    return []


def render(scripts):
    body = ',\n'.join('  << ' + ', '.join(sc._tla(e) for e in s) + ' >>' for s in scripts)
    return '---- MODULE MCDemoScripts ----\nEXTENDS ZDemoScript\nTheScripts == <<\n%s\n>>\n====\n' % body


def evaluate(scratch, name, scripts, c, timeout=600, workers=4):
    """Run TLC over all scripts -> (behaviours in script order, TLCResult).  A script that TLC cannot follow
    to its end (a call that is not enabled in the specification) is a machinery failure: the scenario
    would silently test less than it says."""
    wd = os.path.join(scratch, 'dscr-' + name)
    os.makedirs(wd, exist_ok=True)
    tlc._prepare('ZDemoScript', wd)
    with open(os.path.join(wd, 'MCDemoScripts.tla'), 'w') as f:
        f.write(render(scripts))
    k = dd.tla_consts(dict(c, PrintObs=True))
    k['Scripts'] = '<- TheScripts'
    cfg = os.path.join(wd, 'scripts.cfg')
    tlc.write_cfg(cfg, constants=k, init='SInit', next_='SNext')
    dot = os.path.join(wd, 'g.dot')
    r = _run(wd, cfg, dot, timeout, workers)
    nodes, succ = {}, {}
    with open(dot) as f:
        for line in f:
            m = sc._EDGE.match(line)
            if m:
                succ[m.group(1)] = m.group(2)
                continue
            m = sc._NODE.match(line)
            if m:
                txt = m.group(2).replace('\\n', '\n').replace('\\"', '"').replace('\\\\', '\\')
                nodes[m.group(1)] = (tlaparse.parse_state_block(txt), bool(m.group(3)))
    os.remove(dot)
    behs = {}
    for nid, (st, initial) in nodes.items():
        if not initial:
            continue
        steps = []
        cur = nid
        while cur is not None:
            s = nodes[cur][0]
            act = dd.norm(s['act'])
            steps.append({'action': ACTION[act['a']], 'args': _args(act), 'state': s})
            cur = succ.get(cur)
        behs[dd.norm(st['sid'])] = steps
    out = []
    for i, s in enumerate(scripts):
        b = behs[i + 1]
        pc = dd.norm(b[-1]['state']['pc'])
        if pc != len(s) + 1:
            raise tlc.TLCError('%s: script %d stops at entry %d of %d (%r is not enabled in ZDemo)\n%r' % (
                name, i + 1, pc, len(s), s[pc - 1], s))
        out.append(b)
    return out, r


def _run(wd, cfg, dot, timeout, workers):
    import subprocess
    import time
    cmd = tlc._java_cmd() + ['-workers', str(workers), '-metadir', os.path.join(wd, 'meta'), '-noGenerateSpecTE',
                             '-dump', 'dot,actionlabels', dot, '-config', cfg, os.path.join(wd, 'MCDemoScripts.tla')]
    e = dict(os.environ)
    e.pop('JAVA_TOOL_OPTIONS', None)
    t0 = time.time()
    p = subprocess.run(cmd, cwd=wd, env=e, stdout=subprocess.PIPE, stderr=subprocess.STDOUT, text=True, timeout=timeout)
    r = tlc.TLCResult()
    r.wall_s = time.time() - t0
    r.output = p.stdout
    m = None
    for m in tlc._RE_STATS.finditer(p.stdout):
        pass
    if m:
        r.states_generated, r.distinct = int(m.group(1)), int(m.group(2))
    if 'Model checking completed. No error has been found' not in p.stdout:
        raise tlc.TLCError('script evaluation failed:\n' + p.stdout[-3000:])
    r.ok = True
    return r


# ---- the scenario families -------------------------------------------------------------------------------
def families(bkind, ckind, rng, extra=0, layers=3, blob=False):
    """-> list of (family name, script).  bkind / ckind are the concrete kinds; what a kind does not offer
    (undo on a mapping storage) is left out, so that every script runs to its end.
    blob: oid 0 is a blob (every store of it is a storeBlob, also while the base is built)."""
    cfile = dd.KINDS[ckind] == 'file'
    bfile = dd.KINDS[bkind] == 'file'
    out = []

    def add(name, s):
        out.append((name, s))

    # A. the seam: nb revisions of an object in the base, nc in the changes, read at every boundary
    for o in (0, 1):
        for nb in (0, 1, 2):
            for nc in (0, 1, 2, 3):
                s = []
                clk = 0
                for i in range(nb):
                    clk += 1
                    s += commit([(o, ('v1', 'v2')[i % 2])] + ([(1 - o, 'v1')] if i == 0 else []), clk=clk)
                s += PUSH
                for i in range(nc):
                    clk += 1
                    s += commit([(o, ('v2', 'v1')[i % 2])], clk=clk)
                clk += 1
                s += commit([(1 - o, 'v2')], clk=clk)                 # the other object: base-only until now
                add('seam', s)
    # B. conflicts across the layers: stale serials that name a revision of the base / of the changes
    for o in (0, 1):                                                   # oid 1 has a resolver, oid 0 has none
        def stale(entries, clk):
            return commit(entries, clk) if o == 1 else failing([e for x in entries for e in store(*x)], clk)
        # base T1, changes T2; a writer that read the base revision
        add('conflict', commit([(0, 'v1'), (1, 'v1')], 1) + PUSH + commit([(o, 'v2')], 2) + stale([(o, 'v1', T(1))], 3)
            + commit([(o, 'v2')], 4))
        # base T1 T2, nothing in the changes yet; a writer that read T1
        add('conflict', commit([(0, 'v1'), (1, 'v1')], 1) + commit([(o, 'v2')], 2) + PUSH + stale([(o, 'v1', T(1))], 3)
            + commit([(o, 'v1')], 4))
        # base T1, changes T2 T3; a writer that read T2, one that read T1
        add('conflict', commit([(0, 'v1'), (1, 'v1')], 1) + PUSH + commit([(o, 'v2')], 2) + commit([(o, 'v1')], 3)
            + stale([(o, 'v2', T(2))], 4) + stale([(o, 'v2', T(1))], 5))
        # a serial that never existed for the object / a new object stored twice
        add('conflict', commit([(0, 'v1')], 1) + PUSH + commit([(1, 'v1', 0)], 2) + failing(store(1, 'v2', 0), 3)
            + failing(store(0, 'v2', 0), 3) + commit([(o, 'v2')], 4))
        # readCurrent against both layers
        add('check', commit([(0, 'v1'), (1, 'v1')], 1) + PUSH + begin(2) + check(o) + store(1 - o, 'v2') + [{'a': 'vote'}, {'a': 'finish'}]
            + commit([(o, 'v2')], 3) + failing(check(o, T(1)), 4) + begin(4) + check(o) + check(1 - o) + [{'a': 'abort'}])
    # C. undo through the demo storage
    if cfile:
        for o in (0, 1):
            # second change to a base object undone: a back-pointer inside the changes
            add('undo', commit([(0, 'v1'), (1, 'v1')], 1) + PUSH + commit([(o, 'v2')], 2) + commit([(o, 'v1')], 3)
                + undo(-1, 4) + commit([(o, 'v2')], 5))
            # first change to a base object undone, then read and written again
            add('undo-first', commit([(0, 'v1'), (1, 'v1')], 1) + PUSH + commit([(o, 'v2')], 2) + undo(-1, 3)
                + failing(store(o, 'v2'), 4) + commit([(1 - o, 'v2')], 4))
            # creation of a new object in the changes undone; the id asked for again
            add('undo-create', commit([(1 - o, 'v1')], 1) + PUSH + newoid(o) + commit([(o, 'v1', 0)], 2) + undo(-1, 3)
                + newoid(o) + commit([(1 - o, 'v2')], 4))
            # a transaction of the base cannot be undone through the demo storage
            add('undo-base', commit([(o, 'v1')], 1) + PUSH + commit([(o, 'v2')], 2) + failing([{'a': 'undo', 'k': 1}], 3)
                + commit([(o, 'v1')], 3))
            # undo of a change that was resolved across the layers
            add('undo', commit([(0, 'v1'), (1, 'v1')], 1) + PUSH + commit([(1, 'v2')], 2) + commit([(1, 'v1', T(1))], 3)
                + undo(-1, 4))
    # D. id allocation with _next_oid left on an id of the base, of the changes, an issued one
    add('new_oid', commit([(0, 'v1')], 1) + PUSH + newoid(0) + newoid(1) + newoid(1) + commit([(1, 'v1', 0)], 2) + newoid(1)
        + newoid(0))
    add('new_oid', PUSH + newoid(1) + failing(store(1, 'v1', 0), 1) + newoid(1) + begin(2) + newoid(0) + store(0, 'v1', 0)
        + [{'a': 'vote'}, {'a': 'finish'}] + newoid(0) + newoid(1))
    add('new_oid', commit([(1, 'v1')], 1) + PUSH + commit([(0, 'v1', 0)], 2) + newoid(1) + newoid(0))
    # E. stacking: push / pop
    if layers >= 3:
        for o in (0, 1):
            add('push', commit([(0, 'v1'), (1, 'v1')], 1) + PUSH + commit([(o, 'v2')], 2) + PUSH + commit([(o, 'v1')], 3)
                + commit([(1 - o, 'v2')], 4) + newoid(o) + POP + commit([(o, 'v1')], 5) + PUSH + commit([(o, 'v2')], 6))
            add('push', commit([(o, 'v1')], 1) + PUSH + PUSH + commit([(o, 'v2')], 2) + commit([(o, 'v1')], 3)
                + (commit([(o, 'v2', T(1))], 4) if o == 1 else failing(store(o, 'v2', T(1)), 4)) + POP + newoid(1 - o)
                + commit([(o, 'v2')], 5))
        if cfile:
            add('push', commit([(1, 'v1')], 1) + PUSH + commit([(1, 'v2')], 2) + PUSH + commit([(1, 'v1')], 3)
                + failing([{'a': 'undo', 'k': 2}], 4) + undo(-1, 4) + POP + undo(-1, 5))
    # F. the clock stalls or steps back between the last base transaction and the first change
    for back in (0, 1):
        add('clock', commit([(0, 'v1'), (1, 'v1')], 2) + PUSH + commit([(1, 'v2')], 2 - back) + commit([(0, 'v2')], 2)
            + commit([(1, 'v1')], 3))
    add('clock', commit([(0, 'v1')], 1) + commit([(0, 'v2')], 1) + PUSH + commit([(0, 'v1')], 1) + commit([(0, 'v2')], 2))
    # G. pack through the demo storage (what each flavour makes of the gc argument)
    # (not on own changes that hold blobs: they end up wrapped in a BlobStorage, whose pack() takes no gc argument
    #  and removes blob files by its own rule - F15, C13)
    for g in ('none', 'false', 'true') if not (blob and ckind == 'temp') else ():
        add('pack', commit([(0, 'v1'), (1, 'v1')], 1) + PUSH + commit([(0, 'v2'), (1, 'v2')], 2) + commit([(1, 'v1')], 3)
            + pack(3, g) + commit([(0, 'v1')], 4) + pack(2, g))
    if ckind == 'temp' and not blob:
        # a pack (without garbage collection) removes the first change(s) of an object of the base: what do the
        # snapshots below the first revision left read?  (pack time after / between / before the changes)
        both = commit([(0, 'v1'), (1, 'v1')], 1)
        for sec in (3, 2, 1):
            add('pack-seam', both + PUSH + commit([(0, 'v2'), (1, 'v2')], 2) + commit([(0, 'v1'), (1, 'v1')], 3) + pack(sec, 'false')
                + commit([(1, 'v2')], 4))
        add('pack-seam', both + PUSH + commit([(1, 'v2')], 2) + commit([(1, 'v1')], 3) + commit([(1, 'v2')], 4) + pack(3, 'false')
            + pack(4, 'false'))
        add('pack-seam', both + PUSH + commit([(0, 'v2')], 2) + commit([(0, 'v1')], 3) + pack(3, 'none'))
        if layers >= 3:
            add('pack-seam', both + PUSH + commit([(1, 'v2')], 2) + PUSH + commit([(1, 'v1')], 3) + commit([(1, 'v2')], 4)
                + pack(4, 'false') + POP + commit([(1, 'v1')], 5) + pack(5, 'false'))
    if ckind == 'temp' and not blob:
        # the demo storage's own changes are packed with garbage collection unless gc=False is passed:
        # references that lead into the base / a root that lives in the base only
        for g in ('none', 'true', 'false'):
            base = commit([(0, 'v1', CUR, (1,)), (1, 'v1')], 1)
            add('pack-gc', base + PUSH + commit([(0, 'v2', CUR, (1,))], 2) + pack(2, g) + commit([(1, 'v2')], 3))
            add('pack-gc', base + PUSH + commit([(1, 'v2')], 2) + pack(2, g) + commit([(1, 'v1')], 3))
            add('pack-gc', base + PUSH + commit([(1, 'v2')], 2) + commit([(1, 'v1')], 3) + pack(2, g) + commit([(0, 'v2', CUR, (1,))], 4))
            add('pack-gc', base + PUSH + commit([(0, 'v2', CUR, (1,)), (1, 'v2')], 2) + commit([(1, 'v1')], 3) + pack(3, g)
                + commit([(1, 'v2')], 4))
    if blob:
        # storeBlob with a serial that is not the current one of base \o changes
        two = commit([(0, 'v1'), (1, 'v1')], 1) + commit([(0, 'v2')], 2)
        # ... naming an older base revision, the object still lives in the base only: aborted / committed
        add('blob', two + PUSH + failing(store(0, 'v1', T(1)), 3) + commit([(0, 'v1')], 3))
        add('blob', two + PUSH + commit([(0, 'v1', T(1))], 3) + commit([(0, 'v2')], 4))
        # ... naming no revision at all ("new object") although the base holds the object
        add('blob', commit([(0, 'v1')], 1) + PUSH + commit([(0, 'v2', 0)], 2) + commit([(0, 'v1')], 3))
        # ... once the object is in the changes the changes storage objects: base serial, changes serial, none
        add('blob', two + PUSH + commit([(0, 'v1')], 3) + failing(store(0, 'v2', T(2)), 4) + failing(store(0, 'v2', T(1)), 4)
            + commit([(0, 'v2')], 4) + failing(store(0, 'v1', T(3)), 5) + failing(store(0, 'v1', 0), 5) + commit([(0, 'v1')], 5))
        # ... through a pushed demo storage: its changes are empty, the object lives two layers down
        if layers >= 3:
            add('blob', two + PUSH + commit([(0, 'v1')], 3) + PUSH + failing(store(0, 'v2', T(2)), 4) + commit([(0, 'v2', T(3))], 4)
                + commit([(0, 'v1')], 5) + POP + commit([(0, 'v2')], 6))
    # H. refused calls and aborts leave no trace
    add('abort', commit([(0, 'v1')], 1) + PUSH + begin(2) + store(0, 'v2') + store(1, 'v1', 0) + wrong('store') + wrong('vote')
        + wrong('finish') + wrong('abort') + wrong('checkCurrent') + (wrong('undo') if cfile else []) + [{'a': 'vote'}, {'a': 'abort'}]
        + commit([(0, 'v2')], 3))
    # random mixtures of the above ingredients
    for _ in range(extra):
        s = []
        clk = [1]

        def tick():              # the clock value of the next begin: stalls or advances by one second
            clk[0] = min(clk[0] + rng.choice((0, 1, 1)), 6)
            return clk[0]
        for i in range(rng.randint(0, 2)):
            s += commit([(o, rng.choice(('v1', 'v2'))) for o in rng.sample((0, 1), rng.randint(1, 2))], tick() if i else 1)
        if bfile and s and rng.random() < 0.3:
            s += undo(-1, tick())
        s += PUSH
        depth = 2
        ntx = len([e for e in s if e['a'] == 'finish'])
        for i in range(rng.randint(2, 5)):
            x = rng.random()
            if x < 0.55:
                s += commit([(o, rng.choice(('v1', 'v2'))) for o in rng.sample((0, 1), rng.randint(1, 2))], tick())
                ntx += 1
            elif x < 0.7 and ntx >= 1:
                s += commit([(1, rng.choice(('v1', 'v2')), T(rng.randint(1, ntx)))], tick())
                ntx += 1
            elif x < 0.8 and layers >= 3 and depth == 2:
                s += PUSH
                depth = 3
            elif x < 0.88 and depth == 3:
                s += POP
                depth = 2
                break                          # the symbolic tid index no longer names what it did
            else:
                s += newoid(rng.randint(0, 1))
        add('mix', s)
    return out
