"""Replay of ZDemo behaviours on real DemoStorage stacks (spec -> code).

One API call per action on the top storage of the stack (the plain base storage while the base history is
built, then DemoStorage(base=..., changes=...), then demo.push(changes=...)).  After every call
  * the outcome of the call is compared with `res`,
  * the answer of every revision query of the top storage is compared with the table `obs` TLC printed
    (loadBefore at every tid boundary, load, loadSerial, getTid, history at every size, iterator whole and
    from every start tid, undoLog, lastTransaction, len),
  * every storage below the top is compared with the snapshot taken when it was wrapped (file bytes /
    records, transactions, last tid, "not in a transaction", every file of its blob directory).
Blob records: on flavours where every layer keeps blobs (a FileStorage with a blob directory below; one, or the
demo storage's own changes - wrapped in a BlobStorage on first use - on top) the oids in BlobOids are blobs: every
Store of them is a storeBlob with a file from temporaryDirectory(), and the value of every revision in the table is
what loadBlob / openCommittedBlobFile of the top storage serve for (oid, serial) (newest from the changes, else base).
Where TLC's `dev` says the transcription differs from the meaning (one database holding base \\o changes) and
the real storage conforms to the transcription, the real code has the deviation: reported as `genuine`.

The helpers of the ZStorage replayer are reused (concretisation of tids / oids / records, metadata shapes,
structural diff, outcome mapping, step watchdog)."""
import base64
import hashlib
import os
import shutil
import signal

from .. import clock, concretize as cz
from ..concretize import p64, u64, z64, norm
from .storage import METAS, meta_name, diff, _Blocked

ALIASES = {'AbortFailed': 'Abort', 'AbortVoted': 'Abort', 'CheckCurrentQ': 'CheckCurrent', 'WrongQ': 'Wrong',
           'StoreQ': 'Store', 'UndoQ': 'Undo',
           'NewOidQ': 'NewOid', 'PackQ': 'Pack', 'PushQ': 'Push', 'PopQ': 'Pop'}
# concrete storage kind -> kind of the model ('temp': the demo storage creates its own changes, a MappingStorage)
KINDS = {'file': 'file', 'mapping': 'mapping', 'fileblob': 'file', 'temp': 'mapping'}
AS_CODE = dict(TidFromChangesOnly=True, UndoUncreates=True, OidProbeByLoad=True, PackAsCode=True, BlobStoreSkipsBaseCheck=True,
               PackRevealsBase=True)
REPAIRED = dict(TidFromChangesOnly=False, UndoUncreates=False, OidProbeByLoad=False, PackAsCode=False,
                BlobStoreSkipsBaseCheck=False, PackRevealsBase=False)
# Blob records: what a connection stores for a ZODB.blob.Blob (class pickle + None state).  The model value of a blob
# oid lives in the blob file: one JSON line (+ padding); every record of a blob oid goes through storeBlob and is
# read back through loadBlob / openCommittedBlobFile of the top storage.
BLOB_RECORD = b'\x80\x03cZODB.blob\nBlob\nq\x00.\x80\x03N.'


def blob_capable(bkind, ckind):
    """both layers keep blob files: a FileStorage with a blob directory below, and one - or the demo storage's own
    changes, which it wraps in a BlobStorage on first use (_blobify) - on top"""
    return bkind == 'fileblob' and ckind in ('fileblob', 'temp')


def blob_bytes(v, pad=0):
    import json
    return json.dumps(cz.val_to_py(v)).encode() + b'\n' + b'b' * pad


def blob_value(b):
    import json
    return cz.py_to_val(json.loads(b.split(b'\n', 1)[0].decode()))


BLOB_CAUSE = 'storeBlob-skips-merged-serial-check'
STALE_CAUSE = 'pack-reveals-lower-revision'


class ReplayError(Exception):
    """The replayer itself could not proceed (machinery failure, never a verdict)."""


class DemoReplayer:
    def __init__(self, bkind, ckind, consts, workdir, opts=None):
        self.bkind, self.ckind = bkind, ckind
        self.K = consts['K']
        self.noid = consts['NOid']
        self.cls = consts['Cls']
        self.tids = cz.Tids(self.K)
        self.dir = workdir
        self.opts = opts or {}
        self.raw = []            # the storage holding layer n (index n-1)
        self.stack = []          # the storage operated at level n: raw[0], DemoStorage, pushed DemoStorage ...
        self.snaps = []          # snapshot of raw[i] taken when it was wrapped
        self.t = None
        self.issued = []         # per level: oids handed out by that demo storage
        self.monitor = []
        self.calls = 0
        self.nfiles = 0
        self.lower_checks = 0
        self.blob_oids = set(consts.get('BlobOids', ()))
        if self.blob_oids and not blob_capable(bkind, ckind):
            raise ReplayError('blob oids on a flavour whose layers do not all keep blobs: %s/%s' % (bkind, ckind))
        self.events = set()      # blob paths taken (for the vacuity count)
        self._blobs = {}         # (oid, serial) -> value read in this round of queries

    # ---- lifecycle ----
    @property
    def st(self):
        return self.stack[-1]

    def kind_of(self, level):
        return KINDS[self.bkind if level == 1 else self.ckind]

    def _new_raw(self, kind):
        if kind == 'mapping':
            from ZODB.MappingStorage import MappingStorage
            return MappingStorage('layer%d' % (len(self.raw) + 1))
        from ZODB.FileStorage import FileStorage
        self.nfiles += 1
        d = os.path.join(self.dir, 'L%d' % self.nfiles)
        os.makedirs(d)
        kw = {}
        if kind == 'fileblob':
            kw['blob_dir'] = os.path.join(d, 'blobs')
        return FileStorage(os.path.join(d, 'Data.fs'), **kw)

    def open(self):
        import tempfile
        clock.CLOCK.set(1)
        shutil.rmtree(self.dir, ignore_errors=True)
        os.makedirs(self.dir)
        self._tempdir = tempfile.tempdir
        tempfile.tempdir = self.dir          # DemoStorage._blobify makes its blob directory with tempfile.mkdtemp
        s = self._new_raw(self.bkind)
        self.raw, self.stack, self.snaps, self.issued = [s], [s], [], [set()]

    def close(self):
        try:
            if self.t is not None:
                self.st.tpc_abort(self.t)
        except Exception:
            pass
        for s in reversed(self.raw):
            try:
                s.close()
            except Exception:
                pass
        import tempfile
        tempfile.tempdir = getattr(self, '_tempdir', None)
        shutil.rmtree(self.dir, ignore_errors=True)

    def _txn(self, m='m0'):
        from ZODB.Connection import TransactionMetaData
        u, d, e = METAS[m]
        return TransactionMetaData(u.decode(), d.decode(), dict(e))

    def data(self, o, d):
        d = norm(d)
        if o in self.blob_oids:
            if d['refs']:
                raise ReplayError('a blob record carries no references')
            return BLOB_RECORD
        return cz.make_record(self.cls[o], d['v'], d['refs'], pad=self.opts.get('pad', 0))

    # ---- the layers below the top ----
    def snapshot(self, i):
        """Contents of the storage holding layer i+1, read without going through the demo storage."""
        s = self.raw[i]
        h = hashlib.sha1()
        out = {}
        if hasattr(s, '_file_name'):
            with open(s._file_name, 'rb') as f:
                b = f.read()
            out['bytes'] = len(b)
            h.update(b)
        else:
            for oid in sorted(s._data.keys()):
                for tid, data in s._data[oid].items():
                    h.update(b'D' + oid + tid + data)
        n = 0
        for txn in s.iterator():
            ext = txn.extension
            h.update(b'T' + txn.tid + txn.status.encode() + txn.user + b'|' + txn.description + b'|' + repr(sorted((ext or {}).items())).encode())
            for r in sorted(((r.oid, r.data or b'', r.data_txn or b'') for r in txn)):
                h.update(b'R' + r[0] + b'|' + r[1] + b'|' + r[2])
            n += 1
        out.update(txns=n, last=s.lastTransaction().hex(), len=len(s), digest=h.hexdigest(),
                   in_txn=s.tpc_transaction() is not None)
        bd = self.blob_dir_of(i)
        if bd:
            hb = hashlib.sha1()
            nb = 0
            for root, dirs, files in sorted(os.walk(bd)):
                dirs.sort()
                for fn in sorted(files):
                    path = os.path.join(root, fn)
                    with open(path, 'rb') as f:
                        hb.update(os.path.relpath(path, bd).encode() + b'|' + f.read() + b'|')
                    nb += 1
            out.update(blob_files=nb, blob_digest=hb.hexdigest())
        return out

    def blob_dir_of(self, i):
        """the blob directory of the storage holding layer i+1 (None: it keeps no blobs)"""
        s = self.raw[i]
        if getattr(s, 'blob_dir', None):
            return s.blob_dir
        if i >= 1 and i < len(self.stack):
            fsh = getattr(self.stack[i].changes, 'fshelper', None)        # the BlobStorage a demo storage wrapped its changes in
            return getattr(fsh, 'base_dir', None)
        return None

    def check_lower(self):
        out = []
        for i, snap in enumerate(self.snaps):
            self.lower_checks += 1
            now = self.snapshot(i)
            if now != snap:
                ch = sorted(k for k in snap if snap[k] != now.get(k))
                out.append('lower layer changed [%s]: layer %d (%s storage below the top): %s' % (
                    ','.join(ch), i + 1, self.kind_of(i + 1), ', '.join('%s %r -> %r' % (k, snap[k], now.get(k)) for k in ch)))
        return out

    # ---- one action ----
    def step(self, action, args, state):
        from ZODB import POSException as E
        st = self.st
        res = norm(state['res'])
        want = res['out']
        got = 'ok'
        extra = {}
        self.calls += 1
        action = ALIASES.get(action, action)

        def _blocked(signum, frame):
            raise _Blocked()
        old_handler = signal.signal(signal.SIGALRM, _blocked)
        signal.setitimer(signal.ITIMER_REAL, self.opts.get('step_timeout', 8))
        try:
            if action in ('Init', 'Skip'):
                pass
            elif action == 'Begin':
                c, m, clk = args
                clock.CLOCK.set(clk)
                self.t = self._txn(str(m))
                st.tpc_begin(self.t)
            elif action == 'Store':
                c, o, serial, d = args
                if o in self.blob_oids:
                    self._store_blob(st, o, self.tids.real(serial), d, self.t)
                else:
                    st.store(p64(o), self.tids.real(serial), self.data(o, d), '', self.t)
            elif action == 'CheckCurrent':
                c, o, serial = args
                st.checkCurrentSerialInTransaction(p64(o), self.tids.real(serial), self.t)
            elif action == 'Undo':
                c, t = args
                r = st.undo(base64.encodebytes(self.tids.real(t)).rstrip(), self.t)
                extra['oids'] = frozenset(u64(x) for x in r[1])
            elif action == 'Vote':
                r = st.tpc_vote(self.t)
                extra['oids'] = frozenset(u64(x) for x in (r or ()))
            elif action == 'Finish':
                tid = st.tpc_finish(self.t)
                extra['tid'] = self.tids.model(tid)
                self.t = None
            elif action == 'Abort':
                st.tpc_abort(self.t)
                self.t = None
            elif action == 'Wrong':
                call = str(args[0])
                other = self._txn()
                if call == 'store' and 0 in self.blob_oids:
                    self._store_blob(st, 0, z64, {'v': ('v1',), 'refs': frozenset()}, other)
                elif call == 'store':
                    st.store(p64(0), z64, self.data(0, {'v': ('v1',), 'refs': frozenset()}), '', other)
                elif call == 'vote':
                    st.tpc_vote(other)
                elif call == 'finish':
                    st.tpc_finish(other)
                elif call == 'abort':
                    st.tpc_abort(other)
                elif call == 'undo':
                    st.undo(base64.encodebytes(self.tids.real(self.K)).rstrip(), other)
                elif call == 'checkCurrent':
                    st.checkCurrentSerialInTransaction(p64(0), z64, other)
            elif action == 'Pack':
                sec, g = args
                from ZODB.serialize import referencesf
                if str(g) == 'none':
                    st.pack(clock.T0 + sec + 0.5, referencesf)
                else:
                    st.pack(clock.T0 + sec + 0.5, referencesf, gc=(str(g) == 'true'))
            elif action == 'NewOid':
                st._next_oid = int(args[0])          # instance state, wherever earlier calls / the random draw left it
                oid = st.new_oid()
                extra['oid'] = u64(oid) if u64(oid) < self.noid else -1
                self._monitor_oid(oid)
            elif action == 'Push':
                from ZODB.DemoStorage import DemoStorage
                self.snaps.append(self.snapshot(len(self.raw) - 1))
                if self.ckind == 'temp':
                    top = DemoStorage(base=st) if len(self.stack) == 1 else st.push()
                    new = top.changes
                else:
                    new = self._new_raw(self.ckind)
                    top = DemoStorage(base=st, changes=new) if len(self.stack) == 1 else st.push(changes=new)
                if new in self.raw:
                    raise ReplayError('the new changes storage is already part of the stack')
                if top.base is not st or top.changes is not new:
                    got = 'NotStackedOnTop'      # not (base = the storage pushed on, changes = the new storage)
                self.raw.append(new)
                self.stack.append(top)
                self.issued.append(set())
            elif action == 'Pop':
                lower = st.pop()
                if lower is not self.stack[-2]:
                    got = 'pop returned %r, not the base' % (lower,)
                self.stack.pop()
                self.raw.pop()
                self.snaps.pop()
                self.issued.pop()
            else:
                raise ReplayError('replayer does not know action %s' % action)
        except ReplayError:
            raise
        except E.ReadConflictError:
            got = 'ReadConflictError'
        except E.ConflictError:
            got = 'ConflictError'
        except E.UndoError:
            got = 'UndoError'
        except E.StorageTransactionError:
            got = 'StorageTransactionError'
        except E.POSKeyError:
            got = 'POSKeyError'
        except E.StorageError as ex:
            got = type(ex).__name__
        except _Blocked:
            got = 'BLOCKED (call did not return within the step timeout)'
        except Exception as ex:            # anything else the real call raises is an outcome, not a crash
            got = type(ex).__name__
            self.last_exc = repr(ex)[:200]
        finally:
            signal.setitimer(signal.ITIMER_REAL, 0)
            signal.signal(signal.SIGALRM, old_handler)
        out = []
        if action == 'Skip':
            return out            # no call was made (scripted scenarios: the rest of an aborted transaction)
        if want in ('resolved', 'nothing-freed', 'redundant', 'empty', 'same-time'):
            want = 'ok'           # not distinguishable from the call's return value; the table comparison decides
        if action == 'Pack' and got == 'POSKeyError':
            got = 'KeyError'
        if got != want:
            out.append('%s%r: spec outcome %s, implementation %s' % (action, tuple(norm(args)), want, got))
        else:
            for k, v in extra.items():
                if k in res and res[k] != v:
                    out.append('%s%r: spec %s=%r, implementation %r' % (action, tuple(norm(args)), k, res[k], v))
        return out

    def _store_blob(self, st, o, serial, d, txn):
        """what Connection._store_objects does for a Blob: the bytes are in a file in the storage's temporary
        directory, storeBlob takes the record and the file"""
        tmp = st.temporaryDirectory()
        if not os.path.isdir(tmp):
            os.makedirs(tmp)
        self.nfiles += 1
        fn = os.path.join(tmp, 'zv-%d-%d.blob-tmp' % (os.getpid(), self.nfiles))
        with open(fn, 'wb') as f:
            f.write(blob_bytes(norm(d)['v'], self.opts.get('pad', 0)))
        try:
            st.storeBlob(p64(o), serial, self.data(o, d), fn, '', txn)
            self.events.add('storeBlob')
        finally:
            if os.path.exists(fn):
                os.remove(fn)            # (a refused store leaves the client's file where it was)
            self._note_blobify()

    def _note_blobify(self):
        """the demo storage wrapped its own changes in a BlobStorage (first blob call: store, load or temporary directory)"""
        if len(self.stack) > 1 and self.ckind == 'temp' and self.st.changes is not self.raw[-1]:
            self.events.add('blobify')

    def _blob_datum(self, oid, serial):
        """the value of the blob revision (oid, serial) as the top storage serves it, through both calls"""
        key = (oid, serial)
        if key in self._blobs:
            return self._blobs[key]
        st = self.st
        try:
            fn = st.loadBlob(oid, serial)
            with open(fn, 'rb') as f:
                b = f.read()
            with st.openCommittedBlobFile(oid, serial) as f:
                b2 = f.read()
            v = blob_value(b) if b == b2 else ('loadBlob and openCommittedBlobFile differ',)
            self._note_blobify()
            top = self.blob_dir_of(len(self.raw) - 1)
            if len(self.stack) > 1:
                here = top and os.path.abspath(fn).startswith(os.path.abspath(top).rstrip(os.sep) + os.sep)
                self.events.add('loadBlob-from-changes' if here else 'loadBlob-from-base')
        except KeyError:
            v = ('no blob file',)
        self._blobs[key] = d = {'v': v, 'refs': frozenset()}
        return d

    def _datum(self, oid, data, serial):
        if data is not None and data == BLOB_RECORD:
            if u64(oid) not in self.blob_oids:
                return {'v': ('blob record',), 'refs': frozenset()}
            return self._blob_datum(oid, serial)
        if u64(oid) in self.blob_oids and data is not None:
            return {'v': ('not a blob record',), 'refs': frozenset()}
        return cz.datum_of(data)

    def _monitor_oid(self, oid):
        """What the real storages say about the id just handed out (the verdict is TLC's `collides`; for an id
        outside the model's universe - a random draw - there is nothing to collide with: checked here)."""
        mine = self.issued[-1]
        self.monitor = []
        if oid in mine and u64(oid) >= self.noid:
            # (inside the universe TLC decides: an id that was stored and then removed by a pack may come again)
            self.monitor.append('new_oid returned %s twice' % oid.hex())
        mine.add(oid)
        for i, s in enumerate(self.raw):
            try:
                s.history(oid, 1)
                present = True
            except KeyError:
                present = False
            if present:
                self.monitor.append('new_oid returned an oid that has records in layer %d (%s)' % (i + 1, self.kind_of(i + 1)))

    # ---- queries ----
    def _q(self, fn, *a):
        try:
            return fn(*a)
        except KeyError:               # POSKeyError is a KeyError
            return KeyError

    def _rev(self, data, serial, end, oid=None):
        return {'k': 'rev', 'd': self._datum(oid, data, serial), 'serial': self.tids.model(serial), 'end': self.tids.model(end)}

    def observe(self, mo, layer_lens):
        st = self.st
        T = self.tids
        top_file = self.kind_of(len(self.stack)) == 'file'
        obs = {'lb': {}, 'cur': {}, 'ser': {}, 'gt': {}, 'revs': {}}
        self._blobs = {}
        for o in mo['lb']:
            oid = p64(o)
            r = self._q(st.load, oid, '')
            obs['cur'][o] = {'k': 'keyerr'} if r is KeyError else self._rev(r[0], r[1], None, oid)
            row = {}
            for t in sorted(mo['lb'][o], reverse=True):
                r = self._q(st.loadBefore, oid, T.real(t))
                row[t] = {'k': 'keyerr'} if r is KeyError else {'k': 'none'} if r is None else self._rev(r[0], r[1], r[2], oid)
            obs['lb'][o] = row
            row = {}
            for t in mo['ser'][o]:
                r = self._q(st.loadSerial, oid, T.real(t))
                row[t] = {'k': 'keyerr'} if r is KeyError else self._rev(r, T.real(t), None, oid)
            obs['ser'][o] = row
            r = self._q(st.getTid, oid)
            obs['gt'][o] = {'k': 'keyerr'} if r is KeyError else {'k': 'tid', 'serial': T.model(r)}
            r = self._q(st.history, oid, 1000)
            full = () if r is KeyError else tuple(T.model(d['tid']) for d in r)
            # every size: the answer must be the prefix of the full list (the seam arithmetic of history())
            for n in range(1, len(full) + 2):
                r = self._q(st.history, oid, n)
                part = () if r is KeyError else tuple(T.model(d['tid']) for d in r)
                if part != full[:n]:
                    full = full + (('history(size=%d)' % n,) + part,)
                    break
            obs['revs'][o] = full
        obs['iter'] = self._iter(st.iterator(), layer_lens)
        # iterator(start): what it lists must be the listed transactions from that tid on
        alltids = [t['tid'] for t in obs['iter']]
        sub = {}
        for t in sorted(set(x for x in alltids if isinstance(x, int))):
            sub[t] = tuple(T.model(x.tid) for x in st.iterator(T.real(t)))
        obs['iter_from'] = sub
        if top_file:
            ul = st.undoLog(0, 1000)
            obs['ulog'] = tuple(T.model(base64.decodebytes(d['id'] + b'\n')) for d in ul)
        obs['last'] = T.model(st.lastTransaction())
        obs['len'] = len(st)
        return obs

    def _iter(self, it, layer_lens):
        T = self.tids
        out = []
        bounds = []
        acc = 0
        for n, ln in enumerate(layer_lens):
            acc += ln
            bounds.append((acc, self.kind_of(n + 1)))
        for i, txn in enumerate(it):
            recs = []
            for r in txn:
                recs.append({'oid': u64(r.oid), 'd': self._datum(r.oid, r.data, txn.tid), 'dtxn': T.model(r.data_txn) if r.data_txn else 0})
                if r.tid != txn.tid:
                    recs[-1]['tid_mismatch'] = r.tid.hex()
            if self._layer_kind(i, bounds) != 'file':
                recs.sort(key=lambda x: x['oid'])
            out.append({'tid': T.model(txn.tid), 'status': txn.status,
                        'meta': meta_name(txn.user, txn.description, txn.extension), 'recs': tuple(recs)})
        return tuple(out)

    def _one_blob_per_txn(self, it):
        out = []
        for t in it:
            recs = list(t['recs'])
            for j, r in enumerate(recs):
                if r['oid'] in self.blob_oids and any(x['oid'] == r['oid'] for x in recs[j + 1:]):
                    recs[j] = dict(r, d={'v': ('superseded in the same transaction',), 'refs': frozenset()})
            out.append(dict(t, recs=tuple(recs)))
        return tuple(out)

    @staticmethod
    def _layer_kind(i, bounds):
        for end, kind in bounds:
            if i < end:
                return kind
        return bounds[-1][1] if bounds else 'file'

    def compare(self, model_obs, layers):
        """layers: the model's histories (for the record order of mapping layers and for what a packed file
        layer still has on its record chains)."""
        mo = dict(norm(model_obs))
        lens = [len(h) for h in layers]
        # Below a pack only what hangs on the record chain is promised (F17, DESIGN 6/C07): per oid the
        # revisions in unpacked transactions plus the newest revision in a packed one - per layer.
        if any(t['status'] == 'p' for h in layers for t in h):
            visible = {}
            for n, h in enumerate(layers):
                vis = {}
                for t in h:
                    for r in t['recs']:
                        v = vis.setdefault(r['oid'], {'p': None, 'u': set()})
                        if t['status'] == 'p' and self.kind_of(n + 1) == 'file':
                            v['p'] = t['tid']
                        else:
                            v['u'].add(t['tid'])
                for o, v in vis.items():
                    visible.setdefault(o, set()).update(v['u'] | ({v['p']} if v['p'] is not None else set()))
            mo['lb'] = {o: {t: a for t, a in dict(row).items()
                            if not (a['k'] == 'rev' and a['serial'] not in visible.get(o, ()))}
                        for o, row in mo['lb'].items()}
            mo['ser'] = {o: {t: a for t, a in dict(row).items() if a['k'] != 'rev' or t in visible.get(o, ())}
                         for o, row in mo['ser'].items()}
            mo['revs'] = {o: tuple(t for t in row if t in visible.get(o, ())) for o, row in mo['revs'].items()}
        def _blocked(signum, frame):
            raise _Blocked()
        old_handler = signal.signal(signal.SIGALRM, _blocked)
        signal.setitimer(signal.ITIMER_REAL, self.opts.get('query_timeout', 30))
        try:
            real = self.observe(mo, lens)
        except _Blocked:
            return ['queries did not return within the watchdog time (a query loops or blocks)'], None
        except Exception as ex:
            import traceback
            tb = traceback.extract_tb(ex.__traceback__)[-1]
            return ['query raised %s at %s:%s (%s)' % (type(ex).__name__, os.path.basename(tb.filename), tb.name, str(ex)[:120])], None
        finally:
            signal.setitimer(signal.ITIMER_REAL, 0)
            signal.signal(signal.SIGALRM, old_handler)
        bounds = []
        acc = 0
        for n, ln in enumerate(lens):
            acc += ln
            bounds.append((acc, self.kind_of(n + 1)))
        mo['iter'] = tuple(dict(t, recs=tuple(sorted(t['recs'], key=lambda x: x['oid'])))
                           if self._layer_kind(i, bounds) != 'file' else t for i, t in enumerate(mo['iter']))
        if self.blob_oids:
            # a transaction has one blob file per oid: of several records for a blob oid only the last one's value exists
            mo['iter'] = self._one_blob_per_txn(mo['iter'])
            real['iter'] = self._one_blob_per_txn(real['iter'])
        # projection of the printed iterator: the tids listed from each start on, in the order listed
        tids = [t['tid'] for t in mo['iter']]
        mo['iter_from'] = {t: tuple(x for x in tids if x >= t) for t in sorted(set(tids))}
        if self.kind_of(len(self.stack)) != 'file':
            mo.pop('ulog', None)
        out = []
        diff('obs', mo, real, out)
        return out, real


# ---------------------------------------------------------------------------
# configurations (one source of truth for TLC and for the replayer)

def consts(bkind, ckind, NOid=2, AtomVals=('v1', 'v2'), RefSets='NoRefs', Metas=('m0',), MaxBase=2, MaxTxn=3, MaxRecs=2, MaxClock=2,
           K=16, Cls='MCCls', Client=('c1',), MaxUndo=2, MaxLayers=2, MaxNewOid=2, MaxPack=1, PrintObs=False,
           BlobOids=(), mode=None):
    if K <= MaxBase + MaxTxn + 2:
        K = 64
    c = dict(BaseKind=bkind, ChangesKind=ckind, NOid=NOid, AtomVals=tuple(AtomVals), RefSets=RefSets, Metas=tuple(Metas),
             MaxBase=MaxBase, MaxTxn=MaxTxn, MaxRecs=MaxRecs, MaxClock=MaxClock, K=K, Cls=Cls, Client=tuple(Client),
             MaxUndo=MaxUndo, MaxLayers=MaxLayers, MaxNewOid=MaxNewOid, MaxPack=MaxPack, PrintObs=PrintObs,
             BlobOids=tuple(BlobOids))
    c.update(AS_CODE if mode is None else mode)
    return c


def cls_map(c):
    kinds = {'MCCls': lambda o: 'merge' if o == 1 else 'plain', 'MCClsAll': lambda o: 'merge',
             'MCClsPlain': lambda o: 'plain'}[c['Cls']]
    return {o: kinds(o) for o in range(c['NOid'])}


def tla_consts(c):
    def s(xs):
        return '{' + ', '.join('"%s"' % x for x in xs) + '}'

    def b(x):
        return 'TRUE' if x else 'FALSE'
    k = {'BaseKind': '"%s"' % KINDS[c['BaseKind']], 'ChangesKind': '"%s"' % KINDS[c['ChangesKind']], 'NOid': c['NOid'],
         'AtomVals': s(c['AtomVals']), 'RefSets': '<- ' + c['RefSets'], 'Metas': s(c['Metas']),
         'Client': '{' + ', '.join(c['Client']) + '}', 'Cls': '<- ' + c['Cls']}
    for n in ('MaxBase', 'MaxTxn', 'MaxRecs', 'MaxClock', 'K', 'MaxUndo', 'MaxLayers', 'MaxNewOid', 'MaxPack'):
        k[n] = c[n]
    for n in ('PrintObs', 'TidFromChangesOnly', 'UndoUncreates', 'OidProbeByLoad', 'PackAsCode', 'BlobStoreSkipsBaseCheck',
              'PackRevealsBase'):
        k[n] = b(c.get(n, AS_CODE.get(n)))
    k['BlobOids'] = '{' + ', '.join(str(o) for o in c.get('BlobOids', ())) + '}'
    k['Temporary'] = b(c['ChangesKind'] == 'temp')
    return k


INVARIANTS = ['TypeOK', 'ConflictAcrossLayers']
PROPERTIES = ['BaseUnchanged', 'OnlyFinishAndPackWrite', 'AbortRestores', 'UndoInChangesOnly', 'IssuedOrStored', 'PushPop']
# what only the repaired design satisfies (the code as it is violates them: findings)
REPAIRED_INVARIANTS = ['DemoObs', 'TidsIncreaseAcrossLayers']
REPAIRED_PROPERTIES = ['OidFreshBothLayers', 'PackServesNoStaleRevision']


def replay_behaviour(job):
    """job = (behaviour file path | parsed steps, base kind, changes kind, consts, workdir, opts) -> result dict"""
    from collections import Counter
    from .. import tlaparse
    beh, bkind, ckind, c, workdir, opts = job
    if isinstance(beh, str):
        beh = tlaparse.parse_simulate_file(beh)
    rc = dict(c, Cls=cls_map(c))
    rp = DemoReplayer(bkind, ckind, rc, workdir, opts)
    actions = Counter()
    result = {'steps': 0, 'mismatch': None, 'monitor': [], 'sig': [], 'genuine': [], 'combo': '%s/%s' % (bkind, ckind),
              'demo_txns': 0, 'base_txns': 0, 'max_layers': 1, 'seam_reads': 0, 'tags': []}
    tags = set()
    prev_real = last_real = None          # the real tables after the previous / this call
    try:
        rp.open()
        for i, step in enumerate(beh):
            a = step['action']
            name = ALIASES.get(a, a)
            args = tuple(norm(step['args']))
            result['sig'].append(name + repr(args))
            layers = norm(step['state']['layers'])
            mm = rp.step(a, step['args'], step['state'])
            what = 'outcome'
            real = None
            res = norm(step['state']['res'])
            if not mm and name == 'NewOid' and rp.monitor and not res.get('collides'):
                what = 'monitor'          # cross-check of TLC's verdict against what the real layers hold
                mm = list(rp.monitor)
            if not mm:
                what = 'base'
                mm = rp.check_lower()
            if not mm:
                what = 'obs'
                mm, real = rp.compare(step['state']['obs'], layers)
                if mm and name == 'Pack' and res.get('cause', 'none') != 'none':
                    # TLC: the code as it is may have lost revisions here (the pack failed half way); the real
                    # storage did: a deviation with TLC's cause.  What the changes hold now depends on Python's
                    # set order, so the behaviour ends here.
                    result['genuine'].append({'cause': res['cause'], 'step': i, 'prefix': result['sig'][:i + 1],
                                              'detail': ['pack raised %s and the committed changes no longer read as before' % res['out']] + mm[:3]})
                    result['steps'] += 1
                    actions[name] += 1
                    break
            if mm:
                result['mismatch'] = {'step': i, 'action': name, 'args': repr(args), 'what': what, 'detail': mm[:4],
                                      'model_out': norm(step['state']['res']).get('out'),
                                      'prefix': result['sig'][:i + 1], 'layers': len(layers)}
                break
            result['steps'] += 1
            prev_real, last_real = last_real, real
            actions[name + ('@base' if len(layers) == 1 and name not in ('Push', 'Init') else '')] += 1
            if len(layers) > 1:
                result['max_layers'] = max(result['max_layers'], len(layers))
                if name == 'Finish':
                    result['demo_txns'] += 1
                _tags(tags, name, res, layers, real)
            elif name == 'Finish':
                result['base_txns'] += 1
            if name == 'NewOid' and res.get('collides'):
                # the real new_oid returned the id the transcription returns, and TLC says that this id was
                # issued before or has records in a layer
                if not any(g['cause'] == 'new_oid-reissues-uncreated-oid' for g in result['genuine']):
                    result['genuine'].append({'cause': 'new_oid-reissues-uncreated-oid', 'step': i,
                                              'prefix': result['sig'][:i + 1],
                                              'detail': ['new_oid() with _next_oid=%d returned oid %d' % (args[0], res['oid'])] + rp.monitor[-2:]})
            if name == 'Pack' and res.get('stale') and not any(g['cause'] == STALE_CAUSE for g in result['genuine']):
                # the real storage answers after the pack as the transcription does, and TLC says that these snapshots
                # are now served a revision they were not served before the pack (the one from the layer below)
                qs = sorted(tuple(q) for q in res['stale'])
                tags.add('pack-stale')
                result['genuine'].append({'cause': STALE_CAUSE, 'step': i, 'prefix': result['sig'][:i + 1], 'detail': [
                    'after the pack loadBefore(oid %d, tid %d) returns %r; before the pack it returned %r' % (
                        q[0], q[1], (real or {}).get('lb', {}).get(q[0], {}).get(q[1]), (prev_real or {}).get('lb', {}).get(q[0], {}).get(q[1]))
                    for q in qs[:3]]})
            if name == 'Store' and res.get('lost') and not any(g['cause'] == BLOB_CAUSE for g in result['genuine']):
                # the real storeBlob accepted the record as the transcription does, and TLC says that the serial the
                # writer named is not the current revision of base \o changes (store() raises ConflictError here)
                result['genuine'].append({'cause': BLOB_CAUSE, 'step': i, 'prefix': result['sig'][:i + 1],
                                          'detail': ['storeBlob(oid %d, serial %d) was accepted; the current revision through the demo '
                                                     'storage is %r' % (args[1], args[2], (real or {}).get('cur', {}).get(args[1]))]})
            if name == 'Store' and len(layers) > 1 and args[1] in rp.blob_oids:
                if res['out'] == 'ConflictError':
                    where = 'changes' if args[2] in [t['tid'] for t in layers[-1]] else 'base' if args[2] else 'new'
                    tags.add('storeBlob-conflict(%s serial)' % where)
                else:
                    tags.add('storeBlob-ok')
            dev = norm(step['state']['dev'])
            if dev['cause'] != 'none' and not any(g['cause'] == dev['cause'] for g in result['genuine']):
                # the real storage answered every query as the transcription does, and TLC says that these
                # answers are not the answers of one database holding base \o changes
                result['genuine'].append({'cause': dev['cause'], 'step': i, 'prefix': result['sig'][:i + 1],
                                          'detail': _dev_detail(dev, real, rp, layers)})
        result['lower_checks'] = rp.lower_checks
        tags.update(e for e in rp.events if e != 'storeBlob')
    finally:
        rp.close()
    result['actions'] = dict(actions)
    result['tags'] = sorted(tags)
    return result


def _tags(tags, name, res, layers, real):
    """What the behaviour exercised through a demo storage (counted for the evidence / vacuity)."""
    top = layers[-1]
    below = set(r['oid'] for h in layers[:-1] for t in h for r in t['recs'])
    mine = set(r['oid'] for t in top for r in t['recs'])
    if name == 'Finish' and below & mine:
        tags.add('seam')                       # an object with revisions in both layers
        for o in below & mine:
            if sum(1 for t in top for r in t['recs'] if r['oid'] == o) >= 2:
                tags.add('seam-walk-2')        # the walk to the first change passes a later change
    if name == 'Store':
        out = res['out']
        if out == 'resolved':
            tags.add('resolved')
        if out == 'ConflictError':
            tags.add('conflict')
    if name == 'Finish' and top and any(r['res'] and r['base'] >= 0 and r['base'] not in [t['tid'] for t in top]
                                        for r in top[-1]['recs']):
        tags.add('resolved-across-layers')      # the writer's serial is a revision of a lower layer
    if name == 'Undo':
        tags.add('undo-' + res['out'])
    if name == 'NewOid':
        tags.add('new_oid-' + ('taken' if res['oid'] == -1 else 'free'))
    if name == 'Pack' and res['out'] == 'ok':
        tags.add('pack')
    if name in ('Push', 'Pop') and len(layers) >= 2:
        tags.add(name.lower() + ('-stacked' if (len(layers) >= 3 or name == 'Pop') else ''))
    if name == 'CheckCurrent':
        tags.add('checkCurrent-' + res['out'])
    if name == 'Abort':
        tags.add('abort')


def _fn(x):
    """a TLA function as printed by TLC: a dict, or - when its domain is 1..n - a tuple"""
    if isinstance(x, dict):
        return sorted(x.items())
    return list(enumerate(x or (), 1))


def _dev_detail(dev, real, rp, layers):
    out = []
    if dev['cause'] == 'tid-order-across-layers':
        lasts = [s.lastTransaction() for s in rp.raw]
        out.append('last transaction ids of the layers, bottom up: %s (not strictly increasing)' % ', '.join(
            '%s=%r' % (t.hex(), rp.tids.model(t)) for t in lasts))
        return out
    for f in ('lb', 'ser'):
        for q, w in _fn(dev[f])[:3]:
            out.append('%s(oid %d, tid %d): implementation %r, one database %r' % (
                {'lb': 'loadBefore', 'ser': 'loadSerial'}[f], q[0], q[1], real[f][q[0]].get(q[1]), w))
    for f in ('cur', 'gt', 'revs'):
        for o, w in _fn(dev[f])[:2]:
            out.append('%s(oid %d): implementation %r, one database %r' % (
                {'cur': 'load', 'gt': 'getTid', 'revs': 'history'}[f], o, real[f].get(o), w))
    return out
