"""C17 drivers: (a) copy of a storage built from a TLC behaviour, (b) fsrecover on damaged files
(event recorder + projection for ZRecoverTrace), (c) replay of ZRecoverScan patterns on the real scan().

Expected values always come from TLC: (a) the observation table TLC printed for the source history,
(b) the verdict of ZRecoverTrace on the recorded run, (c) the result of the scan transcription."""
import hashlib
import os
import shutil
import signal
import struct
import types

from .. import concretize as cz
from ..concretize import norm, p64, u64
from . import storage as sd

# ======================================================================================================
# (a) copy


def blob_bytes(d):
    """Content of the blob file that goes with a blob record holding datum d (a function of the model value)."""
    v = d['v'] if isinstance(d, dict) else d
    return b'BLOB ' + repr(tuple(v)).encode() * 7


class _BlobStores:
    """Harness-side face of a blob-enabled FileStorage: stores to oids of class kind 'blob' go through
    storeBlob with a blob file derived from the datum (everything else is the storage itself)."""

    def __init__(self, st, cls, tmpdir):
        self.__dict__['_st'] = st
        self.__dict__['_cls'] = cls
        self.__dict__['_tmp'] = tmpdir
        self.__dict__['_n'] = 0

    def __getattr__(self, name):
        return getattr(self._st, name)

    def __setattr__(self, name, value):
        setattr(self._st, name, value)

    def __len__(self):
        return len(self._st)

    def store(self, oid, serial, data, version, txn):
        if self._cls.get(u64(oid)) != 'blob':
            return self._st.store(oid, serial, data, version, txn)
        self.__dict__['_n'] += 1
        name = os.path.join(self._tmp, 'b%d.tmp' % self._n)
        with open(name, 'wb') as f:
            f.write(blob_bytes(cz.datum_of(data)))
        return self._st.storeBlob(oid, serial, data, name, '', txn)


class SourceReplayer(sd.StorageReplayer):
    """StorageReplayer whose file storage may carry a blob directory (opts['blobs'])."""

    def open(self, create=True):
        st = super().open(create)
        if self.kind == 'file' and self.opts.get('blobs'):
            tmp = os.path.join(self.dir, 'blobtmp')
            os.makedirs(tmp, exist_ok=True)
            self.st = _BlobStores(st, self.cls, tmp)
        return self.st


def blob_cls_map(c):
    """class kinds per oid for blob histories: the highest oid is a blob, the others plain"""
    return {o: ('blob' if o == c['NOid'] - 1 and o > 0 else 'plain') for o in range(c['NOid'])}


def _check_blobs(st, hist, cls, T, where):
    """every data-carrying revision of a blob oid has its blob file with the content that goes with the
    datum TLC printed; -> list of mismatch strings"""
    from ZODB.POSException import POSKeyError
    out = []
    it = {}
    for t in hist['iter']:
        for r in t['recs']:
            if cls.get(r['oid']) == 'blob' and r['d']['v'] != ('gone',):
                it[(r['oid'], t['tid'])] = r['d']
    for (o, t), d in sorted(it.items()):
        try:
            with open(st.loadBlob(p64(o), T.real(t)), 'rb') as f:
                got = f.read()
        except POSKeyError:
            out.append('%s: blob[%d][%d]: no blob file in the copy' % (where, o, t))
            continue
        if got != blob_bytes(d):
            out.append('%s: blob[%d][%d]: blob bytes differ: spec=%r impl=%r' % (where, o, t, blob_bytes(d)[:40], got[:40]))
    return out


VARIANTS = ('ctf', 'copy', 'blobdest')


def _iter_ranges(st, mo, T, where):
    """iterator(start, stop) for every pair of tid bounds: exactly the listed transactions in the range
    (the expected list is the iterator column of the table TLC printed, cut to the range)"""
    out = []
    tids = [t['tid'] for t in mo['iter']]
    bounds = sorted({0} | {x for t in tids for x in (t - 1, t, t + 1) if x > 0})
    for a in bounds:
        for b in bounds:
            if b < a:
                continue
            want = tuple(t for t in tids if t >= a and (t <= b))
            it = st.iterator(T.real(a) if a else None, T.real(b))
            got = tuple(T.model(t.tid) for t in it)
            if hasattr(it, 'close'):
                it.close()
            if got != want:
                out.append('%s: iterator(%d, %d): spec=%r impl=%r' % (where, a, b, want, got))
                return out
    return out


def copy_behaviour(job):
    """job = (behaviour file | steps, kind, consts, workdir, opts).  Replays the behaviour on a real source
    storage, copies it (every variant in opts['variants']) and compares the copy's full query table, before and
    after close/reopen, with the table TLC printed for the final state of the behaviour."""
    from collections import Counter
    from .. import tlaparse
    beh, kind, c, workdir, opts = job
    if isinstance(beh, str):
        beh = tlaparse.parse_simulate_file(beh)
    blobs = bool(opts.get('blobs'))
    if blobs:
        cz.CLASSES.setdefault('blob', ('ZODB.blob', 'Blob'))
    cls = blob_cls_map(c) if blobs else sd.cls_map(c)
    rc = dict(c, Cls=cls)
    shutil.rmtree(workdir, ignore_errors=True)
    os.makedirs(workdir)
    sopts = dict(opts)
    if blobs:
        sopts['fs_kw'] = {'blob_dir': os.path.join(workdir, 'src', 'blobs')}
    rp = SourceReplayer(kind, rc, os.path.join(workdir, 'src'), sopts)
    res = {'steps': 0, 'sig': [], 'mismatch': [], 'txns': 0, 'actions': {}, 'shape': {}, 'copies': 0, 'source_failed': None}
    actions = Counter()
    try:
        rp.open()
        for i, step in enumerate(beh):
            a = step['action']
            actions[a] += 1
            res['sig'].append(a + repr(tuple(norm(step['args']))))
            mm = rp.step(a, step['args'], step['state'])
            if mm:
                res['source_failed'] = {'step': i, 'action': a, 'detail': mm[:2]}
                return res
            res['steps'] += 1
        final = beh[-1]['state']
        hist = norm(final['hist'])
        mo = norm(final['obs'])
        res['txns'] = len(hist)
        ops = Counter(r['op'] for t in hist for r in t['recs'])
        res['shape'] = {'back': ops.get('back', 0), 'zero': ops.get('zero', 0), 'data': ops.get('data', 0),
                        'packed': sum(1 for t in hist if t['status'] == 'p'),
                        'blobrecs': sum(1 for t in hist for r in t['recs'] if cls.get(r['oid']) == 'blob')}
        for variant in opts.get('variants', VARIANTS):
            res['copies'] += 1
            mm = _copy_and_compare(rp, variant, workdir, rc, mo, hist, cls, blobs, opts)
            if mm:
                res['mismatch'].append({'variant': variant, 'where': mm[0], 'detail': mm[1][:4]})
    finally:
        rp.close()
        shutil.rmtree(workdir, ignore_errors=True)
    res['actions'] = dict(actions)
    return res


def _copy_and_compare(rp, variant, workdir, rc, mo, hist, cls, blobs, opts):
    from ZODB.FileStorage import FileStorage
    import ZODB.BaseStorage
    ddir = os.path.join(workdir, 'dst-' + variant)
    os.makedirs(ddir)
    path = os.path.join(ddir, 'Data.fs')
    kw = {}
    if variant == 'blobdest' or blobs:
        kw['blob_dir'] = os.path.join(ddir, 'blobs')
    src = rp.st._st if isinstance(rp.st, _BlobStores) else rp.st
    dest = FileStorage(path, **kw)
    rd = sd.StorageReplayer('file', rc, ddir, {})
    rd.st = dest
    try:
        try:
            if variant == 'copy' and not blobs:
                ZODB.BaseStorage.copy(src, dest)
            else:
                dest.copyTransactionsFrom(src)
        except Exception as ex:
            import traceback
            tb = traceback.extract_tb(ex.__traceback__)[-1]
            return ('copy-raised', ['copy raised %s at %s:%s (%s)' % (type(ex).__name__, os.path.basename(tb.filename), tb.name, str(ex)[:100])])
        mm = rd.compare(mo, hist=hist)
        if mm:
            return ('copy', mm)
        if blobs:
            mm = _check_blobs(dest, mo, cls, rd.tids, 'copy')
            if mm:
                return ('copy-blobs', mm)
        if opts.get('ranges'):
            mm = _iter_ranges(dest, mo, rd.tids, 'copy')
            if mm:
                return ('copy-iterator-range', mm)
        dest.close()
        dest = rd.st = FileStorage(path, **kw)
        mm = rd.compare(mo, hist=hist)
        if mm:
            return ('copy-reopened', mm)
        if blobs:
            mm = _check_blobs(dest, mo, cls, rd.tids, 'copy-reopened')
            if mm:
                return ('copy-reopened-blobs', mm)
        return None
    finally:
        try:
            dest.close()
        except Exception:
            pass


# ======================================================================================================
# TLC runs whose outcome may be a violated liveness property (zv.tlc.run does not know TLC's wording
# "Temporal property X was violated")

def run_tlc(spec, cfg, wd, workers=4, dump=None, timeout=600, extra=()):
    import re
    import subprocess
    import time
    from .. import tlaparse, tlc
    os.makedirs(wd, exist_ok=True)
    spec_path = tlc._prepare(spec, wd)
    cmd = tlc._java_cmd() + ['-workers', str(workers), '-metadir', os.path.join(wd, 'meta-' + os.path.basename(cfg)), '-noGenerateSpecTE']
    if dump:
        cmd += ['-dump', 'dot', dump]
    cmd += list(extra) + ['-config', cfg, spec_path]
    e = dict(os.environ)
    e.pop('JAVA_TOOL_OPTIONS', None)
    t0 = time.time()
    try:
        p = subprocess.run(cmd, cwd=wd, env=e, stdout=subprocess.PIPE, stderr=subprocess.STDOUT, text=True, errors='replace', timeout=timeout)
    except subprocess.TimeoutExpired as ex:
        raise tlc.TLCError('TLC timed out after %ss on %s' % (timeout, spec)) from ex
    r = tlc.TLCResult()
    r.wall_s = time.time() - t0
    r.output = out = p.stdout
    m = None
    for m in tlc._RE_STATS.finditer(out):
        pass
    if m:
        r.states_generated, r.distinct = int(m.group(1)), int(m.group(2))
    m = tlc._RE_DEPTH.search(out)
    if m:
        r.depth = int(m.group(1))
    mt = re.search(r'Error: Temporal property (\S+) was violated', out) or re.search(r'Error: Temporal properties were violated', out)
    mi = tlc._RE_INV.search(out)
    if mi:
        r.violation = mi.group(1)
    elif mt:
        r.violation = mt.group(1) if mt.groups() else 'temporal'
    if r.violation:
        r.trace = tlaparse.parse_error_trace(out)
        m = re.search(r'^Back to state (\d+)', out, re.M)
        r.back_to = int(m.group(1)) if m else None
        r.stuttering = 'Stuttering' in out
        return r
    if 'Model checking completed. No error has been found' in out:
        r.ok = True
        return r
    raise tlc.TLCError('TLC failed on %s (exit %s):\n%s' % (spec, p.returncode, out[-4000:]))


# ======================================================================================================
# (c) the scan() transcription on byte files

class Hang(BaseException):
    """the call under the watchdog does not terminate"""


class Watchdog:
    """wall-clock watchdog (main thread of a worker process)"""

    def __init__(self, seconds):
        self.seconds = seconds

    def _fire(self, signum, frame):
        raise Hang('no return within %.0f s' % self.seconds)

    def __enter__(self):
        self.old = signal.signal(signal.SIGALRM, self._fire)
        signal.setitimer(signal.ITIMER_REAL, self.seconds)

    def __exit__(self, *a):
        signal.setitimer(signal.ITIMER_REAL, 0)
        signal.signal(signal.SIGALRM, self.old)
        return False


class StepFile:
    """File object handed to scan(): reads return at most `chunk` bytes (the model's CHUNK when scaled down), and
    progress is watched: scan's outer loop is `f.seek(pos); f.read(8096)` with pos as its only state, so a third
    read at an unchanged position, or more reads than the file has bytes, is a loop that never ends."""

    def __init__(self, f, size, chunk=None):
        self.f = f
        self.size = size
        self.chunk = chunk
        self.reads = 0
        self.last = None
        self.same = 0

    def seek(self, pos, whence=0):
        return self.f.seek(pos, whence)

    def tell(self):
        return self.f.tell()

    def read(self, n=-1):
        p = self.f.tell()
        self.reads += 1
        if p == self.last:
            self.same += 1
            if self.same >= 2:
                raise Hang('read at position %d for the third time in a row' % p)
        else:
            self.last, self.same = p, 0
        if self.reads > 2 * self.size + 50:
            raise Hang('more than %d reads' % (2 * self.size + 50))
        if self.chunk is not None and (n < 0 or n > self.chunk) and n == 8096:
            n = self.chunk
        return self.f.read(n)


def pattern_bytes(n, fill, dots):
    b = bytearray((b'\0' if fill == 'zero' else b'\xff') * n)
    for d in dots:
        b[d] = 0x2e
    return bytes(b)


def real_scan(data, start, chunk, on_disk=None):
    """-> result of the real fsrecover.scan on a file holding `data`: position | 0 | 'hang' | 'raised X'"""
    import io
    import ZODB.fsrecover as fr
    if on_disk:
        with open(on_disk, 'wb') as f:
            f.write(data)
        raw = open(on_disk, 'rb')
    else:
        raw = io.BytesIO(data)
    f = StepFile(raw, len(data), None if chunk == 8096 else chunk)
    try:
        with Watchdog(10):
            r = fr.scan(f, start)
        return int(r)
    except Hang:
        return 'hang'
    except Exception as ex:
        return 'raised ' + type(ex).__name__
    finally:
        raw.close()


_DOT_NODE = None


def load_scan_graph(dot):
    """the dumped state graph of ZRecoverScan -> {(n, fill, dots, start): result | 'hang'} for every initial state"""
    import re
    node = re.compile(r'^(-?\d+) \[label="((?:[^"\\]|\\.)*)"(?:,tooltip="(?:[^"\\]|\\.)*")?(,style = filled)?\]')
    edge = re.compile(r'^(-?\d+) -> (-?\d+)')
    var = {k: re.compile(r'/\\\\ %s = (?:\\")?([^\\]*)' % k) for k in ('result', 'n', 'fill', 'dots', 'start', 'phase')}
    info, succ, inits = {}, {}, []
    with open(dot) as f:
        for line in f:
            m = edge.match(line)
            if m:
                if m.group(1) != m.group(2):
                    succ[m.group(1)] = m.group(2)
                continue
            m = node.match(line.rstrip('\n'))
            if m:
                lab = m.group(2)
                ph = var['phase'].search(lab).group(1)
                info[m.group(1)] = int(var['result'].search(lab).group(1)) if 'done' in ph else None
                if m.group(3):
                    d = var['dots'].search(lab).group(1).strip('{} ')
                    key = (int(var['n'].search(lab).group(1)), var['fill'].search(lab).group(1),
                           tuple(int(x) for x in d.split(',')) if d else (), int(var['start'].search(lab).group(1)))
                    inits.append((m.group(1), key))
    table = {}
    for nid, key in inits:
        seen = set()
        cur = nid
        while True:
            if info[cur] is not None:
                table[key] = info[cur]
                break
            if cur in seen or cur not in succ:
                table[key] = 'hang'          # a cycle: no state with phase = "done" is reachable
                break
            seen.add(cur)
            cur = succ[cur]
    return table


def scan_replay(job):
    """job = (cases [(n, fill, dots, start, expected)], chunk, scratch dir) -> list of mismatches + counters"""
    cases, chunk, wd = job
    os.makedirs(wd, exist_ok=True)
    out = {'n': 0, 'hangs': 0, 'found': 0, 'eof': 0, 'mismatch': []}
    for i, (n, fill, dots, start, want) in enumerate(cases):
        data = pattern_bytes(n, fill, dots)
        got = real_scan(data, start, chunk, on_disk=os.path.join(wd, 'p.bin') if i % 16 == 0 else None)
        out['n'] += 1
        out['hangs'] += got == 'hang'
        out['found'] += isinstance(got, int) and got > 0
        out['eof'] += got == 0
        if got != want:
            out['mismatch'].append({'n': n, 'fill': fill, 'dots': list(dots), 'start': start, 'chunk': chunk, 'spec': want, 'impl': got})
    shutil.rmtree(wd, ignore_errors=True)
    return out
