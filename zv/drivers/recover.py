"""C17 drivers: (a) copy of a storage built from a TLC behaviour, (b) fsrecover on damaged files
(event recorder + projection for ZRecoverTrace), (c) replay of ZRecoverScan patterns on the real scan().

Expected values always come from TLC: (a) the observation table TLC printed for the source history,
(b) the verdict of ZRecoverTrace on the recorded run, (c) the result of the scan transcription."""
import hashlib
import os
import shutil
import signal
import struct
import types

from .. import concretize as cz
from ..concretize import norm, p64, u64
from . import storage as sd

# ======================================================================================================
# (a) copy


def blob_bytes(d):
    """Content of the blob file that goes with a blob record holding datum d (a function of the model value)."""
    v = d['v'] if isinstance(d, dict) else d
    return b'BLOB ' + repr(tuple(v)).encode() * 7


class _BlobStores:
    """Harness-side face of a blob-enabled FileStorage: stores to oids of class kind 'blob' go through
    storeBlob with a blob file derived from the datum (everything else is the storage itself)."""

    def __init__(self, st, cls, tmpdir):
        self.__dict__['_st'] = st
        self.__dict__['_cls'] = cls
        self.__dict__['_tmp'] = tmpdir
        self.__dict__['_n'] = 0

    def __getattr__(self, name):
        return getattr(self._st, name)

    def __setattr__(self, name, value):
        setattr(self._st, name, value)

    def __len__(self):
        return len(self._st)

    def store(self, oid, serial, data, version, txn):
        if self._cls.get(u64(oid)) != 'blob':
            return self._st.store(oid, serial, data, version, txn)
        self.__dict__['_n'] += 1
        name = os.path.join(self._tmp, 'b%d.tmp' % self._n)
        with open(name, 'wb') as f:
            f.write(blob_bytes(cz.datum_of(data)))
        return self._st.storeBlob(oid, serial, data, name, '', txn)


class SourceReplayer(sd.StorageReplayer):
    """StorageReplayer whose file storage may carry a blob directory (opts['blobs'])."""

    def open(self, create=True):
        st = super().open(create)
        if self.kind == 'file' and self.opts.get('blobs'):
            tmp = os.path.join(self.dir, 'blobtmp')
            os.makedirs(tmp, exist_ok=True)
            self.st = _BlobStores(st, self.cls, tmp)
        return self.st


def blob_cls_map(c):
    """class kinds per oid for blob histories: the highest oid is a blob, the others plain"""
    return {o: ('blob' if o == c['NOid'] - 1 and o > 0 else 'plain') for o in range(c['NOid'])}


def _check_blobs(st, hist, cls, T, where, src):
    """every data-carrying revision of a blob oid has its blob file with the content that goes with the
    datum TLC printed; -> list of mismatch strings.  A revision whose blob file the SOURCE does not hold (blob
    files versus records in the source are C13's subject, e.g. after a pack of a transaction that stored the
    blob twice) must not have one in the copy either."""
    from ZODB.POSException import POSKeyError
    out = []
    it = {}
    for t in hist['iter']:
        for r in t['recs']:
            if cls.get(r['oid']) == 'blob' and r['d']['v'] != ('gone',):
                it[(r['oid'], t['tid'])] = r['d']
    for (o, t), d in sorted(it.items()):
        try:
            src.loadBlob(p64(o), T.real(t))
            in_source = True
        except POSKeyError:
            in_source = False
        try:
            with open(st.loadBlob(p64(o), T.real(t)), 'rb') as f:
                got = f.read()
        except POSKeyError:
            if in_source:
                out.append('%s: blob[%d][%d]: no blob file in the copy' % (where, o, t))
            continue
        if not in_source:
            out.append('%s: blob[%d][%d]: blob file in the copy, none in the source' % (where, o, t))
            continue
        if got != blob_bytes(d):
            out.append('%s: blob[%d][%d]: blob bytes differ: spec=%r impl=%r' % (where, o, t, blob_bytes(d)[:40], got[:40]))
    return out


VARIANTS = ('ctf', 'copy', 'blobdest')


def _iter_ranges(st, mo, T, where):
    """iterator(start, stop) for every pair of tid bounds: exactly the listed transactions in the range
    (the expected list is the iterator column of the table TLC printed, cut to the range)"""
    out = []
    tids = [t['tid'] for t in mo['iter']]
    bounds = sorted({0} | {x for t in tids for x in (t - 1, t, t + 1) if x > 0})
    for a in bounds:
        for b in bounds:
            if b < a:
                continue
            want = tuple(t for t in tids if t >= a and (t <= b))
            it = st.iterator(T.real(a) if a else None, T.real(b))
            got = tuple(T.model(t.tid) for t in it)
            if hasattr(it, 'close'):
                it.close()
            if got != want:
                out.append('%s: iterator(%d, %d): spec=%r impl=%r' % (where, a, b, want, got))
                return out
    return out


def copy_behaviour(job):
    """job = (behaviour file | steps, kind, consts, workdir, opts).  Replays the behaviour on a real source
    storage, copies it (every variant in opts['variants']) and compares the copy's full query table, before and
    after close/reopen, with the table TLC printed for the final state of the behaviour."""
    from collections import Counter
    from .. import tlaparse
    beh, kind, c, workdir, opts = job
    if isinstance(beh, str):
        beh = tlaparse.parse_simulate_file(beh)
    blobs = bool(opts.get('blobs'))
    if blobs:
        cz.CLASSES.setdefault('blob', ('ZODB.blob', 'Blob'))
    cls = blob_cls_map(c) if blobs else sd.cls_map(c)
    rc = dict(c, Cls=cls)
    shutil.rmtree(workdir, ignore_errors=True)
    os.makedirs(workdir)
    sopts = dict(opts)
    if blobs:
        sopts['fs_kw'] = {'blob_dir': os.path.join(workdir, 'src', 'blobs')}
    rp = SourceReplayer(kind, rc, os.path.join(workdir, 'src'), sopts)
    res = {'steps': 0, 'sig': [], 'mismatch': [], 'txns': 0, 'actions': {}, 'shape': {}, 'copies': 0, 'source_failed': None}
    actions = Counter()
    try:
        rp.open()
        for i, step in enumerate(beh):
            a = step['action']
            actions[a] += 1
            res['sig'].append(a + repr(tuple(norm(step['args']))))
            mm = rp.step(a, step['args'], step['state'])
            if mm:
                res['source_failed'] = {'step': i, 'action': a, 'detail': mm[:2]}
                return res
            res['steps'] += 1
        final = beh[-1]['state']
        hist = norm(final['hist'])
        mo = norm(final['obs'])
        res['txns'] = len(hist)
        ops = Counter(r['op'] for t in hist for r in t['recs'])
        res['shape'] = {'back': ops.get('back', 0), 'zero': ops.get('zero', 0), 'data': ops.get('data', 0),
                        'packed': sum(1 for t in hist if t['status'] == 'p'),
                        'blobrecs': sum(1 for t in hist for r in t['recs'] if cls.get(r['oid']) == 'blob')}
        for variant in opts.get('variants', VARIANTS):
            res['copies'] += 1
            mm = _copy_and_compare(rp, variant, workdir, rc, mo, hist, cls, blobs, opts)
            if mm:
                res['mismatch'].append({'variant': variant, 'where': mm[0], 'detail': mm[1][:4]})
        if opts.get('range_copy') and kind == 'file':
            res['hist'] = hist
            res['blob_oids'] = sorted(o for o, k in cls.items() if k == 'blob') if blobs else []
            res['blob_dest'] = blobs or bool(opts.get('range_blob_dest'))
            res['ranges'] = _range_copies(rp, workdir, rc, hist, cls, blobs, res['blob_dest'])
    finally:
        rp.close()
        shutil.rmtree(workdir, ignore_errors=True)
    res['actions'] = dict(actions)
    return res


def range_starts(hist):
    """ZRecover!RangeStarts: before everything, at every transaction, just after every transaction"""
    return sorted({1} | {t['tid'] for t in hist} | {t['tid'] + 1 for t in hist})


def iter_of(st, T):
    """the iterator column of the observation table (as StorageReplayer.observe projects it)"""
    from . import storage as sd2
    out = []
    for txn in st.iterator():
        recs = tuple({'oid': u64(r.oid), 'd': cz.datum_of(r.data), 'dtxn': T.model(r.data_txn) if r.data_txn else 0} for r in txn)
        out.append({'tid': T.model(txn.tid), 'status': txn.status, 'meta': sd2.meta_name(txn.user, txn.description, txn.extension), 'recs': recs})
    return tuple(out)


def _range_copies(rp, workdir, rc, hist, cls, blobs, blob_dest):
    """dst.copyTransactionsFrom(src.iterator(start)) into a fresh FileStorage for every start of RangeStarts;
    -> [{a, out: 'ok' | exception name, at, iter: what the destination's iterator lists, blobs: mismatches}]"""
    from ZODB.FileStorage import FileStorage
    from ZODB.POSException import POSKeyError
    src = rp.st._st if isinstance(rp.st, _BlobStores) else rp.st
    T = rp.tids
    res = []
    for a in range_starts(hist):
        ddir = os.path.join(workdir, 'dst-range-%d' % a)
        os.makedirs(ddir)
        kw = {'blob_dir': os.path.join(ddir, 'blobs')} if blob_dest else {}
        dest = FileStorage(os.path.join(ddir, 'Data.fs'), **kw)
        r = {'a': a, 'out': 'ok', 'at': '', 'iter': (), 'blobs': []}
        it = None
        try:
            it = src.iterator(T.real(a))
            try:
                dest.copyTransactionsFrom(it)
            except Exception as ex:
                import traceback
                r['out'] = type(ex).__name__
                r['at'] = traceback.extract_tb(ex.__traceback__)[-1].name
                r['msg'] = str(ex)[:80]
                if dest._transaction is not None:
                    dest.tpc_abort(dest._transaction)
            r['iter'] = iter_of(dest, T)
            if blobs and r['out'] == 'ok':
                for t in r['iter']:
                    last = {x['oid']: x for x in t['recs']}      # one blob file per (oid, tid): the last record's
                    for x in last.values():
                        if cls.get(x['oid']) != 'blob' or x['d']['v'] == ('gone',):
                            continue
                        try:
                            src.loadBlob(p64(x['oid']), T.real(t['tid']))
                        except POSKeyError:
                            continue            # (blob files versus records in the source: C13)
                        try:
                            with open(dest.loadBlob(p64(x['oid']), T.real(t['tid'])), 'rb') as f:
                                if f.read() != blob_bytes(x['d']):
                                    r['blobs'].append('blob[%d][%d]: bytes differ' % (x['oid'], t['tid']))
                        except POSKeyError:
                            r['blobs'].append('blob[%d][%d]: no blob file in the copy of the range' % (x['oid'], t['tid']))
        finally:
            if it is not None and hasattr(it, 'close'):
                it.close()
            dest.close()
            shutil.rmtree(ddir, ignore_errors=True)
        res.append(r)
    return res


def to_tla(v):
    """a normalised parsed TLA+ value back in TLA+ syntax"""
    if isinstance(v, bool):
        return 'TRUE' if v else 'FALSE'
    if isinstance(v, int):
        return str(v)
    if isinstance(v, str):
        return '"%s"' % v.replace('\\', '\\\\').replace('"', '\\"')
    if isinstance(v, dict):
        if not v:
            return '<<>>'
        if all(isinstance(k, str) for k in v):
            return '[' + ', '.join('%s |-> %s' % (k, to_tla(x)) for k, x in v.items()) + ']'
        return '(' + ' @@ '.join('%s :> %s' % (to_tla(k), to_tla(x)) for k, x in v.items()) + ')'
    if isinstance(v, (tuple, list)):
        return '<<' + ', '.join(to_tla(x) for x in v) + '>>'
    if isinstance(v, (set, frozenset)):
        return '{' + ', '.join(to_tla(x) for x in sorted(v, key=repr)) + '}'
    raise TypeError('cannot render %r' % (v,))


def printed_tuples(output, tag):
    """values TLC printed with PrintT(<<tag, ...>>); long values are pretty-printed over several lines"""
    from .. import tlaparse
    lines = output.splitlines()
    out = []
    i = 0
    import re
    head = re.compile(r'^<<\s*"%s",' % tag)
    while i < len(lines):
        if head.match(lines[i]):
            buf = lines[i]
            j = i
            while True:
                try:
                    out.append(tlaparse.parse_value(buf))
                    break
                except tlaparse.ParseError:
                    j += 1
                    if j >= len(lines) or j - i > 4000:
                        raise
                    buf += ' ' + lines[j]
            i = j + 1
        else:
            i += 1
    return out


def evaluate_ranges(scratch, name, cases, run):
    """cases: [(hist, blob oids, hint, noblob)] -> [{start: (outcome, iterator view)}] as TLC (ZRecoverRange) evaluates them;
    run(spec, cfg, workdir=) -> TLCResult"""
    from .. import tlc
    wd = os.path.join(scratch, 'range-' + name)
    os.makedirs(wd, exist_ok=True)
    body = ',\n'.join('  [h |-> %s, blobs |-> %s, hint |-> %s, noblob |-> %s]' % (
        to_tla(h), to_tla(frozenset(b)), to_tla(bool(hint)), to_tla(bool(nb))) for h, b, hint, nb in cases)
    with open(os.path.join(wd, 'MCRangeCases.tla'), 'w') as f:
        f.write('---- MODULE MCRangeCases ----\nEXTENDS ZRecoverRange\nTheCases == <<\n%s\n>>\n====\n' % body)
    cfg = os.path.join(wd, 'range.cfg')
    tlc.write_cfg(cfg, constants={'Cases': '<- TheCases'}, init='RInit', next_='RNext')
    r = run('MCRangeCases', cfg, workdir=wd, workers=1, timeout=1500)
    if not r.ok:
        raise tlc.TLCError('range evaluation %s: %s\n%s' % (name, r.violation, r.output[-3000:]))
    res = [dict() for _ in cases]
    for v in printed_tuples(r.output, 'RC'):
        v = norm(v)
        res[v[1] - 1][v[2]] = (v[3], v[4])
    for i, (c, e) in enumerate(zip(cases, res)):
        if sorted(e) != range_starts(c[0]):
            raise tlc.TLCError('range evaluation %s: case %d: TLC printed starts %r, expected %r' % (name, i + 1, sorted(e), range_starts(c[0])))
    return r, res


def _copy_and_compare(rp, variant, workdir, rc, mo, hist, cls, blobs, opts):
    from ZODB.FileStorage import FileStorage
    import ZODB.BaseStorage
    ddir = os.path.join(workdir, 'dst-' + variant)
    os.makedirs(ddir)
    path = os.path.join(ddir, 'Data.fs')
    kw = {}
    if variant == 'blobdest' or blobs:
        kw['blob_dir'] = os.path.join(ddir, 'blobs')
    src = rp.st._st if isinstance(rp.st, _BlobStores) else rp.st
    dest = FileStorage(path, **kw)
    rd = sd.StorageReplayer('file', rc, ddir, {})
    rd.st = dest
    try:
        try:
            if variant == 'copy' and not blobs:
                ZODB.BaseStorage.copy(src, dest)
            else:
                dest.copyTransactionsFrom(src)
        except Exception as ex:
            import traceback
            tb = traceback.extract_tb(ex.__traceback__)[-1]
            return ('copy-raised:%s@%s' % (type(ex).__name__, tb.name),
                    ['copy raised %s at %s:%s (%s)' % (type(ex).__name__, os.path.basename(tb.filename), tb.name, str(ex)[:100])])
        mm = rd.compare(mo, hist=hist)
        if mm:
            return ('copy', mm)
        if blobs:
            mm = _check_blobs(dest, mo, cls, rd.tids, 'copy', src)
            if mm:
                return ('copy-blobs', mm)
        if opts.get('ranges'):
            mm = _iter_ranges(dest, mo, rd.tids, 'copy')
            if mm:
                return ('copy-iterator-range', mm)
        dest.close()
        dest = rd.st = FileStorage(path, **kw)
        mm = rd.compare(mo, hist=hist)
        if mm:
            return ('copy-reopened', mm)
        if blobs:
            mm = _check_blobs(dest, mo, cls, rd.tids, 'copy-reopened', src)
            if mm:
                return ('copy-reopened-blobs', mm)
        return None
    finally:
        try:
            dest.close()
        except Exception:
            pass


# ======================================================================================================
# TLC runs whose outcome may be a violated liveness property (zv.tlc.run does not know TLC's wording
# "Temporal property X was violated")

def run_tlc(spec, cfg, wd, workers=4, dump=None, timeout=600, extra=()):
    import re
    import subprocess
    import time
    from .. import tlaparse, tlc
    os.makedirs(wd, exist_ok=True)
    spec_path = tlc._prepare(spec, wd)
    cmd = tlc._java_cmd(heap='3g') + ['-workers', str(workers), '-metadir', os.path.join(wd, 'meta-' + os.path.basename(cfg)), '-noGenerateSpecTE']
    if dump:
        cmd += ['-dump', 'dot', dump]
    cmd += list(extra) + ['-config', cfg, spec_path]
    e = dict(os.environ)
    e.pop('JAVA_TOOL_OPTIONS', None)
    t0 = time.time()
    try:
        p = subprocess.run(cmd, cwd=wd, env=e, stdout=subprocess.PIPE, stderr=subprocess.STDOUT, text=True, errors='replace', timeout=timeout)
        if p.returncode in (-9, 137):          # killed by the kernel (memory pressure on the shared machine): once more
            time.sleep(5)
            if dump and os.path.exists(dump):
                os.remove(dump)
            p = subprocess.run(cmd, cwd=wd, env=e, stdout=subprocess.PIPE, stderr=subprocess.STDOUT, text=True, errors='replace', timeout=timeout)
    except subprocess.TimeoutExpired as ex:
        raise tlc.TLCError('TLC timed out after %ss on %s' % (timeout, spec)) from ex
    r = tlc.TLCResult()
    r.wall_s = time.time() - t0
    r.output = out = p.stdout
    m = None
    for m in tlc._RE_STATS.finditer(out):
        pass
    if m:
        r.states_generated, r.distinct = int(m.group(1)), int(m.group(2))
    m = tlc._RE_DEPTH.search(out)
    if m:
        r.depth = int(m.group(1))
    mt = re.search(r'Error: Temporal property (\S+) was violated', out) or re.search(r'Error: Temporal properties were violated', out)
    mi = tlc._RE_INV.search(out)
    if mi:
        r.violation = mi.group(1)
    elif mt:
        r.violation = mt.group(1) if mt.groups() else 'temporal'
    if r.violation:
        r.trace = tlaparse.parse_error_trace(out)
        m = re.search(r'^Back to state (\d+)', out, re.M)
        r.back_to = int(m.group(1)) if m else None
        r.stuttering = 'Stuttering' in out
        return r
    if 'Model checking completed. No error has been found' in out:
        r.ok = True
        return r
    raise tlc.TLCError('TLC failed on %s (exit %s):\n%s' % (spec, p.returncode, out[-4000:]))


# ======================================================================================================
# (c) the scan() transcription on byte files

class Hang(BaseException):
    """the call under the watchdog does not terminate"""


class Watchdog:
    """wall-clock watchdog (main thread of a worker process)"""

    def __init__(self, seconds):
        self.seconds = seconds

    def _fire(self, signum, frame):
        raise Hang('no return within %.0f s' % self.seconds)

    def __enter__(self):
        self.old = signal.signal(signal.SIGALRM, self._fire)
        signal.setitimer(signal.ITIMER_REAL, self.seconds)

    def __exit__(self, *a):
        signal.setitimer(signal.ITIMER_REAL, 0)
        signal.signal(signal.SIGALRM, self.old)
        return False


class StepFile:
    """File object handed to scan(): reads return at most `chunk` bytes (the model's CHUNK when scaled down), and
    progress is watched: scan's outer loop is `f.seek(pos); f.read(8096)` with pos as its only state, so a third
    read at an unchanged position, or more reads than the file has bytes, is a loop that never ends."""

    def __init__(self, f, size, chunk=None):
        self.f = f
        self.size = size
        self.chunk = chunk
        self.reads = 0
        self.last = None
        self.same = 0

    def seek(self, pos, whence=0):
        return self.f.seek(pos, whence)

    def tell(self):
        return self.f.tell()

    def read(self, n=-1):
        p = self.f.tell()
        self.reads += 1
        if p == self.last:
            self.same += 1
            if self.same >= 2:
                raise Hang('read at position %d for the third time in a row' % p)
        else:
            self.last, self.same = p, 0
        if self.reads > 2 * self.size + 50:
            raise Hang('more than %d reads' % (2 * self.size + 50))
        if self.chunk is not None and (n < 0 or n > self.chunk) and n == 8096:
            n = self.chunk
        return self.f.read(n)


def pattern_bytes(n, fill, dots):
    b = bytearray((b'\0' if fill == 'zero' else b'\xff') * n)
    for d in dots:
        b[d] = 0x2e
    return bytes(b)


def real_scan(data, start, chunk, on_disk=None):
    """-> result of the real fsrecover.scan on a file holding `data`: position | 0 | 'hang' | 'raised X'"""
    import io
    import ZODB.fsrecover as fr
    if on_disk:
        with open(on_disk, 'wb') as f:
            f.write(data)
        raw = open(on_disk, 'rb')
    else:
        raw = io.BytesIO(data)
    f = StepFile(raw, len(data), None if chunk == 8096 else chunk)
    try:
        with Watchdog(10):
            r = fr.scan(f, start)
        return int(r)
    except Hang:
        return 'hang'
    except Exception as ex:
        return 'raised ' + type(ex).__name__
    finally:
        raw.close()


_DOT_NODE = None


def load_scan_graph(dot):
    """the dumped state graph of ZRecoverScan -> {(n, fill, dots, start): result | 'hang'} for every initial state"""
    import re
    node = re.compile(r'^(-?\d+) \[label="((?:[^"\\]|\\.)*)"(?:,tooltip="(?:[^"\\]|\\.)*")?(,style = filled)?\]')
    edge = re.compile(r'^(-?\d+) -> (-?\d+)')
    var = {k: re.compile(r'/\\\\ %s = (?:\\")?([^\\]*)' % k) for k in ('result', 'n', 'fill', 'dots', 'start', 'phase')}
    info, succ, inits = {}, {}, []
    with open(dot) as f:
        for line in f:
            m = edge.match(line)
            if m:
                if m.group(1) != m.group(2):
                    succ[m.group(1)] = m.group(2)
                continue
            m = node.match(line.rstrip('\n'))
            if m:
                lab = m.group(2)
                ph = var['phase'].search(lab).group(1)
                info[m.group(1)] = int(var['result'].search(lab).group(1)) if 'done' in ph else None
                if m.group(3):
                    d = var['dots'].search(lab).group(1).strip('{} ')
                    key = (int(var['n'].search(lab).group(1)), var['fill'].search(lab).group(1),
                           tuple(int(x) for x in d.split(',')) if d else (), int(var['start'].search(lab).group(1)))
                    inits.append((m.group(1), key))
    table = {}
    nodes = len(info)
    for nid, key in inits:
        seen = set()
        cur = nid
        while True:
            if info[cur] is not None:
                table[key] = info[cur]
                break
            if cur in seen or cur not in succ:
                table[key] = 'hang'          # a cycle: no state with phase = "done" is reachable
                break
            seen.add(cur)
            cur = succ[cur]
    return table, nodes


def scan_replay(job):
    """job = (cases [(n, fill, dots, start, expected)], chunk, scratch dir) -> list of mismatches + counters"""
    cases, chunk, wd = job
    os.makedirs(wd, exist_ok=True)
    out = {'n': 0, 'hangs': 0, 'found': 0, 'eof': 0, 'mismatch': []}
    for i, (n, fill, dots, start, want) in enumerate(cases):
        data = pattern_bytes(n, fill, dots)
        got = real_scan(data, start, chunk, on_disk=os.path.join(wd, 'p.bin') if i % 16 == 0 else None)
        out['n'] += 1
        out['hangs'] += got == 'hang'
        out['found'] += isinstance(got, int) and got > 0
        out['eof'] += got == 0
        if got != want:
            out['mismatch'].append({'n': n, 'fill': fill, 'dots': list(dots), 'start': start, 'chunk': chunk, 'spec': want, 'impl': got})
    shutil.rmtree(wd, ignore_errors=True)
    return out


# ======================================================================================================
# (b) fsrecover on damaged data files

TH = struct.Struct('>8sQcHHH')       # transaction header: tid, length, status, len(user), len(descr), len(ext)
DH = struct.Struct('>8s8sQQHQ')      # data header: oid, tid, prev, tloc, len(version), len(data)


def parse_fs(data, tolerant=False):
    """Harness-side reading of a FileStorage file (independent of the code under test).
    -> list of transactions {s, h, e, tid, status, user, descr, ext, recs: [{pos, end, oid, tid, data, back, dtid}],
       deps: [(lo, hi)], items: [(class, lo, hi)]}; data of a back-pointer record is resolved."""
    assert data[:4] in (b'FS21', b'FS30'), data[:4]
    txns = []
    pos = 4
    n = len(data)
    recat = {}

    def resolve(back, ranges):
        while back:
            r = recat[back]
            ranges.append((r['pos'], r['end']))
            if r['plen']:
                return r['raw']
            back = r['back']
        return None

    while pos < n:
        if tolerant and n - pos < 23:
            break
        tid, tl, status, ul, dl, el = TH.unpack_from(data, pos)
        s, h, e = pos, pos + 23 + ul + dl + el, pos + tl + 8
        if tolerant and (e > n or data[e - 8:e] != struct.pack('>Q', tl) or status == b'c'):
            break                      # an unfinished transaction at the end of an output file
        assert data[e - 8:e] == struct.pack('>Q', tl) and e <= n, 'not a complete data file'
        t = {'s': s, 'h': h, 'e': e, 'tid': tid, 'status': status.decode('latin-1'), 'user': data[s + 23:s + 23 + ul],
             'descr': data[s + 23 + ul:s + 23 + ul + dl], 'ext': data[s + 23 + ul + dl:h], 'recs': [], 'deps': [], 'dtx': set(),
             'items': [('th.tid', s, s + 8), ('th.len', s + 8, s + 16), ('th.status', s + 16, s + 17), ('th.lens', s + 17, s + 23)]}
        if h > s + 23:
            t['items'].append(('th.meta', s + 23, h))
        p = h
        while p < e - 8:
            oid, rtid, prev, tloc, vlen, plen = DH.unpack_from(data, p)
            assert vlen == 0 and tloc == s
            r = {'pos': p, 'oid': oid, 'tid': rtid, 'plen': plen, 'back': 0, 'dtid': None, 'ti': len(txns) + 1}
            t['items'] += [('dh.oid', p, p + 8), ('dh.tid', p + 8, p + 16), ('dh.prev', p + 16, p + 24), ('dh.tloc', p + 24, p + 32),
                           ('dh.vlen', p + 32, p + 34), ('dh.plen', p + 34, p + 42)]
            if t['recs']:       # a record after the first of its transaction: its own item classes
                t['items'] += [('dh2.' + n[3:], a, b) for n, a, b in t['items'][-6:]]
            if plen:
                r['raw'] = r['data'] = data[p + 42:p + 42 + plen]
                r['end'] = p + 42 + plen
                t['items'].append(('pickle', p + 42, r['end'] - 1))
                t['items'].append(('pickle.stop', r['end'] - 1, r['end']))
            else:
                r['back'] = struct.unpack_from('>Q', data, p + 42)[0]
                r['end'] = p + 50
                t['items'].append(('backptr', p + 42, p + 50))
                ranges = []
                r['data'] = resolve(r['back'], ranges)
                t['deps'] += ranges
                if r['back']:
                    r['dtid'] = recat[r['back']]['tid']
                    t['dtx'].add(recat[r['back']]['ti'])
            recat[p] = r
            t['recs'].append(r)
            p = r['end']
        assert p == e - 8
        t['items'].append(('th.len2', e - 8, e))
        txns.append(t)
        pos = e
    return txns


def content(t):
    """what must be unchanged in an output transaction: id, status, metadata, records (oid, data)"""
    return (t['tid'], t['status'], t['user'], t['descr'], t['ext'], tuple((r['oid'], r['tid'], r['data']) for r in t['recs']))


def iter_view(txns, T):
    """the iterator column of the model's observation table, read from parsed transactions"""
    out = []
    for t in txns:
        import pickle
        ext = pickle.loads(t['ext']) if t['ext'] else {}
        out.append({'tid': T.model(t['tid']), 'status': t['status'], 'meta': sd.meta_name(t['user'], t['descr'], ext),
                    'recs': tuple({'oid': u64(r['oid']), 'd': cz.datum_of(r['data']), 'dtxn': T.model(r['dtid']) if r['dtid'] else 0}
                                  for r in t['recs'])})
    return tuple(out)


class Recorder:
    """Harness-side substitutions in the namespace of ZODB.fsrecover (the functions recover() calls through
    module globals): read_txn_header and scan are wrapped to record their outcome, scan reads through a
    StepFile (progress watchdog), the output FileStorage reports tpc_finish / tpc_abort."""

    def __init__(self):
        import ZODB.fsrecover as fr
        import ZODB.FileStorage
        self.fr = fr
        names = fr.recover.__code__.co_names
        for need in ('read_txn_header', 'scan', 'ZODB'):
            if need not in names:
                raise RuntimeError('fsrecover.recover does not use the global %s: the recorder cannot be installed' % need)
        self.orig = (fr.read_txn_header, fr.scan, fr.ZODB)
        self.events = []
        self.size = 0
        rec = self

        def read_txn_header(f, pos, file_size, outp, ltid):
            try:
                npos, txn, tid = rec.orig[0](f, pos, file_size, outp, ltid)
            except EOFError:
                rec.events.append(('hdr', pos, 'eof'))
                raise
            except (KeyboardInterrupt, SystemExit, Hang):
                raise
            except Exception:
                rec.events.append(('hdr', pos, 'err'))
                raise
            rec.events.append(('hdr', pos, 'undone' if txn is None else 'ok', npos, tid))
            return npos, txn, tid

        def scan(f, pos):
            try:
                q = rec.orig[1](StepFile(f, rec.size), pos)
            except Hang:
                rec.events.append(('scan', pos, -1))
                raise
            rec.events.append(('scan', pos, q))
            return q

        def storage(*a, **kw):
            st = ZODB.FileStorage.FileStorage(*a, **kw)
            fin, ab = st.tpc_finish, st.tpc_abort

            def tpc_finish(txn, f=None):
                r = fin(txn, f)
                rec.events.append(('copy',))
                return r

            def tpc_abort(txn):
                r = ab(txn)
                rec.events.append(('abort',))
                return r
            st.tpc_finish, st.tpc_abort = tpc_finish, tpc_abort
            rec.events.append(('open',))
            rec.st = st
            return st

        self.subst = (read_txn_header, scan,
                      types.SimpleNamespace(FileStorage=types.SimpleNamespace(packed_version=ZODB.FileStorage.packed_version,
                                                                              FileStorage=storage)))

    def run(self, inp, outp, size, timeout=6):
        """-> (events, how the run ended: 'end' | 'die' | 'hang' | 'crash:<Exception>')"""
        import contextlib
        import io
        fr = self.fr
        self.events = []
        self.size = size
        fr.read_txn_header, fr.scan, fr.ZODB = self.subst
        how = 'end'
        try:
            with contextlib.redirect_stdout(io.StringIO()), contextlib.redirect_stderr(io.StringIO()):
                with Watchdog(timeout):
                    fr.recover(inp, outp, 0, False, True, None)
        except SystemExit:
            how = 'die'
        except Hang:
            how = 'hang'
        except Exception as ex:
            import traceback
            tb = traceback.extract_tb(ex.__traceback__)[-1]
            how = 'crash:%s@%s' % (type(ex).__name__, tb.name)
        finally:
            fr.read_txn_header, fr.scan, fr.ZODB = self.orig
            st, self.st = getattr(self, 'st', None), None
            if st is not None and how != 'end':
                try:                                  # recover() did not get to close its output storage
                    if st._transaction is not None:
                        st.tpc_abort(st._transaction)
                    st.close()
                except Exception:
                    pass
        return self.events, how


def damage_bytes(data, dmg, rng_seed=0):
    """dmg = ('cut', p) | ('fill', lo, hi, fill) with fill in zero/ff/dot/noise"""
    if dmg[0] == 'none':
        return data
    if dmg[0] == 'cut':
        return data[:dmg[1]]
    _, lo, hi, fill = dmg
    if fill == 'noise':
        import random
        rng = random.Random(rng_seed * 1000003 + lo * 131 + hi)
        junk = bytes(rng.getrandbits(8) for _ in range(hi - lo))
    else:
        junk = {'zero': b'\0', 'ff': b'\xff', 'dot': b'.'}[fill] * (hi - lo)
    return data[:lo] + junk + data[hi:]


def project_run(txns, original, dmg, damaged, events, how, outtx):
    """The recorded run in the vocabulary of ZRecoverTool (positions are byte offsets, ids are 2 * index of the
    input transaction with that id, odd numbers for ids in between)."""
    tids = [t['tid'] for t in txns]

    def tidm(tid):
        if tid in tids:
            return 2 * (tids.index(tid) + 1)
        return 2 * sum(1 for x in tids if x < tid) + 1
    bystart = {t['s']: i for i, t in enumerate(txns)}
    size0 = len(original)
    if dmg[0] == 'cut':
        size, lo, hi = dmg[1], dmg[1], size0
    elif dmg[0] == 'none':
        size, lo, hi = size0, 0, 0
    else:
        size, lo, hi = size0, dmg[1], dmg[2]
        # bytes that the fill left as they were are not damaged
        while lo < hi and damaged[lo] == original[lo]:
            lo += 1
        while lo < hi and damaged[hi - 1] == original[hi - 1]:
            hi -= 1
        if lo >= hi:
            lo = hi = 0
    ev = []
    k = 0
    srcs = []
    cur = None
    for e in events:
        if e[0] == 'hdr':
            if e[2] in ('ok', 'undone'):
                ev.append({'k': 'hdr', 'p': e[1], 'r': e[2], 'q': e[3], 't': tidm(e[4]), 'same': False, 'whole': False})
                cur = bystart.get(e[1])
            else:
                ev.append({'k': 'hdr', 'p': e[1], 'r': e[2], 'q': 0, 't': 0, 'same': False, 'whole': False})
        elif e[0] == 'scan':
            ev.append({'k': 'scan', 'p': e[1], 'r': '-', 'q': e[2], 't': 0, 'same': False, 'whole': False})
        elif e[0] == 'copy':
            same = whole = False
            if k < len(outtx) and cur is not None:
                same = content(outtx[k]) == content(txns[cur])
                whole = len(outtx[k]['recs']) == len(txns[cur]['recs'])
                if not whole and lo < hi and txns[cur]['s'] <= lo and hi <= txns[cur]['h']:
                    # the damage lies in this transaction's HEADER (e.g. one byte of the extension length): the tool
                    # reads the records from another offset, which happens to end at the transaction's end.  Nothing in
                    # the format can tell (no checksum): judged like altered bytes of a transaction that overlaps the
                    # damage, not as a record dropped by the tool
                    whole = True
            srcs.append((cur, same, whole))
            k += 1
            ev.append({'k': 'copy', 'p': 0, 'r': '-', 'q': 0, 't': 0, 'same': same, 'whole': whole})
        else:
            ev.append({'k': e[0], 'p': 0, 'r': '-', 'q': 0, 't': 0, 'same': False, 'whole': False})
    if how.startswith('crash'):
        ev.append({'k': 'crash', 'p': 0, 'r': '-', 'q': 0, 't': 0, 'same': False, 'whole': False})
        how = 'end'
    ev.append({'k': how, 'p': 0, 'r': '-', 'q': 0, 't': 0, 'same': False, 'whole': False})
    run = {'size': size, 'lo': lo, 'hi': hi, 'ev': ev}
    return run, srcs, k


def _untouched_aborts(txns, run, events):
    """aborted copies of transactions that no damaged byte touches (ZRecoverTool!HintMissing: restore raised for
    a back-pointer record whose transaction is not in the output) - counted for the evidence"""
    lo, hi = run['lo'], run['hi']
    bystart = {t['s']: t for t in txns}
    n = 0
    cur = None
    for e in events:
        if e[0] == 'hdr' and e[2] == 'ok':
            cur = bystart.get(e[1])
        elif e[0] == 'abort' and cur is not None:
            rngs = [(cur['s'], cur['e'])] + list(cur['deps'])
            if not any(lo < hi and a < hi and lo < b for a, b in rngs):
                n += 1
    return n


def extents(txns):
    return [{'s': t['s'], 'h': t['h'], 'e': t['e'], 'deps': [list(d) for d in sorted(set(t['deps']))], 'dtx': sorted(t['dtx'])} for t in txns]


def build_source(job):
    """job = (behaviour file | steps, consts, workdir, opts) -> the data file a real FileStorage holds after the
    behaviour, with what TLC printed for its final state; None if the behaviour is of no use (too few transactions).
    The harness's own reading of the file (parse_fs) is checked against the iterator column of TLC's table."""
    from .. import tlaparse
    beh, c, workdir, opts = job
    if isinstance(beh, str):
        beh = tlaparse.parse_simulate_file(beh)
    final = beh[-1]['state']
    hist = norm(final['hist'])
    if len(hist) < opts.get('min_txns', 3):
        return None
    rc = dict(c, Cls=sd.cls_map(c))
    shutil.rmtree(workdir, ignore_errors=True)
    os.makedirs(workdir)
    rp = sd.StorageReplayer('file', rc, os.path.join(workdir, 'src'), opts)
    try:
        rp.open()
        sig = []
        for i, step in enumerate(beh):
            sig.append(step['action'] + repr(tuple(norm(step['args']))))
            mm = rp.step(step['action'], step['args'], step['state'])
            if mm:
                return {'failed': {'step': i, 'action': step['action'], 'detail': mm[:2]}, 'sig': sig}
        rp.st.close()
        with open(rp.path, 'rb') as f:
            data = f.read()
    finally:
        rp.close()
        shutil.rmtree(workdir, ignore_errors=True)
    txns = parse_fs(data)
    mo = norm(final['obs'])
    mine = iter_view(txns, rp.tids)
    if mine != mo['iter']:
        out = []
        sd.diff('iter', mo['iter'], mine, out)
        raise RuntimeError('the harness reads the source file differently from the table TLC printed: %s' % out[:3])
    return {'data': data, 'obs': final['obs'], 'hist': final['hist'], 'consts': rc, 'sig': sig, 'ntx': len(txns),
            'backs': sum(1 for t in txns for r in t['recs'] if r['back']),
            'zeros': sum(1 for t in txns for r in t['recs'] if not r['plen'] and not r['back']),
            'multi': sum(1 for t in txns if len(t['recs']) >= 2), 'packed': sum(1 for t in txns if t['status'] == 'p')}


def recover_cases(job):
    """job = (source index, original bytes, [damage], workdir, seed, model (obs, hist, consts) | None)
    Runs the real fsrecover.recover on every damaged copy under the watchdogs, records and projects the run.
    -> list of {run (for ZRecoverTrace), dmg, how, dot8, crash, table (mismatches of the undamaged recovery)}"""
    fidx, data, damages, wd, seed, model = job
    shutil.rmtree(wd, ignore_errors=True)
    os.makedirs(wd)
    txns = parse_fs(data)
    rec = Recorder()
    inp, outp = os.path.join(wd, 'in.fs'), os.path.join(wd, 'out.fs')
    res = []
    wall_hangs = 0
    for dmg in damages:
        if wall_hangs >= 2:
            break                       # the watchdog fired twice in this batch: reported; do not wait for the rest
        damaged = damage_bytes(data, dmg, seed)
        with open(inp, 'wb') as f:
            f.write(damaged)
        for x in os.listdir(wd):
            if x.startswith('out.fs'):
                os.remove(os.path.join(wd, x))
        events, how = rec.run(inp, outp, len(damaged))
        try:
            with open(outp, 'rb') as f:
                outtx = parse_fs(f.read(), tolerant=True)
        except FileNotFoundError:
            outtx = []
        wall_hangs += how == 'hang' and not (events and events[-1][0] == 'scan' and events[-1][2] == -1)
        run, srcs, ncopy = project_run(txns, data, dmg, damaged, events, how, outtx)
        hint_aborts = _untouched_aborts(txns, run, events)
        run['f'] = fidx + 1
        r = {'run': run, 'dmg': dmg, 'how': how, 'dot8': b'.' in damaged[-8:], 'nout': len(outtx), 'ncopy': ncopy, 'table': None,
             'hint_aborts': hint_aborts, 'altered': sum(1 for s in srcs if not s[1]), 'cut': sum(1 for s in srcs if not s[2]), 'scans': sum(1 for e in events if e[0] == 'scan')}
        if how == 'end' and ncopy != len(outtx):
            raise RuntimeError('recorder saw %d tpc_finish calls, the output file holds %d transactions (%r)' % (ncopy, len(outtx), dmg))
        if dmg[0] == 'none' and model is not None and how == 'end':
            # recovery of the undamaged file: the output storage must answer every query as TLC's table says
            from ZODB.FileStorage import FileStorage
            obs, hist, rc = model
            rd = sd.StorageReplayer('file', rc, wd, {})
            rd.st = FileStorage(outp)
            try:
                r['table'] = rd.compare(obs, hist=norm(hist)) or None
            finally:
                rd.st.close()
        res.append(r)
    shutil.rmtree(wd, ignore_errors=True)
    return res


def enumerate_damages(txns, size, every_byte, rng, budget=None):
    """Damages relative to the item boundaries of a parsed data file.
    every_byte: each byte position x lengths (1, 9, 40) x four fills, and every truncation point;
    otherwise a few positions per item class (first / last instance, first / last byte, crossing the end),
    lengths from 1 to "the rest of the file", fills rotating, truncations at and around item boundaries and
    within the last 12 bytes."""
    fills = ('zero', 'ff', 'dot', 'noise')
    out = [('none',)]
    if every_byte:
        for p in range(size):
            for ln in (1, 9, 40):
                if p + ln <= size:
                    for f in fills:
                        out.append(('fill', p, p + ln, f))
            out.append(('cut', p))
        return out
    items = [('magic', 0, 4)] + [it for t in txns for it in t['items']]
    byclass = {}
    for it in items:
        byclass.setdefault(it[0], []).append(it)
    n = 0
    for cls, insts in sorted(byclass.items()):
        picks = {0, len(insts) - 1, len(insts) // 2, rng.randrange(len(insts))}
        for k in sorted(picks):
            _, a, b = insts[k]
            if b <= a:
                continue
            for lo, hi in {(a, a + 1), (b - 1, b), (a, b), (a, min(size, b + 3)), (max(0, a - 2), a + 1), (b - 1, min(size, b + 8))}:
                if lo >= hi:
                    continue
                for j in range(2 if hi - lo > 1 else 4):
                    out.append(('fill', lo, hi, fills[(n + j) % 4]))
                n += 1
            for p in (a, a + 1, b - 1):
                if 0 <= p < size:
                    out.append(('cut', p))
    for t in txns:
        for ln in (64, 700, size):
            lo = rng.randrange(t['s'], t['e'])
            out.append(('fill', lo, min(size, lo + ln), fills[n % 4]))
            n += 1
    for p in range(max(0, size - 12), size):
        out.append(('cut', p))
    out = list(dict.fromkeys(out))
    if budget and len(out) > budget:
        head = out[:1]
        rest = out[1:]
        rng.shuffle(rest)
        out = head + rest[:budget - 1]
    return out
