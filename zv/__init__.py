"""zv: binding between the TLA+ specification suite in ../spec and the ZODB implementation."""
