"""C07 - packing never changes what is observable at or after the pack time."""
from .. import clock
from ..drivers import storage as sd
from . import _storage as S
from .c04 import ASSUME


def _dangling_txn(s):
    """a script whose removal of undo steps left 'begin vote finish' only is fine; nothing to filter"""
    return False


def packed(r):
    return (r['actions'].get('PackQ', 0) + r['actions'].get('Pack', 0)) >= 1 and r['txns'] >= 2


def pack_scripts(rng, n, noid=4):
    """Directed pack scenarios: build a small object graph, change / undo / delete, pack at some second with gc
    on or off, then go on (commit, undo, reopen, pack again)."""
    from ..drivers import scripts as sc
    out = []
    # deterministic family: chains of modify/undo of an object that holds the only reference to a child
    for k in (1, 2, 3):
        for gc in (True, False):
            s = sc.commit([(0, 'v1', (1,)), (1, 'v1', (2,)), (2, 'v1', ())], clk=1)
            clk = 1
            for i in range(k):
                clk += 1
                s += sc.commit([(1, 'v2', ())], clk=clk)
                clk += 1
                s += sc.undo(-1, clk=clk)
            s += sc.pack(clk, gc) + sc.commit([(2, 'v2', ())], clk=clk + 1) + sc.undo(-1, clk=clk + 1) + sc.reopen()
            out.append(s)
    # deterministic family: one transaction undoes two earlier transactions of the same object (two records for the
    # oid in one transaction), a later undo points back into it, then a pack below / inside / above the chain
    # deterministic family: an object that is garbage at the pack time is linked again by an undo after it and then
    # changed by a further undo (two back pointers from the future to different old revisions of one object)
    for sec in (4, 5):
        for gc in (True, False):
            s = sc.commit([(0, 'v1', (1,)), (1, 'v1', ())], clk=1) + sc.commit([(1, 'v1', (2,)), (2, 'v1', ())], clk=2)
            s += sc.commit([(2, 'v2', ())], clk=3) + sc.commit([(1, 'v2', ())], clk=4)          # t4: 1 drops its reference to 2
            s += sc.undo(-1, clk=5) + sc.undo(-3, clk=6) + sc.pack(sec, gc) + sc.reopen()
            out.append(s)
    for sec in (1, 3, 4, 5):
        for gc in (True, False):
            for first in ((-1, -2),):
                s = sc.commit([(0, 'v1', (1, 2)), (1, 'v1', ()), (2, 'v1', ())], clk=1) + sc.commit([(2, 'v2', ())], clk=1)
                s += sc.commit([(1, 'v2', ())], clk=2)
                s += sc.commit([(1, 'v1', ())], clk=3) + sc.undo(first[0], clk=4, more=(first[1],))
                s += sc.commit([(1, 'v2', ())], clk=5) + sc.undo(-1, clk=6) + sc.pack(sec, gc) + sc.reopen()
                out.append(s)
    # deterministic family: several undo records after the pack time point back to DIFFERENT old revisions of one
    # reachable object; an earlier target holds the only reference to an object that is garbage at the pack time
    for gc in (True, False):
        s = sc.commit([(0, 'v1', (1,)), (1, 'v1', ())], clk=1) + sc.commit([(1, 'v1', (2,)), (2, 'v1', ())], clk=2)
        s += sc.commit([(1, 'v2', ())], clk=3)                                  # 2 is garbage from here on (pack time)
        s += sc.undo(-1, clk=4) + sc.undo(-1, clk=5) + sc.pack(3, gc) + sc.reopen()   # undo (1 -> 2 again), undo of the undo
        out.append(s)
    # deterministic family: the newest transaction holds garbage only and is removed by the pack; the clock stalls
    for gc in (True,):
        out.append(sc.commit([(0, 'v1', (1,)), (1, 'v1', ())], clk=1) + sc.commit([(2, 'v1', ())], clk=2) + sc.pack(2, gc)
                   + sc.commit([(1, 'v2', ())], clk=2) + sc.commit([(1, 'v1', ())], clk=2))
    while len(out) < n:
        clk = 1
        kids = list(range(1, noid))
        rng.shuffle(kids)
        linked = kids[:rng.randint(1, len(kids))]
        s = sc.commit([(0, 'v1', tuple(linked[:2]))] + [(o, 'v1', tuple(x for x in linked if x > o)[:1]) for o in kids], clk=clk)
        for _ in range(rng.randint(1, 5)):
            clk = min(clk + rng.choice((0, 1, 1)), 7)
            op = rng.random()
            o = rng.choice(range(noid))
            if op < 0.45:
                s += sc.commit([(o, rng.choice(('v1', 'v2')), tuple(rng.sample(kids, rng.randint(0, 2))))], clk=clk)
            elif op < 0.75:
                s += sc.undo(rng.choice((-1, -1, -2)), clk=clk)
            elif op < 0.85:
                s += sc.delete(rng.choice(kids), clk=clk)
            else:
                s += sc.commit([(rng.choice(kids), 'v2', ()), (0, 'v2', tuple(rng.sample(kids, rng.randint(0, 2))))], clk=clk)
        s += sc.pack(rng.randint(0, clk + 1), rng.random() < 0.7)
        for _ in range(rng.randint(0, 3)):
            clk = min(clk + 1, 7)
            op = rng.random()
            if op < 0.35:
                s += sc.commit([(rng.choice(range(noid)), 'v2', tuple(rng.sample(kids, rng.randint(0, 1))))], clk=clk)
            elif op < 0.6:
                s += sc.undo(rng.choice((-1, -2)), clk=clk)
            elif op < 0.8:
                s += sc.reopen()
            else:
                s += sc.pack(rng.randint(0, clk + 1), rng.random() < 0.7)
        out.append(s)
    return out


def run(ctx):
    clock.install()
    from .. import concretize
    concretize.FORMATS = 'bareonly'      # every third object is referenced by its bare oid only
    q = ctx.quick
    props = ['PackPreserves', 'RepackChangesNothing']
    # 1. the transcriptions of both packers against the C07 relation PackOK
    mc = dict(AtomVals=('v1',), RefSets='RefsNoRoot', Cls='MCClsPlain')
    for kind in ('file', 'mapping'):
        S.model_check(ctx, kind + '-pack-2x2', sd.consts(kind, NOid=2, MaxTxn=2, MaxRecs=2 if (kind == 'mapping' or not q) else 1,
                                                         MaxClock=2, **mc),
                      invariants=['TypeOK'], properties=props, next_='NextWithPack', timeout=900)
        if q and kind == 'file':
            S.model_check(ctx, 'file-pack-3x1-1clock', sd.consts(kind, NOid=2, MaxTxn=3, MaxRecs=1, MaxClock=1, **mc),
                          invariants=['TypeOK'], properties=props, next_='NextWithPack', timeout=900)
        if not q:
            S.model_check(ctx, kind + '-pack-2oid', sd.consts(kind, NOid=2, MaxTxn=3, MaxRecs=1, MaxClock=2, **mc),
                          invariants=['TypeOK'], properties=props, next_='NextWithPack', timeout=900)
            S.model_check(ctx, kind + '-pack-3oid', sd.consts(kind, NOid=3, MaxTxn=2, MaxRecs=2, MaxClock=2, **mc),
                          invariants=['TypeOK'], properties=props, next_='NextWithPack', timeout=3000)
    # 2. behaviours with packs at every time, gc on/off, repeated, then more commits / undos / reopen
    big = dict(NOid=4, Metas=('m0',), MaxTxn=9, MaxRecs=3, MaxClock=4, AtomVals=('v1', 'v2'), RefSets='FewRefs2', Cls='MCClsPlain')
    num = 150 if q else 6000
    cov = {}
    for kind in ('file', 'mapping'):
        c = sd.consts(kind, **big)
        files = S.simulate(ctx, kind, c, num=num, depth=80, seed=ctx.seed + 17, next_='NextPack', properties=props)
        res = S.replay_all(ctx, files, kind, c, opts={'sparse': False})
        # 3. directed scenarios evaluated by TLC (ZScript)
        import random
        from ..drivers import scripts as sc
        scripts = pack_scripts(random.Random(ctx.seed * 7919 + 1), 80 if q else 1500)
        if kind == 'mapping':
            scripts = [[e for e in s if e['a'] not in ('undo', 'delete', 'reopen')] for s in scripts]
            scripts = [s for s in scripts if not _dangling_txn(s)]
        cs = sd.consts(kind, **dict(big, MaxTxn=14, MaxRecs=5, MaxClock=8, RefSets='AllRefs'))
        behs = sc.evaluate(ctx, kind, scripts, cs)
        whole = [sc.complete(s_, b) for s_, b in zip(scripts, behs)]
        if kind == 'file' and not all(whole[:21]):
            # (an entry that is not enabled in the model ends a script silently: the directed families must run through)
            raise RuntimeError('directed pack scenarios were not evaluated to their end: %r' % [i for i, w in enumerate(whole[:21]) if not w])
        rs = S.replay_all(ctx, behs, kind, cs, opts={'sparse': False}, tag='scr')
        res += rs
        # the C07 relation evaluated by TLC at every pack step of every script (it is a property of the simulated and
        # exhaustive runs; scripts carry the verdict with the call)
        npk = 0
        for s_, b, r_ in zip(scripts, behs, rs):
            for st in b:
                if st['action'] != 'Pack':
                    continue
                npk += 1
                if sd.norm(st['state']['act']).get('packok') is False and r_['mismatch'] is None:
                    names = ('snapshot-at-or-after-T-differs', 'tail-differs', 'revision-invented', 'removed-what-it-may-not')
                    failing = [n for n, ok in zip(names, sd.norm(st['state']['act'])['clauses']) if not ok]
                    undo_after = any(x['action'] == 'Undo' for x in b[:b.index(st)])
                    ctx.violation({'kind': 'pack-relation', 'storage': kind, 'gc': bool(sd.norm(st['args'])[1]), 'clauses': '+'.join(failing),
                                   'undo_before_pack': undo_after},
                                  '%s storage: the pack %r of this history does not satisfy the C07 relation PackOK (the '
                                  'specification is the transcription of the packer, which the real storage followed call by call: '
                                  'it observably changes a snapshot at or after the pack time, or removes what it may not); calls: %s' % (
                                      kind, tuple(sd.norm(st['args'])), ' '.join(x['action'] + repr(tuple(sd.norm(x['args']))) for x in b)[:900]),
                                  replay={'script': s_})
        cov.setdefault('pack_steps_judged_by_PackOK', {})[kind] = npk
        cov[kind] = S.judge(ctx, res, kind, focus=packed)
        cov[kind]['sample'] = res[0]['sig'][:30]
        cov[kind]['scripted'] = len(behs)
        cov[kind]['scripts_evaluated_to_the_end'] = sum(whole)
    pkj = cov.pop('pack_steps_judged_by_PackOK', {})
    ev = sum(v['behaviours'] for v in cov.values())
    return ctx.finish({
        'evaluations': ev,
        'distinct_nontrivial': sum(v['nontrivial'] for v in cov.values()),
        'rule': 'TLC checks the transcription of FileStorage packer (GC incl. back-pointer roots, copyToPacktime, copyRest) '
                'and of MappingStorage.pack against the relation PackOK exhaustively on small constants and along every '
                'simulated behaviour; behaviours under NextPack (commits with references, deletions, undo records crossing '
                'the pack time, packs at every second boundary with gc on/off, repeated packs, close/reopen, further '
                'commits and undos after the pack; directed families: modify/undo chains over the only reference to a child, one transaction '
                'undoing two transactions of the same object with a later undo pointing back into it) are replayed: the packed history (iterator) and every query at or after '
                'the pack time must equal what the transcription yields; non-trivial = contains a pack and two commits',
        'traces_validated_against_impl': ev,
        'per_storage': cov, 'pack_steps_judged_by_PackOK_in_scripts': pkj,
        'samples': [cov[k]['sample'] for k in cov],
        'exhaustive': False,
    }, ASSUME + ['pack times are whole-second boundaries (the API takes float seconds; transactions within one second '
                 'cannot be separated by a pack time)',
                 'observable = reachable from the root in the snapshot; below the pack time only the record chain is judged'])
