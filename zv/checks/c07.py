"""C07 - packing never changes what is observable at or after the pack time."""
from .. import clock
from ..drivers import storage as sd
from . import _storage as S
from .c04 import ASSUME


def packed(r):
    return (r['actions'].get('PackQ', 0) + r['actions'].get('Pack', 0)) >= 1 and r['txns'] >= 2


def run(ctx):
    clock.install()
    q = ctx.quick
    props = ['PackPreserves', 'RepackChangesNothing']
    # 1. the transcriptions of both packers against the C07 relation PackOK
    mc = dict(AtomVals=('v1',), RefSets='RefsNoRoot', Cls='MCClsPlain')
    for kind in ('file', 'mapping'):
        S.model_check(ctx, kind + '-pack-2x2', sd.consts(kind, NOid=2, MaxTxn=2, MaxRecs=2, MaxClock=2, **mc),
                      invariants=['TypeOK'], properties=props, next_='NextWithPack', timeout=900)
        if not q:
            S.model_check(ctx, kind + '-pack-2oid', sd.consts(kind, NOid=2, MaxTxn=3, MaxRecs=1, MaxClock=2, **mc),
                          invariants=['TypeOK'], properties=props, next_='NextWithPack', timeout=900)
            S.model_check(ctx, kind + '-pack-3oid', sd.consts(kind, NOid=3, MaxTxn=2, MaxRecs=2, MaxClock=2, **mc),
                          invariants=['TypeOK'], properties=props, next_='NextWithPack', timeout=3000)
    # 2. behaviours with packs at every time, gc on/off, repeated, then more commits / undos / reopen
    big = dict(NOid=4, Metas=('m0',), MaxTxn=9, MaxRecs=3, MaxClock=4, AtomVals=('v1', 'v2'), RefSets='FewRefs2', Cls='MCClsPlain')
    num = 300 if q else 6000
    cov = {}
    for kind in ('file', 'mapping'):
        c = sd.consts(kind, **big)
        files = S.simulate(ctx, kind, c, num=num, depth=80, seed=ctx.seed + 17, next_='NextPack', properties=props)
        res = S.replay_all(ctx, files, kind, c, opts={'sparse': False})
        cov[kind] = S.judge(ctx, res, kind, focus=packed)
        cov[kind]['sample'] = res[0]['sig'][:30]
    ev = sum(v['behaviours'] for v in cov.values())
    return ctx.finish({
        'evaluations': ev,
        'distinct_nontrivial': sum(v['nontrivial'] for v in cov.values()),
        'rule': 'TLC checks the transcription of FileStorage packer (GC incl. back-pointer roots, copyToPacktime, copyRest) '
                'and of MappingStorage.pack against the relation PackOK exhaustively on small constants and along every '
                'simulated behaviour; behaviours under NextPack (commits with references, deletions, undo records crossing '
                'the pack time, packs at every second boundary with gc on/off, repeated packs, close/reopen, further '
                'commits and undos after the pack) are replayed: the packed history (iterator) and every query at or after '
                'the pack time must equal what the transcription yields; non-trivial = contains a pack and two commits',
        'traces_validated_against_impl': ev,
        'per_storage': cov,
        'samples': [cov[k]['sample'] for k in cov],
        'exhaustive': False,
    }, ASSUME + ['pack times are whole-second boundaries (the API takes float seconds; transactions within one second '
                 'cannot be separated by a pack time)',
                 'observable = reachable from the root in the snapshot; below the pack time only the record chain is judged'])
