"""C09 - index and side files are only caches; a read-only open changes nothing."""
import os

from .. import clock, faultfs, par, tlc
from ..drivers import crash, storage as sd
from . import _storage as S
from .c01 import ASSUME, _mc


def _zsane(ctx):
    """The transcription of _check_sanity with real byte sizes (ZSane): TLC searches for a stale index snapshot that
    passes the sanity check against a later, packed file although its entries are wrong (position coincidence).
    The counterexample is replayed on the real FileStorage: same commits with equal-sized records, index saved by a
    close, pack between two transactions, then the stale .index put back."""
    import shutil
    from ..concretize import p64, z64
    from ..tlaparse import MV
    from ZODB.FileStorage import FileStorage
    from ZODB.serialize import referencesf
    c = sd.consts('file', NOid=3, MaxTxn=8, Cls='MCClsPlain')
    rp = sd.StorageReplayer('file', dict(c, Cls=sd.cls_map(c)), os.path.join(ctx.scratch, 'zsane'), {})
    L = len(rp.data(0, {'v': ('v1',), 'refs': frozenset()}))
    cfg = os.path.join(ctx.scratch, 'zsane.cfg')
    tlc.write_cfg(cfg, constants={'Oid': '{o0, o1}', 'MaxTxn': 4, 'L': L}, invariants=['IndexIsCache'])
    r = ctx.model_check('ZSane', cfg, name='ZSane-position-coincidence', expect_violation='IndexIsCache', timeout=600)
    steps = [s for s in r.trace if s['action'] != 'Init']
    rp.open()
    st = rp.st
    serial = {}
    snaps = []
    clk = 0
    out = {'steps': [], 'L': L}
    try:
        for s in steps:
            a = s['action']
            out['steps'].append('%s%r' % (a, tuple(sd.norm(s['args']))))
            if a == 'Commit':
                clk += 1
                clock.CLOCK.set(clk)
                t = rp._txn()
                st.tpc_begin(t)
                for o in s['args'][0]:
                    oid = int(str(o)[1:])
                    st.store(p64(oid), serial.get(oid, z64), rp.data(oid, {'v': ('v1',), 'refs': frozenset()}), '', t)
                st.tpc_vote(t)
                tid = st.tpc_finish(t)
                for o in s['args'][0]:
                    serial[int(str(o)[1:])] = tid
            elif a == 'SaveIndex':
                st.close()
                with open(rp.path + '.index', 'rb') as f:
                    snaps.append(f.read())
                rp.open(create=False)
                st = rp.st
            elif a == 'Pack':
                st.pack(clock.T0 + int(s['args'][0]) + 0.5, referencesf, gc=False)
        st.close()
        # full scan vs each stale snapshot
        def view(index_bytes):
            d = os.path.join(ctx.scratch, 'zsane-img')
            shutil.rmtree(d, ignore_errors=True)
            os.makedirs(d)
            shutil.copy(rp.path, os.path.join(d, 'Data.fs'))
            if index_bytes is not None:
                with open(os.path.join(d, 'Data.fs.index'), 'wb') as f:
                    f.write(index_bytes)
            s2 = FileStorage(os.path.join(d, 'Data.fs'))
            try:
                used = bool(getattr(s2, '_used_index', 0))
                res = {}
                for o in range(3):
                    try:
                        data, ser = s2.load(p64(o), '')
                        res[o] = (ser.hex(), len(data))
                    except Exception as ex:
                        res[o] = type(ex).__name__
                return used, dict(s2._index.items()), res
            finally:
                s2.close()
        _, scan_index, scan_view = view(None)
        for sb in snaps:
            used, idx, v = view(sb)
            out['index_used'] = used
            if used and (idx != scan_index or v != scan_view):
                ctx.violation({'kind': 'index', 'stale': 'pre-pack', 'accepted': True, 'via': 'ZSane-counterexample'},
                              'a pre-pack index passes _check_sanity against the packed file by position coincidence and is used: '
                              'index %r vs full scan %r; loads %r vs %r (history: %s)' % (
                                  {k.hex()[-2:]: p for k, p in idx.items()}, {k.hex()[-2:]: p for k, p in scan_index.items()}, v, scan_view,
                                  ' '.join(out['steps'])), replay=out)
    finally:
        rp.close()
    return out


def run(ctx):
    clock.install()
    faultfs.install()
    q = ctx.quick
    _mc(ctx)
    zs = _zsane(ctx)
    num = 50 if q else 1200
    c1 = sd.consts('file', Cls='MCCls', NOid=3, Metas=('m0', 'm1'), MaxTxn=9, MaxRecs=3, MaxClock=2)
    files = [(f, c1) for f in S.simulate(ctx, 'commit', c1, num=num, depth=70, seed=ctx.seed + 31, next_='NextCommit')]
    c2 = sd.consts('file', NOid=4, Metas=('m0',), MaxTxn=9, MaxRecs=3, MaxClock=4, AtomVals=('v1', 'v2'), RefSets='FewRefs2',
                   Cls='MCClsPlain')
    files += [(f, c2) for f in S.simulate(ctx, 'pack', c2, num=num, depth=80, seed=ctx.seed + 32, next_='NextPack')]
    jobs = [(f, c, os.path.join(ctx.scratch, 'c09-%d' % i), {'mode': 'c09', 'rng_seed': ctx.seed * 1000 + i, 'pad': (0, 0, 500)[i % 3],
                                                            'oid_stride': (1, 65537)[i % 2]})
            for i, (f, c) in enumerate(files)]
    res = par.pmap(crash.run_behaviour, jobs, chunksize=2)
    traces = [r['events'] for r in res]
    accepted, rejected, tr = tlc.validate_traces('ZFileTrace', traces, os.path.join(ctx.scratch, 'tv'),
                                                 constants={'MaxTxn': 0, 'MaxChunk': 0})
    ctx.add_tlc('ZFileTrace-validation', tr)
    images = sum(r['images'] for r in res)
    nontrivial = 0
    kinds = {}
    for i, r in enumerate(res):
        if r['snaps'] >= 2 and r['commits'] >= 2:
            nontrivial += 1
        for t in traces[i]:
            if t['ev'].startswith('Probe'):
                key = t['ev'] + ':' + str(t.get('stale', t.get('variant', '')))
                kinds[key] = kinds.get(key, 0) + 1
        for p in r['problems']:
            ctx.violation({'kind': 'replay', 'action': p['action']},
                          'replay under the file layer diverged from ZStorage: %s' % (p['detail'],), replay={'sig': r['sig']})
        if i in rejected:
            k = rejected[i]
            ev = traces[i][k] if k is not None and k < len(traces[i]) else {'ev': '?'}
            det = [d for d in r['probe_details'] if d['at'] == ev.get('at')][:1]
            sig = {'kind': 'trace', 'event': ev.get('ev')}
            if ev.get('ev') == 'ProbeIndex':
                sig.update(stale=ev['stale'], variant=ev['variant'].split('+')[0],
                           outcome='error-or-wrong-state' if not ev['n'] else 'other-version')
            elif ev.get('ev') == 'ProbeRO':
                sig.update(modified=ev['modified'], refused=ev['refused'], state_ok=bool(ev['n']), variant=ev['variant'])
            elif ev.get('ev') == 'ProbeStop':
                sig.update(with_index=ev['with_index'], without_index=ev['without_index'])
            elif ev.get('ev') == 'Probe':
                sig.update(outcome='error-or-wrong-state' if not ev['n'] else 'other-version')
            ctx.violation(sig, 'trace %d rejected by ZFileTrace at event %s %r%s' % (
                i, k, ev, ('; ' + det[0]['detail']) if det else ''), replay={'sig': r['sig'], 'event': ev, 'index': k})
    return ctx.finish({
        'evaluations': images,
        'distinct_nontrivial': nontrivial,
        'traces_validated_against_impl': len(traces),
        'trace_events': sum(len(t) for t in traces),
        'images_opened': images,
        'probe_kinds': kinds,
        'zsane_counterexample': zs,
        'behaviours': len(res),
        'rule': 'behaviours of ZStorage (commit-heavy with reopen; pack-heavy) run on a real FileStorage over the recording '
                'layer; at every point where an API call has returned (incl. after a vote: unfinished transaction at the '
                'end, writer active) the directory is copied and opened (a) without index, (b) with every index file the '
                'code saved earlier in the run (the 3 newest and the oldest; also cut to half and by one byte; some with '
                'leftover .tmp/.pack/.old/.index_tmp/.lock files), (c) read-only (directory hash incl. mtimes before/after, '
                '7 writing calls must raise ReadOnlyError), (d) read-only with stop = an earlier tid, with and without an index file (time travel); each probe records which version of the model history the '
                'opened storage answers EVERY query like; TLC validates the traces against ZFileTrace: every probe must '
                'equal the version the data file alone determines; non-trivial = >=2 saved indexes and >=2 commits',
        'samples': [[e for e in traces[0] if e['ev'].startswith('Probe')][:12]] if traces else [],
        'exhaustive': False,
    }, ASSUME + ['crash states of a pack in progress are probed by the C08 check; arbitrary bit damage inside an index is '
                 'outside the guarantee'])
