"""C06 - undo restores the pre-transaction state or changes nothing."""
from .. import clock
from ..drivers import storage as sd
from . import _storage as S
from .c04 import ASSUME


def undone(r):
    return r['actions'].get('Undo', 0) >= 1 and r['txns'] >= 3


def undo_pack_scripts(rng, n):
    """undo before and after packs and reopen: a few commits over 3 objects (oid 1 resolves), undos (single, two per
    transaction, undo of undo, undo of a creation), a pack at any second with gc on or off, then more undos of
    transactions on both sides of the pack time (many must fail: the pre-state was packed away), reopen"""
    from ..drivers import scripts as sc
    out = []
    # directed: undo / redo of a creation across the pack time, then undo of the redo after the pack; a write to an
    # object that is garbage at the pack time, undone after the pack
    for gc in (True, False):
        out.append(sc.commit([(0, 'v1', (1,)), (1, 'v1', ())], clk=1) + sc.commit([(0, 'v2', (1, 2)), (2, 'v1', ())], clk=2)
                   + sc.undo(-1, clk=3) + sc.undo(-1, clk=4) + sc.pack(3, gc) + sc.undo(-1, clk=5) + sc.reopen())
        out.append(sc.commit([(0, 'v1', (1, 2)), (1, 'v1', ()), (2, 'v1', ())], clk=1) + sc.commit([(0, 'v2', (1,))], clk=2)
                   + sc.commit([(2, 'v2', ())], clk=4) + sc.commit([(0, 'v1', (1, 2))], clk=5) + sc.pack(3, gc) + sc.undo(-2, clk=6)
                   + sc.reopen())
    while len(out) < n:
        clk = 1
        s = sc.commit([(0, 'v1', (1, 2)), (1, 'v1', ()), (2, 'v1', ())], clk=clk)
        ntx = 1
        for _ in range(rng.randint(2, 5)):
            clk = min(clk + rng.choice((0, 1, 1)), 6)
            op = rng.random()
            # ntx: transactions that are certainly committed (plain commits never fail; an undo may)
            if op < 0.5:
                s += sc.commit([(rng.choice((1, 2)), rng.choice(('v1', 'v2')), ())], clk=clk)
                ntx += 1
            elif op < 0.6:
                s += sc.commit([(1, 'v2', ()), (2, 'v2', ())], clk=clk)
                ntx += 1
            elif op < 0.85 or ntx < 2:
                s += sc.undo(-1, clk=clk) if (rng.random() < 0.6 or ntx < 2) else sc.undo(-1, clk=clk, more=(-2,))
            else:
                s += sc.undo(-rng.randint(2, min(ntx, 4)), clk=clk)
        s += sc.pack(rng.randint(1, clk + 1), rng.random() < 0.6)
        if rng.random() < 0.4:
            s += sc.reopen()
        for _ in range(rng.randint(1, 3)):
            clk = min(clk + 1, 7)
            op = rng.random()
            if op < 0.6:
                s += sc.undo(-rng.randint(1, min(ntx, 5)), clk=clk)
            elif op < 0.8 and ntx >= 2:
                s += sc.undo(-1, clk=clk, more=(-2,))
            else:
                s += sc.commit([(rng.choice((1, 2)), 'v2', ())], clk=clk)
                ntx += 1
        if rng.random() < 0.5:
            s += sc.reopen()
        out.append(s)
    return out


def run(ctx):
    clock.install()
    q = ctx.quick
    inv = ['BackPointersGoBack', 'TidsStrictlyIncrease']
    props = ['UndoSemantics', 'AbortRestores']
    S.model_check(ctx, 'file-3x1', sd.consts('file', MaxTxn=3, MaxRecs=1), invariants=inv, properties=props)
    S.model_check(ctx, 'file-2x2', sd.consts('file', MaxTxn=2, MaxRecs=2), invariants=inv, properties=props)
    S.model_check(ctx, 'file-4x1', sd.consts('file', MaxTxn=4, MaxRecs=1, AtomVals=('v1',), MaxClock=1), invariants=inv,
                  properties=props, timeout=900)
    big = dict(NOid=3, Metas=('m0',), MaxTxn=9, MaxRecs=3, MaxClock=2, MaxUndo=3)
    num = 300 if q else 6000
    c = sd.consts('file', Cls='MCCls', **big)
    files = S.simulate(ctx, 'file', c, num=num, depth=80, seed=ctx.seed + 7, next_='NextUndo')
    res = S.replay_all(ctx, files, 'file', c)
    # undo before and after packs and reopen (directed scripts evaluated by TLC)
    import random
    from ..drivers import scripts as sc
    scripts = undo_pack_scripts(random.Random(ctx.seed * 131 + 3), 80 if q else 3000)
    cs = sd.consts('file', Cls='MCCls', **dict(big, NOid=3, MaxTxn=14, MaxRecs=7, MaxClock=8, RefSets='FewRefs2'))
    behs = sc.evaluate(ctx, 'undo-pack', scripts, cs)
    res2 = S.replay_all(ctx, behs, 'file', cs, opts={'sparse': False}, tag='up')
    res = res + res2
    after_pack = 0
    for b in behs:
        acts = [st['action'] for st in b]
        if 'Pack' in acts and 'Undo' in acts[acts.index('Pack'):]:
            after_pack += 1
    if after_pack < len(behs) // 3:
        raise RuntimeError('vacuous run: only %d of %d scripts reach an undo after a pack' % (after_pack, len(behs)))
    if sum(1 for s_, b in zip(scripts, behs) if sc.complete(s_, b)) < len(behs) * 0.9:
        raise RuntimeError('directed undo/pack scripts were not evaluated to their end')
    # pack transparency for later undos (differential, both sides evaluated by TLC): the same script without its pack
    # entries; where every call has the same outcome in both, the final current states must agree - an object the
    # history without the pack ends without must not exist with it, and an object reachable from the root must not
    # be missing or different because of the pack
    nopack = [[e for e in s_ if e['a'] != 'pack'] for s_ in scripts]
    behs0 = sc.evaluate(ctx, 'undo-nopack', nopack, cs)
    ndiff = 0
    for s_, b1, b0, r1 in zip(scripts, behs, behs0, res2):
        if r1['mismatch'] is not None or not sc.complete(s_, b1):
            continue
        o1 = [(st['action'], sd.norm(st['state']['res'])['out']) for st in b1 if st['action'] != 'Pack']
        o0 = [(st['action'], sd.norm(st['state']['res'])['out']) for st in b0]
        if o1 != o0:
            continue
        ndiff += 1
        c1 = sd.norm(b1[-1]['state']['obs'])['cur']
        c0 = sd.norm(b0[-1]['state']['obs'])['cur']
        h0 = sd.norm(b0[-1]['state']['hist'])
        reach, todo = set(), [0]
        while todo:
            o = todo.pop()
            if o in reach or c0.get(o, {}).get('k') != 'rev':
                continue
            reach.add(o)
            todo += list(c0[o]['d']['refs'])
        for o in sorted(c0):
            a0, a1 = c0[o], c1[o]
            sig = None
            if a0['k'] != 'rev' and a1['k'] == 'rev':
                sig = 'object-exists-only-with-the-pack'
            elif a0['k'] == 'rev' and o in reach and (a1['k'] != 'rev' or a1['d'] != a0['d']):
                sig = 'reachable-object-differs-with-the-pack'
            if sig:
                ctx.violation({'kind': 'undo-after-pack', 'what': sig},
                              'the same calls with the same outcomes end differently with and without the pack (specification = '
                              'transcription of the code, which the real storage followed call by call): oid %d without pack %r, '
                              'with pack %r; calls: %s' % (o, a0, a1, ' '.join(st['action'] + repr(tuple(sd.norm(st['args']))) for st in b1)[:700]),
                              replay={'script': s_})
    cov = S.judge(ctx, res, 'file', focus=undone)
    cov['pack_transparency_pairs_compared'] = ndiff
    cov['scripted_undo_pack'] = {'scripts': len(behs), 'with_undo_after_pack': after_pack,
                                 'evaluated_to_the_end': sum(1 for s_, b in zip(scripts, behs) if sc.complete(s_, b))}
    return ctx.finish({
        'evaluations': cov['behaviours'],
        'distinct_nontrivial': cov['nontrivial'],
        'rule': 'TLC -simulate behaviours of ZStorage under NextUndo (three ordinary commits, then transactions made of '
                'undo() calls: single, several per transaction, undo of undo, undo of creation, undo with later equal / '
                'mergeable (oid 1 has a resolver) / conflicting changes, close/reopen in between); undo() must return the '
                'oids or raise UndoError exactly as the transcription of _transactionalUndoRecord in the specification '
                'says, and after the commit every query must equal the specification table; TLC checks UndoSemantics on '
                'the specification; directed scripts (evaluated by TLC through ZScript) add undos before and after packs at every second '
                '(gc on/off) and reopen; non-trivial = at least one undo call and three commits',
        'traces_validated_against_impl': cov['behaviours'],
        'per_storage': {'file': cov},
        'samples': [res[0]['sig'][:30]],
        'exhaustive': False,
    }, ASSUME + ['visibility of an undo to other connections at their next boundary is decided by the C02 machinery'])
