"""C06 - undo restores the pre-transaction state or changes nothing."""
from .. import clock
from ..drivers import storage as sd
from . import _storage as S
from .c04 import ASSUME


def undone(r):
    return r['actions'].get('Undo', 0) >= 1 and r['txns'] >= 3


def run(ctx):
    clock.install()
    q = ctx.quick
    inv = ['BackPointersGoBack', 'TidsStrictlyIncrease']
    props = ['UndoSemantics', 'AbortRestores']
    S.model_check(ctx, 'file-3x1', sd.consts('file', MaxTxn=3, MaxRecs=1), invariants=inv, properties=props)
    S.model_check(ctx, 'file-2x2', sd.consts('file', MaxTxn=2, MaxRecs=2), invariants=inv, properties=props)
    S.model_check(ctx, 'file-4x1', sd.consts('file', MaxTxn=4, MaxRecs=1, AtomVals=('v1',), MaxClock=1), invariants=inv,
                  properties=props, timeout=900)
    big = dict(NOid=3, Metas=('m0',), MaxTxn=9, MaxRecs=3, MaxClock=2, MaxUndo=3)
    num = 400 if q else 6000
    c = sd.consts('file', Cls='MCCls', **big)
    files = S.simulate(ctx, 'file', c, num=num, depth=80, seed=ctx.seed + 7, next_='NextUndo')
    res = S.replay_all(ctx, files, 'file', c)
    cov = S.judge(ctx, res, 'file', focus=undone)
    return ctx.finish({
        'evaluations': cov['behaviours'],
        'distinct_nontrivial': cov['nontrivial'],
        'rule': 'TLC -simulate behaviours of ZStorage under NextUndo (three ordinary commits, then transactions made of '
                'undo() calls: single, several per transaction, undo of undo, undo of creation, undo with later equal / '
                'mergeable (oid 1 has a resolver) / conflicting changes, close/reopen in between); undo() must return the '
                'oids or raise UndoError exactly as the transcription of _transactionalUndoRecord in the specification '
                'says, and after the commit every query must equal the specification table; TLC checks UndoSemantics on '
                'the specification; non-trivial = at least one undo call and three commits',
        'traces_validated_against_impl': cov['behaviours'],
        'per_storage': {'file': cov},
        'samples': [res[0]['sig'][:30]],
        'exhaustive': False,
    }, ASSUME + ['visibility of an undo to other connections at their next boundary is decided by the C02 machinery'])
