"""C15 - historical connections read exactly the chosen past state and cannot write."""
import datetime
import os
import random

from .. import clock, par, tlc
from ..concretize import p64
from ..drivers import scripts as sc, storage as sd
from . import _storage as S
from .c04 import ASSUME


def hist_scripts(rng, n, noid=3):
    """histories with later-changed, deleted, un-created (undo of creation) and later-created objects; the clock
    sometimes stalls so that several transactions share a second"""
    out = []
    for _ in range(n):
        clk = 1
        s = sc.commit([(0, 'v1', ()), (1, 'v1', ())], clk=clk)
        for _ in range(rng.randint(2, 6)):
            clk = min(clk + rng.choice((0, 0, 1)), 6)
            op = rng.random()
            o = rng.choice(range(noid))
            if op < 0.5:
                s += sc.commit([(o, rng.choice(('v1', 'v2')), ())], clk=clk)
            elif op < 0.7:
                s += sc.commit([(1, 'v2', ()), (2, rng.choice(('v1', 'v2')), ())], clk=clk)
            elif op < 0.85:
                s += sc.undo(rng.choice((-1, -1, -2)), clk=clk)
            else:
                s += sc.delete(rng.choice((1, 2)), clk=clk)
        out.append(s)
    return out


def demo_scripts(rng, n, noid=3):
    """commit-only histories for the demo-storage variant (a DemoStorage offers neither undo nor deletion here)"""
    out = []
    for _ in range(n):
        clk = 1
        s = sc.commit([(0, 'v1', ()), (1, 'v1', ())], clk=clk)
        for _ in range(rng.randint(3, 6)):
            clk = min(clk + rng.choice((0, 1, 1)), 6)
            if rng.random() < 0.7:
                s += sc.commit([(rng.choice(range(noid)), rng.choice(('v1', 'v2')), ())], clk=clk)
            else:
                s += sc.commit([(1, 'v2', ()), (2, rng.choice(('v1', 'v2')), ())], clk=clk)
        out.append(s)
    return out


def _visible(lb_row, b):
    return lb_row[b]


def replay_hist(job):
    """Replay a scripted behaviour on a FileStorage; after every commit open historical connections at every bound
    in several forms and compare what they read with the loadBefore table TLC printed; keep some open to the end."""
    import ZODB
    from ZODB.POSException import POSKeyError, ReadOnlyHistoryError
    import transaction
    beh, c, workdir, opts = job
    rng = random.Random(opts['rng_seed'])
    rc = dict(c, Cls=sd.cls_map(c))
    rp = sd.StorageReplayer('file', rc, workdir, {})
    out = {'mismatch': [], 'opens': 0, 'reads': 0, 'kept': 0, 'forms': {}, 'refused_future': 0, 'refused_write': 0,
           'sig': [s['action'] for s in beh]}
    K = rc['K']
    db = None
    kept = []          # (conn, bound, expected row per oid) checked again at the end
    mirror = {'st': None, 'upto': None}

    def sync_mirror():
        """second database of a multi-database: a FileStorage holding a transaction-for-transaction copy (same tids)"""
        from ZODB.FileStorage import FileStorage
        from ZODB.utils import p64 as _p, u64 as _u
        if mirror['st'] is None:
            mirror['st'] = FileStorage(os.path.join(workdir, 'mirror.fs'))
        st2 = mirror['st']
        start = None if mirror['upto'] is None else _p(_u(mirror['upto']) + 1)
        from ZODB.Connection import TransactionMetaData
        for txn in rp.st.iterator(start):
            # (a fresh metadata object: records of a MappingStorage cannot be handed to tpc_begin, F22)
            t = TransactionMetaData(txn.user, txn.description, dict(txn.extension or {}))
            st2.tpc_begin(t, txn.tid, txn.status)
            for r in txn:
                st2.restore(r.oid, r.tid, r.data, '', r.data_txn, t)
            st2.tpc_vote(t)
            st2.tpc_finish(t)
            mirror['upto'] = txn.tid

    def check_mirror(conn, obs, b, form, where):
        c2 = conn.get_connection('mirror')
        out['mirror'] = out.get('mirror', 0) + 1
        if c2.before != conn.before:
            out['mismatch'].append({'what': 'secondary-connection-bound', 'form': form, 'when': where, 'bound': b,
                                    'spec': repr(conn.before), 'impl': repr(c2.before)})
            return None
        check_conn(c2, obs, b, form + '/secondary', where)
        return c2

    def expect(obs, o, b):
        return sd.norm(obs)['lb'][o][b]

    def check_conn(conn, obs, b, form, where):
        for o in range(rc['NOid']):
            e = expect(obs, o, b)
            try:
                ob = conn.get(p64(o))
                got = {'k': 'rev', 'v': tuple(ob.v)}
            except (POSKeyError, KeyError):
                got = {'k': 'absent'}
            out['reads'] += 1
            want = {'k': 'rev', 'v': tuple(e['d']['v'])} if e['k'] == 'rev' else {'k': 'absent'}
            if got != want:
                out['mismatch'].append({'what': 'read', 'form': form, 'when': where, 'bound': b, 'oid': o, 'spec': want, 'impl': got})

    import signal

    def _hang(signum, frame):
        raise TimeoutError('replay_hist watchdog')
    signal.signal(signal.SIGALRM, _hang)
    try:
        rp.open()
        for i, step in enumerate(beh):
            mm = rp.step(step['action'], step['args'], step['state'])
            signal.signal(signal.SIGALRM, _hang)
            signal.setitimer(signal.ITIMER_REAL, 60)
            if mm:
                out['mismatch'].append({'what': 'replay', 'detail': mm})
                break
            if step['action'] != 'Finish':
                continue
            nfin = out['finishes'] = out.get('finishes', 0) + 1
            if opts.get('demo_after') and nfin < opts['demo_after']:
                continue
            if opts.get('demo_after') == nfin:
                # from here on the database is a DemoStorage over what was committed so far: historical points
                # inside the base, at the seam and in the changes
                from ZODB.DemoStorage import DemoStorage
                rp.st = DemoStorage(base=rp.st)
                out['demo'] = True
            obs = step['state']['obs']
            hist = sd.norm(step['state']['hist'])
            tids = [t['tid'] for t in hist]
            last = tids[-1]
            sync_mirror()
            if db is None:
                dbs = {}
                db = ZODB.DB(rp.st, databases=dbs, database_name='main')
                mirror['db'] = ZODB.DB(mirror['st'], databases=dbs, database_name='mirror')
            bounds = sorted(b for b in sd.norm(obs)['lb'][0] if 1 <= b <= last + 1)
            for b in rng.sample(bounds, min(len(bounds), 5)):
                forms = [('before-raw', dict(before=rp.tids.real(b)))]
                if b >= 2:
                    forms.append(('at-raw', dict(at=rp.tids.real(b - 1))))
                sec = (b - 1) // K
                in_sec = [t for t in tids if t // K == sec]
                # a time of day inside second `sec`, later than every transaction of that second
                if (in_sec and b == max(in_sec) + 1) or (not in_sec and b == max([t for t in tids if t < sec * K] + [0]) + 1):
                    dt = datetime.datetime.utcfromtimestamp(clock.T0 + sec) + datetime.timedelta(microseconds=500000)
                    if not [t for t in tids if t // K == sec and t >= b] and [t for t in tids if t // K > sec]:
                        forms.append(('at-datetime', dict(at=dt)))
                        forms.append(('before-datetime', dict(before=dt)))
                if b % K == 0:
                    forms.append(('before-datetime-exact', dict(before=datetime.datetime.utcfromtimestamp(clock.T0 + b // K))))
                    # the same instant as a timezone-aware datetime east and west of UTC
                    for hours in (5, -8):
                        tz = datetime.timezone(datetime.timedelta(hours=hours))
                        forms.append(('before-datetime-aware', dict(before=datetime.datetime.fromtimestamp(clock.T0 + b // K, tz))))
                for form, kw in forms:
                    tm = transaction.TransactionManager()
                    try:
                        conn = db.open(tm, **kw)
                    except ValueError as ex:
                        out['mismatch'].append({'what': 'open-refused', 'form': form, 'bound': b, 'last': last, 'detail': str(ex)[:80]})
                        continue
                    out['opens'] += 1
                    out['forms'][form] = out['forms'].get(form, 0) + 1
                    check_conn(conn, obs, b, form, 'at-open')
                    if rng.random() < 0.5:
                        check_mirror(conn, obs, b, form, 'at-open')
                    if rng.random() < 0.4:
                        conn.cacheMinimize()
                        kept.append((conn, tm, b, form, obs))
                        out['kept'] += 1
                    else:
                        conn.close()
            # a point later than the newest transaction is refused (before > last + 1)
            for form, kw in (('before-raw', dict(before=rp.tids.real(last + 2))), ('at-raw', dict(at=rp.tids.real(last + 1))),
                             ('at-datetime', dict(at=datetime.datetime.utcfromtimestamp(clock.T0 + last // K + 2)))):
                try:
                    conn = db.open(transaction.TransactionManager(), **kw)
                    conn.close()
                    out['mismatch'].append({'what': 'future-accepted', 'form': form, 'last': last})
                except ValueError:
                    out['refused_future'] += 1
        # regardless of commits made while it was open
        if rp.t is not None:
            rp.st.tpc_abort(rp.t)
            rp.t = None
        final_obs = beh[-1]['state']['obs'] if not out['mismatch'] else None
        for conn, tm, b, form, obs in kept:
            check_conn(conn, obs, b, form, 'at-end')
            c2 = check_mirror(conn, obs, b, form, 'at-end')
            if c2 is not None and rng.random() < 0.5:
                # a write through the secondary connection of a historical connection is refused as well
                try:
                    ob = c2.get(p64(0))
                    ob.v = ['changed']
                    tm.commit()
                    out['mismatch'].append({'what': 'write-accepted', 'form': form + '/secondary', 'bound': b})
                except ReadOnlyHistoryError:
                    out['refused_write'] += 1
                    tm.abort()
                except (POSKeyError, KeyError):
                    tm.abort()
            # any attempt to commit through it fails ... (done at the end: a refused commit may consume a tid)
            try:
                if os.environ.get('ZV_DEBUG'):
                    print('pre-write', rp.st._commit_lock.locked(), rp.st._transaction, rp.t, form, b)
                ob = conn.get(p64(0))
                ob.v = ['changed']
                tm.commit()
                out['mismatch'].append({'what': 'write-accepted', 'form': form, 'bound': b})
            except ReadOnlyHistoryError:
                out['refused_write'] += 1
                tm.abort()
            except (POSKeyError, KeyError):
                tm.abort()
            conn.close()
        if not out['mismatch'] and db is not None and rng.random() < 0.5:
            # ... also when a live connection of the same database takes part in the same transaction with a
            # modification of its own: the commit must FAIL (not hang), nothing may be committed
            tmx = transaction.TransactionManager()
            last = rp.tids.real(sd.norm(beh[-1]['state']['hist'])[-1]['tid'])
            live = db.open(tmx)
            hist_c = db.open(tmx, before=last)
            signal.setitimer(signal.ITIMER_REAL, 30)
            try:
                try:
                    live.get(p64(0)).v = ['changed-live']
                    hist_c.get(p64(0)).v = ['changed-hist']
                    tmx.commit()
                    out['mismatch'].append({'what': 'write-accepted', 'form': 'mixed-live-and-historical'})
                except ReadOnlyHistoryError:
                    out['refused_write'] += 1
                    out['mixed'] = out.get('mixed', 0) + 1
                    tmx.abort()
                except (POSKeyError, KeyError):
                    tmx.abort()
            except TimeoutError:
                out['mismatch'].append({'what': 'hang', 'form': 'mixed-live-and-historical'})
            finally:
                signal.setitimer(signal.ITIMER_REAL, 0)
            if not out['mismatch']:
                live.close()
                hist_c.close()
        if kept and not out['mismatch']:
            # ... and leaves the commit lock free: the next transaction can begin
            import signal

            def _blocked(signum, frame):
                raise TimeoutError()
            old = signal.signal(signal.SIGALRM, _blocked)
            signal.setitimer(signal.ITIMER_REAL, 30)
            try:
                t = rp._txn()
                rp.st.tpc_begin(t)
                rp.st.tpc_abort(t)
            except TimeoutError:
                out['mismatch'].append({'what': 'commit-lock-held-after-refused-write'})
            finally:
                signal.setitimer(signal.ITIMER_REAL, 0)
                signal.signal(signal.SIGALRM, old)
    except TimeoutError:
        out['mismatch'].append({'what': 'hang'})
    finally:
        signal.setitimer(signal.ITIMER_REAL, 20)
        try:
            if db is not None:
                db.close()
            if mirror.get('db') is not None:
                mirror['db'].close()
        except Exception:
            pass
        try:
            rp.close()
        except TimeoutError:
            pass
        signal.setitimer(signal.ITIMER_REAL, 0)
    return out


def run(ctx):
    clock.install()
    q = ctx.quick
    cfg = os.path.join(ctx.scratch, 'zhist.cfg')
    tlc.write_cfg(cfg, constants={'HConn': '{"h1", "h2"}', 'Oid': '{"x", "y"}', 'MaxTid': 3 if q else 4}, init='HInit', next_='HNext',
                  invariants=['HistoricalExact', 'NeverFromTheFuture'], properties=['BoundNotInFuture', 'WritesRefused'])
    ctx.model_check('ZHistorical', cfg, name='ZHistorical', timeout=1200)
    rng = random.Random(ctx.seed * 13 + 3)
    scripts = hist_scripts(rng, 120 if q else 2000)
    c = sd.consts('file', NOid=3, Metas=('m0',), MaxTxn=14, MaxRecs=4, MaxClock=8, AtomVals=('v1', 'v2'), Cls='MCClsPlain')
    behs = sc.evaluate(ctx, 'hist', scripts, c)
    if sum(1 for s_, b in zip(scripts, behs) if sc.complete(s_, b)) < len(behs):
        raise RuntimeError('history scripts were not evaluated to their end')
    jobs = [(b, c, os.path.join(ctx.scratch, 'h-%d' % i), {'rng_seed': ctx.seed * 7777 + i}) for i, b in enumerate(behs)]
    # the same over a DemoStorage: the first 2-3 transactions become the base, the rest goes to the changes
    dscripts = demo_scripts(rng, 40 if q else 600)
    dbehs = sc.evaluate(ctx, 'hist-demo', dscripts, c)
    if sum(1 for s_, b in zip(dscripts, dbehs) if sc.complete(s_, b)) < len(dbehs):
        raise RuntimeError('demo history scripts were not evaluated to their end')
    jobs += [(b, c, os.path.join(ctx.scratch, 'hd-%d' % i), {'rng_seed': ctx.seed * 9999 + i, 'demo_after': 2 + i % 2})
             for i, b in enumerate(dbehs)]
    res = par.pmap(replay_hist, jobs, chunksize=2)
    opens = reads = 0
    forms = {}
    nontrivial = 0
    for r in res:
        opens += r['opens']
        reads += r['reads']
        for k, v in r['forms'].items():
            forms[k] = forms.get(k, 0) + v
        if r['opens'] >= 5 and r['kept'] >= 1:
            nontrivial += 1
        for m in r['mismatch'][:3]:
            sig = {'what': m['what'], 'form': m.get('form')}
            if m['what'] == 'read':
                sig.update(when=m['when'], spec=m['spec']['k'], impl=m['impl']['k'])
            ctx.violation(sig, 'historical connection diverges from the specification: %r (behaviour %s)' % (m, ' '.join(r['sig'][:40])),
                          replay={'sig': r['sig'], 'mismatch': m})
    return ctx.finish({
        'evaluations': opens,
        'distinct_nontrivial': nontrivial,
        'traces_validated_against_impl': len(res),
        'historical_opens': opens, 'reads_compared': reads, 'forms': forms,
        'future_points_refused': sum(r['refused_future'] for r in res),
        'writes_refused': sum(r['refused_write'] for r in res),
        'over_demo_storage': sum(1 for r in res if r.get('demo')),
        'mixed_live_and_historical_commits_refused': sum(r.get('mixed', 0) for r in res),
        'secondary_connections_checked': sum(r.get('mirror', 0) for r in res),
        'rule': 'directed histories evaluated by TLC (ZScript over ZStorage: objects later changed, deleted, un-created by undo, '
                'created later; stalled clock so that transactions share a second) are replayed on a FileStorage; after every '
                'commit historical connections are opened at sampled bounds of the loadBefore table in the forms before=tid, '
                'at=tid, at=datetime / before=datetime with sub-second part, before=datetime on a whole second (naive UTC and timezone-aware east/west of UTC); every object is '
                'read through the connection and compared with the table entry TLC printed (state or absent); some connections '
                'stay open (cache minimised) while the behaviour continues and are read again at the end; writes through them '
                'must raise ReadOnlyHistoryError and leave the commit lock free; points later than the newest transaction must '
                'be refused; the database is one of a multi-database whose second member holds a transaction-for-transaction copy: '
                'connections obtained with get_connection() from a historical connection must carry the same bound, read the same '
                'past state and refuse writes; a part of the histories runs on a DemoStorage whose base holds the first transactions '
                '(historical points inside the base, at the seam, in the changes); TLC checks ZHistorical (HistoricalExact, NeverFromTheFuture, BoundNotInFuture, WritesRefused); '
                'non-trivial = behaviour with >= 5 historical opens and a connection kept open across later commits',
        'samples': [res[0]['sig'][:30]] if res else [],
        'exhaustive': False,
    }, ASSUME + ['only bounds not older than the last pack are judged (the histories here are unpacked)'])
