"""C05 - a transaction that does not finish leaves no trace and blocks no one."""
from .. import clock
from ..drivers import storage as sd
from . import _storage as S
from .c04 import ASSUME


def aborted(r):
    a = r['actions']
    if a.get('VoteFail'):
        return True
    return (a.get('Abort', 0) + a.get('AbortFailed', 0) + a.get('AbortVoted', 0) + a.get('AbortStaged', 0)) >= 1 and r['txns'] >= 1


def run(ctx):
    clock.install()
    q = ctx.quick
    props = ['AbortRestores', 'OnlyFinishChangesHistory', 'WrongTxnNoEffect', 'NextCanBegin']
    S.model_check(ctx, 'file-3x1', sd.consts('file', MaxTxn=3, MaxRecs=1, Metas=('m0', 'mlong')), invariants=['TypeOK'], properties=props)
    S.model_check(ctx, 'file-2x2', sd.consts('file', MaxTxn=2, MaxRecs=2, Metas=('m0', 'mlong')), invariants=['TypeOK'], properties=props)
    S.model_check(ctx, 'mapping-3x2', sd.consts('mapping', MaxTxn=3, MaxRecs=2, Cls='MCClsPlain'), invariants=['TypeOK'], properties=props)
    big = dict(NOid=3, Metas=('m0', 'm1', 'mlong'), MaxTxn=8, MaxRecs=3, MaxClock=2)
    num = 350 if q else 5000
    cov = {}
    for kind, cls in (('file', 'MCCls'), ('mapping', 'MCClsPlain')):
        c = sd.consts(kind, Cls=cls, **big)
        files = S.simulate(ctx, kind, c, num=num // 2, depth=60, seed=ctx.seed + 5, next_='Next')
        res = S.replay_all(ctx, files, kind, c, opts={'bytes_check': True})
        c2 = sd.consts(kind, Cls=cls, **dict(big, Metas=('m0', 'm1'), MaxTxn=14))
        files = S.simulate(ctx, kind + '-late', c2, num=num, depth=90, seed=ctx.seed + 6, next_='NextAbort')
        res += S.replay_all(ctx, files[::2], kind, c2, opts={'bytes_check': True}, tag='late')
        if kind == 'file':
            # the third bundled storage: the same abort-heavy behaviours through a DemoStorage over this FileStorage
            # (behaviours with deletions are left out: a demo storage has no deleteObject)
            def plain(f):
                txt = open(f).read()
                return 'Delete' not in txt and 'Pack' not in txt
            first = [f for f in S.simulate(ctx, kind + '-demo', c, num=num // 2, depth=60, seed=ctx.seed + 15, next_='NextAbort') if plain(f)]
            rd = S.replay_all(ctx, first, kind, c, opts={'wrap_demo': True}, tag='demo')
            cov['over_demo_storage'] = len(rd)
            res += rd
        if kind == 'file':
            # a second writable open attempt in the middle of each transaction (large records: the .tmp file is in use)
            res += S.replay_all(ctx, files[2::4], kind, c2, opts={'second_open': True, 'pad': 9000}, tag='open2')
        if kind == 'file':
            # a reader racing with the vote (sparse observation, records spread over several read buffers)
            res += S.replay_all(ctx, files[1::2], kind, c2, opts={'sparse': True, 'pad': 3000}, tag='race')
        if kind == 'file':
            # every individual low-level write of the vote fails in turn (error, or short write then error); also
            # the persistent variant (every later operation fails too until the abort returns)
            from .. import faultfs
            faultfs.install()
            c3 = sd.consts(kind, Cls=cls, **dict(big, Metas=('m0', 'm1'), MaxTxn=12))
            ff = S.simulate(ctx, kind + '-fault', c3, num=num // 2, depth=70, seed=ctx.seed + 8, next_='NextFault')
            nf = 0
            for k in range(0, 4):
                for fk in ('error', 'short'):
                    rr = S.replay_all(ctx, ff, kind, c3, opts={'bytes_check': True, 'fault_k': k, 'fault_kind': fk,
                                                                'pad': (0, 9000)[k % 2]}, tag='f%d%s' % (k, fk))
                    rr = [r for r in rr if not r.get('fault_not_reached')]
                    nf += sum(r['actions'].get('VoteFail', 0) for r in rr)
                    res += rr
            if not q:
                # persistent failure: every operation from the k-th on fails until the abort has returned (its own
                # labelled class: see DESIGN 6/C05 fault model and finding F13)
                for k in range(0, 3):
                    rr = S.replay_all(ctx, ff, kind, c3, opts={'bytes_check': True, 'fault_k': k, 'fault_persist': True,
                                                                'mode_tag': 'persistent-failure'}, tag='p%d' % k)
                    rr = [r for r in rr if not r.get('fault_not_reached')]
                    nf += sum(r['actions'].get('VoteFail', 0) for r in rr)
                    res += rr
            cov['faults_injected'] = nf
            cov['quota_refusals'] = sum(r['actions'].get('StoreQuota', 0) for r in res)
            if not cov['quota_refusals'] and not ctx.violations:
                raise RuntimeError('vacuous run: no store was refused by the quota')
        cov[kind] = S.judge(ctx, res, kind, focus=aborted)
        cov[kind]['sample'] = res[0]['sig'][:25]
    nf = cov.pop('faults_injected', 0)
    nq = cov.pop('quota_refusals', 0)
    nd = cov.pop('over_demo_storage', 0)
    ev = sum(v['behaviours'] for v in cov.values())
    return ctx.finish({
        'evaluations': ev,
        'distinct_nontrivial': sum(v['nontrivial'] for v in cov.values()),
        'rule': 'TLC -simulate behaviours of ZStorage under the full Next and under NextAbort (abort enabled at every phase: after begin, '
                'after each store, after a refused call, after vote; over-long metadata refused at begin; stores refused by the file-size quota (StoreQuota); calls with a '
                'foreign transaction in every state); after every abort the full query table must equal the table before '
                'the begin (specification action property AbortRestores), the data file must be byte-identical to the '
                'file before the begin, and later transactions in the same behaviour must commit with the answers the '
                'specification gives; non-trivial = contains an abort and a commit',
        'traces_validated_against_impl': ev,
        'per_storage': cov,
        'vote_faults_injected': nf, 'stores_refused_by_quota': nq, 'behaviours_over_demo_storage': nd,
        'samples': [cov[k]['sample'] for k in cov],
        'exhaustive': False,
    }, ASSUME)
