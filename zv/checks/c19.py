"""C19 - the oid index (fsIndex) behaves as an ordered map and survives save/load.

1. TLC checks spec/ZFsIndex.tla: the transcription of the two-level structure (prefix tree, suffix
   buckets, prefix +/- 1) against the flat ordered-map meaning, for every index over a small
   prefix x suffix universe and every query key.  With the case analysis "as the code is"
   (AsCode = TRUE) TLC exhibits counterexamples (finding F1); with the repaired one it agrees.
2. Every transition of the dumped state graph is executed on a real fsIndex under several
   concretisations (00.. / ff.. prefixes, dense, interior), the outcome of the call and the answer
   of EVERY query afterwards compared with what TLC printed for the target state; seeded long
   walks through the same graph exercise one real object over long histories; FileStorage.
   record_iternext is driven over sparse oids as a consumer of minKey.
The verdict is always "real answer vs. the MEANING printed by TLC" (value vs. other value, value vs.
exception, no answer vs. anything but a ValueError/KeyError)."""
import collections
import concurrent.futures
import json
import os
import random

from .. import par, tlc
from ..drivers import fsindex as fx

ASSUME = ['TLC results are exhaustive only within the stated universes (prefix x suffix x values); the small-scope '
          'hypothesis carries them to 2^48 prefixes: the concretisations place the model prefixes at both ends of the '
          '48-bit range, next to each other and far apart',
          'BTrees (OOBTree, fsBucket incl. toString/fromString) and zodbpickle are trusted as installed',
          'keys are 8-byte strings and positions are integers in [0, 2^48) as the property states',
          'a save is explored when immediately followed by the load (any mutation in between is explored on a smaller '
          'universe in the thorough tier)']

INVARIANTS = ['TypeOK', 'Refines', 'NoEmptyBucket', 'QueriesAgree', 'BoundsAgree', 'ObsPrinted']
CEX = ['MinAgreeAbsent', 'MinAgreePresent', 'MaxAgreeAbsent', 'MaxAgreePresent']


def consts(NP, NS, NV=1, NPos=1, upd='MCUpd', as_code=False, bound=True, atmost=None):
    return {'NP': NP, 'NS': NS, 'NV': NV, 'NPos': NPos, 'Upd': upd, 'FirstIsZero': True, 'LastIsMax': True,
            'AsCode': as_code, 'bound': bound, 'atmost': atmost}


def _cfg(ctx, name, c, invariants, properties=()):
    k = {'NP': c['NP'], 'NS': c['NS'], 'NV': c['NV'], 'NPos': c['NPos'], 'Upd': '<- ' + c['Upd'],
         'FirstIsZero': 'TRUE' if c['FirstIsZero'] else 'FALSE', 'LastIsMax': 'TRUE' if c['LastIsMax'] else 'FALSE',
         'AsCode': 'TRUE' if c['AsCode'] else 'FALSE'}
    if c['bound']:
        k['MayMutate'] = '<- SaveThenLoad'
    path = os.path.join(ctx.scratch, name + '.cfg')
    con = None
    if c.get('atmost'):
        # a CONSTRAINT must be a defined operator name: MCZFsIndex offers AtMost3 / AtMost4
        con = 'AtMost%d' % c['atmost']
    tlc.write_cfg(path, constants=k, invariants=invariants, properties=properties, constraint=con)
    return path


def _tlc_graph(args):
    ctx, name, c, workers, timeout = args
    cfg = _cfg(ctx, name, c, INVARIANTS, ['RoundTrip'])
    dot = os.path.join(ctx.scratch, name + '.dot')
    r = tlc.run('MCZFsIndex', cfg, workers=workers, timeout=timeout, dump_dot=dot)
    return name, r, dot


def _tlc_cex(args):
    ctx, inv, c, workers = args
    cfg = _cfg(ctx, 'cex-' + inv, c, [inv])
    return inv, tlc.run('MCZFsIndex', cfg, workers=workers, timeout=300)


def model_runs(ctx, graphs, cex_consts):
    """All TLC runs of the tier, side by side.  -> {name: Graph}, {invariant: TLCResult}"""
    jobs = []
    ncpu = os.cpu_count() or 4
    with concurrent.futures.ThreadPoolExecutor(max_workers=max(1, len(graphs) + len(CEX))) as ex:
        for name, c, timeout, gw in graphs:
            jobs.append(ex.submit(_tlc_graph, (ctx, name, c, gw if len(graphs) > 2 else max(2, (ncpu - 4) // 2), timeout)))
        cj = [ex.submit(_tlc_cex, (ctx, inv, cex_consts, 1)) for inv in CEX]
        res = [j.result() for j in jobs]
        cres = [j.result() for j in cj]
    out = {}
    for (name, r, dot), (_, c, _t, _w) in zip(res, graphs):
        ctx.add_tlc(name, r)
        if not r.ok:
            raise tlc.TLCError('ZFsIndex/%s: the repaired transcription does not satisfy %s\n%s' % (name, r.violation, r.output[-3000:]))
        g = fx.load_graph(dot, r.output, c)
        os.remove(dot)
        if c.get('atmost') is None and len(g.obs) != (c['NV'] + 1) ** (c['NP'] * c['NS']):
            raise RuntimeError('%s: %d index contents, expected %d' % (name, len(g.obs), (c['NV'] + 1) ** (c['NP'] * c['NS'])))
        out[name] = g
    cex = {}
    for inv, r in cres:
        ctx.add_tlc('as-code-' + inv, r)
        if r.violation != inv:
            raise tlc.TLCError('ZFsIndex with AsCode = TRUE: expected a counterexample to %s, got %s\n%s' % (inv, r.violation, r.output[-2000:]))
        cex[inv] = r
    return out, cex


# ------------------------------------------------------------------------------------------------

def replay_graph(ctx, name, g, profiles, acc, stats, walks, walk_len, consumer_n):
    parent = fx.bfs_paths(g)
    fx.publish(name, g, parent)
    nw = os.cpu_count() or 4
    order = list(range(len(g.nodes)))
    random.Random(ctx.seed).shuffle(order)          # balance the slices; results do not depend on it
    slices = [order[i::nw * 2] for i in range(nw * 2)]
    jobs = []
    for prof in profiles:
        for sl in slices:
            if sl:
                jobs.append(('edges', (name, prof, sl, ctx.scratch)))
        for w in range(walks):
            jobs.append(('walk', (name, prof, ctx.seed * 1000003 + w * 7919 + len(prof['kind']), walk_len, ctx.scratch)))
    if consumer_n:
        rng = random.Random(ctx.seed + 17)
        contents = sorted(g.obs)
        pick = contents if consumer_n >= len(contents) else rng.sample(contents, consumer_n)
        for prof in profiles:
            if prof['kind'] in ('ends', 'dense'):
                cp = fx.consumer_profile(prof)
                for sl in par.chunks(pick, nw):
                    jobs.append(('consumer', (name, cp, sl, ctx.scratch)))
    results = par.pmap(_dispatch, jobs)
    st = stats.setdefault(name, {'states': len(g.nodes), 'edges': g.edge_count, 'index_contents': len(g.obs),
                                 'profiles': [p['kind'] + '/%d' % p['seed'] for p in profiles],
                                 'edge_steps': 0, 'walk_steps': 0, 'walks': 0, 'queries': 0, 'consumer_calls': 0,
                                 'consumer_storages': 0, 'actions': collections.Counter(),
                                 'agree': collections.Counter(), 'bound_queries': collections.Counter(),
                                 'walk_states_seen': 0})
    for (kind, job), r in zip(jobs, results):
        prof = job[1]
        for e in r['mism'].values():
            e['example']['graph'] = name
            e['example']['prof'] = prof
        acc.merge(r['mism'])
        if kind == 'consumer':
            st['consumer_calls'] += r['calls']
            st['consumer_storages'] += r['storages']
            continue
        st['queries'] += r['queries']
        st['actions'].update(r['actions'])
        st['agree'].update(r['agree'])
        st['bound_queries'].update(r['cov'])
        if kind == 'edges':
            st['edge_steps'] += r['steps']
        else:
            st['walk_steps'] += r['steps']
            st['walks'] += 1
            st['walk_states_seen'] = max(st['walk_states_seen'], r['states_seen'])
    if st['edge_steps'] != g.edge_count * len(profiles):
        raise RuntimeError('%s: %d transitions executed, graph has %d x %d profiles' % (name, st['edge_steps'], g.edge_count, len(profiles)))
    missing = [a for a in fx.MUTATORS + ('Del:KeyError',) if not st['actions'].get(a)]
    if missing:
        raise RuntimeError('%s: actions never taken in the replay: %s' % (name, missing))
    for k in ('bounded', 'unbounded', 'bounded_prefix_absent', 'no_answer'):
        if not st['bound_queries'].get(k):
            raise RuntimeError('%s: no minKey/maxKey query of kind %s was made' % (name, k))
    return st


def _dispatch(job):
    kind, a = job
    return {'edges': fx.edges_job, 'walk': fx.walk_job, 'consumer': fx.consumer_job}[kind](a)


def nontrivial(g):
    """Measured on the graph TLC dumped: transitions whose target index content has a key AND a prefix of the
    universe without a bucket (only there can a bounded query meet an absent prefix and still have an answer),
    or which are a Load / a failing Del.  Uses TLC's printed tables only."""
    n = 0
    NP = g.consts['NP']
    for a, lst in enumerate(g.adj):
        for act, args, b in lst:
            o = g.obs[g.nodes[b][0]]
            np_ = len({k[0] for k in o['keys']})
            if 0 < np_ < NP or act == 'Load' or g.nodes[b][2] != 'ok':
                n += 1
    return n


def counterexamples(ctx, g, cex, prof):
    """TLC's counterexamples for the case analysis as the code is, run on the code."""
    out = []
    for inv in CEX:
        r = cex[inv]
        ops = [(s['action'], tuple(s['args'])) for s in r.trace if s['action'] != 'Init']
        mms, node, rp = fx.run_ops(g, prof, ops, ctx.scratch)
        idxseq = g.nodes[node][0]
        tb = rp.table(idxseq)
        col, colc, meth = ('minGE', 'minGEC', 'minKey') if inv.startswith('Min') else ('maxLE', 'maxLEC', 'maxKey')
        want_present = inv.endswith('Present')
        for n in range(1, len(rp.keys)):
            m, c = tb[col][n], tb[colc][n]
            c_fam = ('none',) if c[0] == 'exc' and c[1] in ('ValueError', 'KeyError') else c
            if c_fam == m or (rp.kp[n] in tb['prefixes']) != want_present:
                continue
            real = fx._call(getattr(rp.ix, meth), rp.keys[n])
            got = ('key', real[1]) if real[0] == 'val' else \
                  ('none',) if isinstance(real[1], fx.LOOKUP) else ('exc', fx._exc_name(real[1]))
            out.append({'invariant': inv, 'calls': fx.fmt_ops([(a, b) for a, b in ops]),
                        'query': '%s(%s)' % (meth, rp.keys[n].hex()), 'meaning': _t(m), 'as_code': _t(c), 'real': _t(got),
                        'real_follows': 'meaning' if got == m else 'as_code' if got == c_fam else 'neither'})
            break
        else:
            raise RuntimeError('TLC reported %s violated but the printed tables agree in its final state' % inv)
    return out


def _t(x):
    return x[1].hex() if x[0] == 'key' else 'no such key' if x[0] == 'none' else 'raises ' + x[1]


def report(ctx, acc):
    for k in sorted(acc.by_sig):
        e = acc.by_sig[k]
        ex = e['example']
        what = 'a sorted dictionary' if not ex['query'].startswith('record_iternext') else 'iteration over a sorted dictionary'
        ctx.violation(e['sig'],
                      'fsIndex after %s: %s -> %s; %s (TLC, ZFsIndex) -> %s  [%d occurrence(s); universe %s, concretisation %s: '
                      'prefixes %s suffixes %s]' % (
                          ' '.join(ex['ops']) or '(empty index)', ex['query'], ex['got'], what, ex['expected'], e['count'],
                          ex['graph'], ex['profile'], ','.join(ex['prof']['prefixes']), ','.join(ex['prof']['suffixes'])),
                      replay={'graph': ex['graph'], 'profile': ex['prof'], 'ops': ex['ops'], 'query': ex['query']})


GRAPHS = {
    # name: (consts, TLC timeout, TLC workers, concretisation kinds in the thorough tier)
    '3x3': (consts(3, 3, NV=1, NPos=3), 300, 4, ['ends', 'dense', 'top', 'interior', 'ends', 'interior']),
    '2x2v2': (consts(2, 2, NV=2, NPos=2), 300, 1, ['ends', 'dense', 'top', 'interior']),
    '3x2v2': (consts(3, 2, NV=2, NPos=2), 600, 2, ['ends', 'dense', 'top', 'interior']),
    '2x3v2': (consts(2, 3, NV=2, NPos=2), 600, 2, ['ends', 'dense', 'top', 'interior']),
    '4x3': (consts(4, 3, NV=1, NPos=1), 900, 4, ['ends', 'interior']),
    '3x4': (consts(3, 4, NV=1, NPos=1), 900, 4, ['ends', 'dense']),
    '4x4le4': (consts(4, 4, NV=1, NPos=1, atmost=4), 900, 6, ['ends', 'top']),
    '2x2free': (consts(2, 2, NV=2, NPos=1, upd='MCUpdSmall', bound=False), 900, 2, ['ends', 'interior']),
}
QUICK = ['3x3', '2x2v2']
QUICK_KINDS = ['ends', 'dense', 'interior']


def profiles_for(name, c, quick, seed):
    kinds = QUICK_KINDS if quick else GRAPHS[name][3]
    out, seen = [], collections.Counter()
    for k in kinds:
        out.append(fx.make_profile(k, c['NP'], c['NS'], c['NV'], c['NPos'], seed + 101 * seen[k]))
        seen[k] += 1
    return out


def run(ctx):
    import time
    q = ctx.quick
    t0 = time.time()
    names = QUICK if q else list(GRAPHS)
    graphs, cex = model_runs(ctx, [(n,) + GRAPHS[n][:3] for n in names], consts(3, 3, NV=1, NPos=1, as_code=True))
    acc = fx._Acc()
    stats = {}
    nt = 0
    ctx.notes.append('TLC runs and parsing of graphs/tables: %.1fs' % (time.time() - t0))
    for n in names:
        t1 = time.time()
        g = graphs[n]
        big = g.edge_count > 150000
        profs = profiles_for(n, g.consts, q, ctx.seed)
        replay_graph(ctx, n, g, profs, acc, stats,
                     walks=(4 if big else 8), walk_len=(1500 if q else 2000 if big else 3000),
                     consumer_n=(40 if q else 10 ** 9) if n == '3x3' else 0)
        nt += nontrivial(g) * len(profs)
        ctx.notes.append('replay of %s: %.1fs' % (n, time.time() - t1))
        if n != '3x3':
            fx._G.pop(n, None)
            graphs[n] = None
    ends = fx.make_profile('ends', 3, 3, 1, 3, ctx.seed)
    cexs = counterexamples(ctx, graphs['3x3'], cex, ends)
    report(ctx, acc)
    steps = sum(s['edge_steps'] + s['walk_steps'] for s in stats.values())
    agree = collections.Counter()
    for s in stats.values():
        agree.update(s['agree'])
        s['actions'] = dict(s['actions'])
        s['agree'] = dict(s['agree'])
        s['bound_queries'] = dict(s['bound_queries'])
    follows = 'as_code' if agree['as_code'] == agree['bound_queries'] else \
              'repaired' if agree['repaired'] == agree['bound_queries'] else 'neither'
    g3 = graphs['3x3']
    sample_ops = fx.path_to(fx.bfs_paths(g3), max(range(len(g3.nodes)), key=lambda i: (sum(1 for x in g3.nodes[i][0] if x), g3.nodes[i][3])))
    return ctx.finish({
        'evaluations': steps,
        'distinct_nontrivial': nt,
        'rule': 'every transition (Set, Del incl. absent key, Clear, Update, Save, Load) of the complete TLC state graph of '
                'ZFsIndex over each universe, executed on a real fsIndex rebuilt by the shortest call sequence to the source '
                'state, once per concretisation profile; after the call the outcome and ALL queries (len, keys/items/values '
                'and their iterators, get, in, has_key, [], minKey/maxKey without bound and with every key of the universe '
                'as bound) are compared with the table TLC printed for the target index content; plus seeded long walks on '
                'one object and record_iternext over FileStorages with those oids.  distinct = distinct (universe, profile, '
                'transition); non-trivial = the target index content has a key and a prefix of the universe without a bucket, '
                'or the call is a Load or a failing Del (counted on the dumped graph)',
        'traces_validated_against_impl': steps,
        'queries_compared': sum(s['queries'] for s in stats.values()),
        'universes': stats,
        'code_follows_transcription': follows,
        'transcription_agreement': dict(agree),
        'tlc_counterexamples_as_code': cexs,
        'samples': [fx.fmt_ops(sample_ops), cexs[0]],
        'exhaustive': True,
    }, ASSUME)


def replay(ctx, data):
    """./check C19 --replay FILE: the recorded call sequence on the recorded concretisation, judged as in run()
    (prints the divergences; the evidence file of the last full run is left alone)."""
    rp = data['replay']
    name = rp['graph']
    c, timeout = GRAPHS[name][:2]
    name_, r, dot = _tlc_graph((ctx, name, c, None, timeout))
    if not r.ok:
        raise tlc.TLCError('ZFsIndex/%s: %s' % (name, r.violation))
    g = fx.load_graph(dot, r.output, c)
    ops = []
    for s in rp['ops']:
        a, _, rest = s.partition('(')
        rest = rest.rstrip(')')
        ops.append((a, tuple(int(x) for x in rest.split(',')) if rest else ()))
    fx.publish(name, g, None)
    acc = fx._Acc()
    if 'record_iternext' in str(rp.get('query')):
        idxseq = [0] * (c['NP'] * c['NS'])
        for a, args in ops:
            idxseq[g.num(args[0], args[1]) - 1] = args[2]
        acc.merge(fx.consumer_job((name, rp['profile'], [tuple(idxseq)], ctx.scratch))['mism'])
    else:
        mms, node, _rp = fx.run_ops(g, rp['profile'], ops, ctx.scratch)
        for i, mm, done in mms:
            acc.add(mm, done, rp['profile'])
    rc = 0
    for k in sorted(acc.by_sig):
        e = acc.by_sig[k]
        ex = e['example']
        print('replayed: after %s: %s -> %s; ZFsIndex (TLC) -> %s   signature %s' % (
            ' '.join(ex['ops']), ex['query'], ex['got'], ex['expected'], json.dumps(e['sig'], sort_keys=True)))
        rc = 1
    if not rc:
        print('replayed %d calls: every outcome and query agrees with ZFsIndex' % len(ops))
    return rc
